"""Registration model of the Lua interpreter blockwatch embeds, derived from the *pinned sources* in
the cargo registry (versions taken from /repo/Cargo.lock): which mlua StdLib bit opens which
library, which libraries `Lua::new` / `unsafe_new` / `new_with` load, and which global names each
`luaL_Reg` table of the vendored Lua registers. Nothing is executed; the C and Rust sources are
read as text with the patterns stated here, and every pattern must match (fail closed)."""
import glob
import os
import re


class ModelError(Exception):
    pass


def lock_versions(repo):
    vers = {}
    txt = open(os.path.join(repo, "Cargo.lock")).read()
    for m in re.finditer(r'name = "([^"]+)"\nversion = "([^"]+)"', txt):
        vers.setdefault(m.group(1), []).append(m.group(2))
    return vers


def registry_dir(name, version):
    cands = glob.glob(os.path.expanduser("~/.cargo/registry/src/*/%s-%s" % (name, version)))
    if not cands:
        raise ModelError("source of %s %s is not in the cargo registry" % (name, version))
    return cands[0]


def mlua_features(repo):
    txt = open(os.path.join(repo, "Cargo.toml")).read()
    m = re.search(r'^mlua\s*=\s*\{[^}]*features\s*=\s*\[([^\]]*)\]', txt, re.M)
    if not m:
        raise ModelError("mlua dependency line with features not found in Cargo.toml")
    return [x.strip().strip('"') for x in m.group(1).split(",") if x.strip()]


def eval_bits(expr):
    expr = expr.strip()
    expr = expr.replace("u32::MAX", str((1 << 32) - 1))
    if not re.fullmatch(r"[0-9 ()<>\-+|]+", expr):
        raise ModelError("unexpected StdLib constant expression: %s" % expr)
    return eval(expr, {"__builtins__": {}}) & 0xFFFFFFFF


def load(repo="/repo"):
    vers = lock_versions(repo)
    feats = mlua_features(repo)
    lua_feat = [f for f in feats if re.fullmatch(r"lua5[1-5]|luajit|luajit52|luau", f)]
    if lua_feat != ["lua54"]:
        raise ModelError("mlua is built with %s; the model covers the lua54 feature" % lua_feat)
    mv = vers.get("mlua", ["?"])[0]
    md = registry_dir("mlua", mv)
    model = {"mlua": mv, "features": feats, "sources": []}

    # ---- StdLib bits
    st = open(os.path.join(md, "src/stdlib.rs")).read()
    model["sources"].append(os.path.join(md, "src/stdlib.rs"))
    bits = {}
    for m in re.finditer(r"((?:\s*#\[cfg\([^\n]*\)\]\n)*)\s*pub const (\w+): StdLib = StdLib\(([^;]*)\);", st):
        cfgs, name, expr = m.group(1), m.group(2), m.group(3)
        if 'feature = "luau"' in cfgs and "not(" not in cfgs:
            continue
        if "luajit" in cfgs and "not(" not in cfgs:
            continue
        if name in bits:
            continue
        bits[name] = eval_bits(expr)
    for need in ("COROUTINE", "TABLE", "IO", "OS", "STRING", "UTF8", "MATH", "PACKAGE", "DEBUG", "ALL", "ALL_SAFE"):
        if need not in bits:
            raise ModelError("StdLib::%s not found in mlua's stdlib.rs" % need)
    model["bits"] = bits
    # `contains` is an INTERSECTION test in this mlua (not a superset test); read, not assumed
    m = re.search(r"pub fn contains\(self, lib: Self\) -> bool \{\s*([^}]*?)\s*\}", st)
    body = re.sub(r"\s+", "", m.group(1)) if m else None
    if body == "(self&lib).0!=0":
        model["contains"] = "intersects"
    elif body in ("(self&lib).0==lib.0", "(self&lib)==lib", "self.0&lib.0==lib.0"):
        model["contains"] = "superset"
    else:
        raise ModelError("StdLib::contains has an unexpected body in mlua's stdlib.rs: %r" % body)

    # ---- bit -> luaopen_* (raw.rs), base library always opened
    raw = open(os.path.join(md, "src/state/raw.rs")).read()
    model["sources"].append(os.path.join(md, "src/state/raw.rs"))
    libmap = {}
    for m in re.finditer(r"if libs\.contains\(StdLib::(\w+)\) \{\s*requiref\(state, ffi::(\w+), ffi::luaopen_(\w+), 1\)\?;", raw):
        libmap.setdefault(m.group(1), m.group(3))
    if not re.search(r'luaL_requiref\(state, cstr!\("_G"\), ffi::luaopen_base, 1\)', raw):
        raise ModelError("mlua no longer opens the base library unconditionally (pattern not found)")
    for need in ("COROUTINE", "TABLE", "IO", "OS", "STRING", "UTF8", "MATH", "PACKAGE", "DEBUG"):
        if need not in libmap:
            raise ModelError("no `libs.contains(StdLib::%s)` -> requiref mapping found in mlua's raw.rs" % need)
    model["libmap"] = libmap
    if not re.search(r"if is_safe && libs\.contains\(StdLib::DEBUG\)\s*\{\s*return Err", raw):
        raise ModelError("mlua's safe-mode rejection of StdLib::DEBUG not found")
    if not re.search(r"contains\(StdLib::PACKAGE\)\s*\{\s*mlua_expect!\(self\.lua\(\)\.disable_c_modules\(\)", raw):
        raise ModelError("mlua's disable_c_modules for safe states not found")
    stt = open(os.path.join(md, "src/state.rs")).read()
    model["sources"].append(os.path.join(md, "src/state.rs"))
    if not re.search(r"pub fn new\(\) -> Lua \{\s*mlua_expect!\(\s*Self::new_with\(StdLib::ALL_SAFE, LuaOptions::default\(\)\)", stt):
        raise ModelError("Lua::new() is no longer new_with(StdLib::ALL_SAFE, default)")
    if not re.search(r"pub unsafe fn unsafe_new\(\) -> Lua \{\s*Self::unsafe_new_with\(StdLib::ALL, LuaOptions::default\(\)\)", stt):
        raise ModelError("Lua::unsafe_new() is no longer unsafe_new_with(StdLib::ALL, default)")

    # ---- Lua C sources: luaL_Reg tables
    lv = vers.get("lua-src", ["?"])[0]
    ld = registry_dir("lua-src", lv)
    cdirs = sorted(glob.glob(os.path.join(ld, "lua-5.4*")))
    if len(cdirs) != 1:
        raise ModelError("expected one lua-5.4.x source directory in lua-src %s, found %s" % (lv, cdirs))
    cdir = cdirs[0]
    model["lua"] = os.path.basename(cdir)

    def regs(fname, table):
        path = os.path.join(cdir, fname)
        model["sources"].append(path)
        txt = open(path).read()
        m = re.search(r"static const luaL_Reg %s\[\] = \{(.*?)\};" % re.escape(table), txt, re.S)
        if not m:
            raise ModelError("luaL_Reg %s not found in %s" % (table, fname))
        return [x for x in re.findall(r'\{"([^"]+)",\s*\w+\}', m.group(1))]

    globals_by_open = {
        "base": regs("lbaselib.c", "base_funcs"),
    }
    members = {
        "coroutine": regs("lcorolib.c", "co_funcs"),
        "table": regs("ltablib.c", "tab_funcs"),
        "string": regs("lstrlib.c", "strlib"),
        "utf8": regs("lutf8lib.c", "funcs"),
        "math": regs("lmathlib.c", "mathlib"),
        "io": regs("liolib.c", "iolib"),
        "os": regs("loslib.c", "syslib"),
        "debug": regs("ldblib.c", "dblib"),
        "package": regs("loadlib.c", "pk_funcs"),
    }
    ll = regs("loadlib.c", "ll_funcs")
    # luaopen_* -> library global name (lualib.h)
    hdr = open(os.path.join(cdir, "lualib.h")).read()
    model["sources"].append(os.path.join(cdir, "lualib.h"))
    libname = {}
    for m in re.finditer(r'#define LUA_(\w+)LIBNAME\s+"(\w+)"\s*\nLUAMOD_API int \(luaopen_(\w+)\)', hdr):
        libname[m.group(3)] = m.group(2)
    for need in ("coroutine", "table", "io", "os", "string", "utf8", "math", "debug", "package"):
        if libname.get(need) != need:
            raise ModelError("lualib.h: luaopen_%s does not register the global `%s`" % (need, need))
    model["base_globals"] = sorted(set(globals_by_open["base"]) | {"_G", "_VERSION"})
    model["members"] = members
    model["package_globals"] = ll          # luaopen_package also sets these globals (require)
    model["libname"] = libname
    return model


def globals_for(model, flags, removed=()):
    """Global names present in a state opened with `flags` (base library always)."""
    g = set(model["base_globals"])
    libs = []
    for bit, opn in model["libmap"].items():
        if flags & model["bits"][bit]:
            if opn not in model["libname"]:
                continue        # luajit / luau only libraries: not compiled in with the lua54 feature
            libs.append(opn)
            g.add(model["libname"][opn])
            if opn == "package":
                g |= set(model["package_globals"])
    for r in removed:
        g.discard(r)
    return g, sorted(libs)
