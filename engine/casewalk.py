"""A15 — case analysis by path-sensitive constant propagation over one (normalised) body.

Some rules are finite tables over a *configuration value*: "keep-sorted: empty/asc -> a neighbour
pair violates iff prev > curr; desc -> iff prev < curr; anything else -> error". How such a table is
written varies a lot (a normalised string compared twice, a `match` on the lower-cased text, an enum
with `parse` / `violating_ordering` methods, a `matches!`), and reading it off one spelling makes the
rule alarm on every other. This engine instead explores the control-flow graph once per *case* with
an abstract environment

    local -> const | adt(variant, fields) | tuple | ref(local, path) | sym(name) | TOP

updated along each path (so merged locals are never a problem: on a path, the definition in force is
known), and with *hooks* that give calls an abstract result for the case at hand (`is_empty(trim(v))`
is true in the case "blank", `eq(lower(v), "asc")` is true in the case "asc", the comparator returns
`Ok(Greater)` in the case "prev > curr", ...). A switch whose operand is known follows that edge only;
anything unknown (TOP) follows all edges. Nothing is executed: no input exists, calls without a hook
return TOP, loops are closed by memoising (block, environment) states. The rule then asks which
*marked* blocks (an error exit, the construction of a violation) are reachable in each case and
compares that with the specification on every case.
"""
from .cfg import cfg_of
from .facts import callee_name

TOP = ("top",)


def const(v):
    return ("const", v)


def adt(path, variant, vi, fields=()):
    return ("adt", path, variant, vi, tuple(fields))


def sym(name, *args):
    return ("sym", name) + tuple(args)


def is_const(v):
    return isinstance(v, tuple) and v and v[0] == "const"


class Limit(Exception):
    pass


class Walk:
    def __init__(self, ctx, body, hooks, max_states=60000):
        self.ctx = ctx
        self.b = body
        self.cfg = cfg_of(body)
        self.hooks = hooks          # fn(walk, bb, term, argvals, env) -> value | None
        self.max_states = max_states
        self.adts = ctx.facts.adts

    # ------------------------------------------------------------------ values
    def field(self, v, f):
        if v[0] == "adt":
            for k, x in v[4]:
                if k == f:
                    return x
            return TOP
        if v[0] == "tuple":
            if f.isdigit() and int(f) < len(v[1]):
                return v[1][int(f)]
            return TOP
        if v[0] == "sym":
            return sym("field", v, f)
        return TOP

    def read_place(self, env, pl, depth=0):
        v = env.get(pl["l"], TOP)
        for e in pl["p"]:
            if e == "deref":
                if v[0] == "ref" and depth < 12:
                    v = self.read_place(env, {"l": v[1], "p": [_thaw(x) for x in v[2]]}, depth + 1)
                # derefs of anything else (Box, symbolic) are transparent
                continue
            if isinstance(e, dict):
                if "f" in e:
                    v = self.field(v, str(e["f"]))
                elif "dc" in e:
                    if v[0] == "adt" and v[2] != str(e["dc"]) and not str(e["dc"]).isdigit():
                        return TOP
                elif "idx" in e or "cidx" in e:
                    i = env.get(e["idx"], TOP) if "idx" in e else const(e["cidx"])
                    if v[0] == "list" and is_const(i) and isinstance(i[1], int) and 0 <= i[1] < len(v[1]):
                        v = v[1][i[1]]
                    else:
                        return TOP
                else:
                    return TOP
            else:
                return TOP
        return v

    def operand(self, env, op):
        if "c" in op:
            return self.read_place(env, op["c"])
        if "m" in op:
            return self.read_place(env, op["m"])
        k = op.get("k")
        if isinstance(k, dict):
            if k.get("promoted") is not None and k.get("uneval") and "[" in (k.get("ty") or ""):
                # a promoted array / slice of constants (`&["OK", "OK."]`): the list, not one of its strings
                pv = self._promoted("%s::{promoted#%s}" % (k["uneval"], k["promoted"]))
                if pv != TOP:
                    return pv
            if k.get("static"):
                # a reference to a `static` item: the value its (straight-line) initialiser builds
                pv = self._promoted(k["static"])
                if pv != TOP:
                    return pv
            s = self.ctx.facts.const_str(k)
            if s is not None:
                return const(s)
            if "int" in k:
                return const(k["int"])
            if "fn" in k:
                return ("fn", k["fn"])
            if k.get("promoted") is not None and k.get("uneval"):
                return self._promoted("%s::{promoted#%s}" % (k["uneval"], k["promoted"]))
            if k.get("uneval"):
                return self._promoted(k["uneval"])      # a named constant: its (straight-line) initialiser
        return TOP

    def _promoted(self, pid):
        """value of a promoted constant (`&BlockSeverity::Error`, `&["a", "b"]`): its straight-line body
        evaluated on an empty environment"""
        cache = self.__dict__.setdefault("_prom", {})
        if pid in cache:
            return cache[pid]
        pb = self.ctx.facts.bodies.get(pid)
        val = TOP
        if pb is not None and len([x for x in pb.blocks if not x["cleanup"]]) <= 2 and not any(b_["term"] and b_["term"]["k"] == "call" for b_ in pb.blocks):
            env = {}
            sub = Walk(self.ctx, pb, [])
            for blk in pb.blocks:
                if blk["cleanup"]:
                    continue
                for s in blk["stmts"]:
                    if s["k"] == "assign":
                        sub.write_place(env, s["lhs"], sub.rvalue(env, s["rv"]))
            v0 = env.get(0, TOP)
            # a reference to a temporary of the promoted body: hand out the value itself
            seen = 0
            while v0[0] == "ref" and seen < 4:
                v0 = sub.read_place(env, {"l": v0[1], "p": [_thaw(x) for x in v0[2]]})
                seen += 1
            val = v0
        elif pb is not None and pb.kind in ("Const", "AssocConst", "Static") and getattr(self, "_prom_depth", 0) < 3:
            # a constant built by `const fn` calls of the crate (`Detector::new("x", f).flagged()`): its initialiser
            # with those calls inlined, walked with this walk's hooks; used if every path yields the same value
            from .inline import inlined
            try:
                view = inlined(self.ctx.facts, pb, tag="const-init")
                sub = Walk(self.ctx, view, list(self.hooks), max_states=2000)
                sub._prom_depth = getattr(self, "_prom_depth", 0) + 1
                rets = set()

                def on_visit(bb, env, view=view, rets=rets, sub=sub):
                    tm = view.blocks[bb]["term"]
                    if tm and tm["k"] == "return":
                        rets.add(sub.deref_val(env, env.get(0, TOP)))
                sub.on_visit = on_visit
                sub.explore(0, {})
                if len(rets) == 1:
                    val = next(iter(rets))
            except Limit:
                val = TOP
        cache[pid] = val
        return val

    def deref_val(self, env, v, depth=0):
        while v[0] == "ref" and depth < 12:
            v = self.read_place(env, {"l": v[1], "p": [_thaw(x) for x in v[2]]})
            depth += 1
        return v

    def rvalue(self, env, rv):
        k = rv["k"]
        if k == "use":
            return self.operand(env, rv["op"])
        if k in ("ref", "rawptr"):
            pl = rv["place"]
            # reborrow `&(*x)`: the same referent
            if pl["p"] and pl["p"][0] == "deref":
                base = env.get(pl["l"], TOP)
                if base[0] == "ref":
                    rest = [e for e in pl["p"][1:]]
                    if all(isinstance(e, dict) and ("f" in e or "dc" in e) or e == "deref" for e in rest):
                        return ("ref", base[1], tuple(base[2]) + tuple(_freeze(e) for e in rest), bool(rv.get("mut")))
                v = self.read_place(env, pl)
                return v if v[0] in ("sym", "const", "adt", "tuple", "list", "iter", "closure", "fn") else TOP
            if all(isinstance(e, dict) and ("f" in e or "dc" in e) for e in pl["p"]):
                return ("ref", pl["l"], tuple(_freeze(e) for e in pl["p"]), bool(rv.get("mut")))
            if pl["p"] and pl["p"][-1] == "deref" and all(isinstance(e, dict) and ("f" in e or "dc" in e) for e in pl["p"][:-1]):
                # `&*x.f` where the field holds a pointer (`&str`, `&T`): the pointer itself
                v = self.read_place(env, {"l": pl["l"], "p": pl["p"][:-1]})
                return v if v[0] in ("sym", "const", "ref", "adt", "tuple", "list", "closure", "fn") else TOP
            return TOP
        if k == "cast":
            v = self.operand(env, rv["op"])
            if v == TOP and rv.get("from_box_adt") and "Unsize" in str(rv.get("kind")):
                # `Box<T> as Box<dyn Tr>` of a value that is not followed: at least which T it is
                return sym("boxed", rv["from_box_adt"])
            return v if v[0] in ("const", "sym", "ref", "list", "adt", "tuple", "closure", "fn") else TOP
        if k == "discr":
            v = self.read_place(env, rv["place"])
            if v[0] == "adt" and isinstance(v[3], int):
                # crate enums carry the variant index; the switch is on the discriminant value
                a = self.adts.get(v[1])
                if a is not None and a.get("kind") == "enum" and 0 <= v[3] < len(a["variants"]) and a["variants"][v[3]].get("name") == v[2]:
                    dv = a["variants"][v[3]].get("discr")
                    if isinstance(dv, int):
                        return const(dv)
                return const(v[3])
            return TOP
        if k == "un":
            v = self.operand(env, rv["a"])
            if rv["op"] == "Not" and is_const(v) and v[1] in (0, 1, True, False):
                return const(0 if v[1] else 1)
            return TOP
        if k == "bin":
            a = self.operand(env, rv["a"])
            b = self.operand(env, rv["b"])
            if is_const(a) and is_const(b) and isinstance(a[1], int) and isinstance(b[1], int) and not isinstance(a[1], bool):
                opn = rv["op"]
                base = opn.replace("WithOverflow", "").replace("Unchecked", "")
                if base in ("Add", "Sub", "Mul"):
                    r = a[1] + b[1] if base == "Add" else (a[1] - b[1] if base == "Sub" else a[1] * b[1])
                    if r < 0:
                        return TOP
                    if opn.endswith("WithOverflow"):
                        return ("tuple", (const(r), const(0)))
                    return const(r)
            if is_const(a) and is_const(b) and isinstance(a[1], int) and isinstance(b[1], int):
                op = rv["op"]
                table = {"Eq": a[1] == b[1], "Ne": a[1] != b[1], "Lt": a[1] < b[1], "Le": a[1] <= b[1], "Gt": a[1] > b[1], "Ge": a[1] >= b[1]}
                if op in table:
                    return const(1 if table[op] else 0)
                if op in ("BitAnd", "BitOr") and a[1] in (0, 1) and b[1] in (0, 1):
                    return const((a[1] & b[1]) if op == "BitAnd" else (a[1] | b[1]))
            if rv["op"] == "BitAnd" and ((is_const(a) and a[1] == 0) or (is_const(b) and b[1] == 0)):
                return const(0)
            if rv["op"] == "BitOr" and ((is_const(a) and a[1] == 1) or (is_const(b) and b[1] == 1)):
                return const(1)
            return TOP
        if k == "agg":
            kind = rv.get("agg")
            if kind == "adt":
                names = [str(x) for x in (rv.get("fields") or range(len(rv["ops"])))]
                return adt(rv.get("path"), str(rv.get("variant")), rv.get("vi"), [(n, self.operand(env, o)) for n, o in zip(names, rv["ops"])])
            if kind == "tuple":
                return ("tuple", tuple(self.operand(env, o) for o in rv["ops"]))
            if kind in ("closure", "coroutine"):
                names = [str(x) for x in (rv.get("fields") or [])]
                cv = ("closure", rv.get("path"), tuple(("upvar:" + n, self.operand(env, o)) for n, o in zip(names, rv["ops"])))
                if rv.get("mono"):
                    # built inside a generic function inlined with known type arguments: its body is generic over the same
                    cv = cv + (tuple(sorted(rv["mono"].items())),)
                return cv
            if kind == "array":
                return ("list", tuple(self.operand(env, o) for o in rv["ops"]))
            return TOP
        return TOP

    def write_place(self, env, pl, v):
        if not pl["p"]:
            if v == TOP:
                env.pop(pl["l"], None)
            else:
                env[pl["l"]] = v
            return
        # a write through a reference reaches the referent; a field write updates the aggregate
        base = env.get(pl["l"], TOP)
        if pl["p"][0] == "deref" and base[0] == "ref":
            self.write_place(env, {"l": base[1], "p": [_thaw(e) for e in base[2]] + list(pl["p"][1:])}, v)
            return
        if len(pl["p"]) == 1 and isinstance(pl["p"][0], dict) and "f" in pl["p"][0] and base[0] == "adt":
            f = str(pl["p"][0]["f"])
            fields = [(k, (v if k == f else x)) for k, x in base[4]]
            if f not in [k for k, _ in fields]:
                fields.append((f, v))
            env[pl["l"]] = ("adt", base[1], base[2], base[3], tuple(fields))
            return
        if len(pl["p"]) == 1 and isinstance(pl["p"][0], dict) and "f" in pl["p"][0] and base == TOP and pl["l"] < 0:
            # a record kept for storage outside the body (`*self`): only the fields written so far are known
            env[pl["l"]] = ("adt", "?", "?", None, ((str(pl["p"][0]["f"]), v),))
            return
        env.pop(pl["l"], None)

    # ------------------------------------------------------------------ exploration
    def explore(self, start=0, env=None, stop=None):
        """Depth-first over (block, env). `stop(bb, env) -> bool`: do not continue past this block.
        Returns {block: [env snapshots…]} limited to one snapshot list per block (set of frozen envs)."""
        seen = {}
        stack = [(start, dict(env or {}))]
        n = 0
        while stack:
            bb, e = stack.pop()
            key = (bb, _freeze_env(e))
            if key in seen:
                continue
            seen[key] = True
            n += 1
            if n > self.max_states:
                raise Limit("more than %d abstract states" % self.max_states)
            blk = self.b.blocks[bb]
            e = dict(e)
            for s in blk["stmts"]:
                if s["k"] == "assign":
                    v = self.rvalue(e, s["rv"])
                    self.write_place(e, s["lhs"], v)
                elif s["k"] == "setdiscr":
                    e.pop(s["lhs"]["l"], None)
            self.visit(bb, e)
            if stop is not None and stop(bb, e):
                continue
            t = blk["term"]
            if not t:
                continue
            k = t["k"]
            if k == "switch":
                v = self.operand(e, t["op"])
                if is_const(v) and isinstance(v[1], (int, bool)):
                    iv = int(v[1])
                    # switch values are dumped as unsigned bit patterns: -1 of an i8 discriminant is 255
                    same = (lambda val: val == iv) if iv >= 0 else (lambda val: val == iv or any(val == iv + (1 << k) for k in (8, 16, 32, 64, 128)))
                    tg = [tt for val, tt in zip(t["vals"], t["targets"]) if same(val)]
                    nxt = tg[:1] if tg else [t["otherwise"]]
                else:
                    nxt = list(dict.fromkeys(list(t["targets"]) + [t["otherwise"]]))
                for y in nxt:
                    if not self.b.blocks[y]["cleanup"]:
                        stack.append((y, e))
                continue
            if k == "call":
                argv = [self.operand(e, a) for a in t["args"]]
                res = None
                self.mut_handled = False
                for h in self.hooks:
                    res = h(self, bb, t, argv, e)
                    if res is not None:
                        break
                # a callee may write through the mutable references it is given
                if not self.mut_handled:
                    for a in argv:
                        if a[0] == "ref" and a[3]:
                            self.write_place(e, {"l": a[1], "p": [_thaw(x) for x in a[2]]}, TOP)
                if res == "diverge":
                    continue
                self.write_place(e, t["dest"], res if res is not None else TOP)
                if t.get("t") is not None:
                    stack.append((t["t"], e))
                continue
            for y in self.cfg.succ[bb]:
                stack.append((y, e))
        return n

    def visit(self, bb, env):
        """overridden / assigned by the rule: called once per (block, env) after the block's statements"""
        cb = getattr(self, "on_visit", None)
        if cb:
            cb(bb, env)


def _freeze(e):
    if isinstance(e, dict):
        return tuple(sorted((k, str(v)) for k, v in e.items()))
    return e


def _thaw(e):
    if isinstance(e, tuple):
        return {k: v for k, v in e}
    return e


def _freeze_env(env):
    return tuple(sorted(env.items(), key=lambda kv: kv[0]))


# ------------------------------------------------------------------------------------------------
# common hooks
# ------------------------------------------------------------------------------------------------
IDENTITY = r"(boxed::Box::<T>::new|Deref>?::deref|AsRef<.*>>?::as_ref|Borrow<.*>>?::borrow|Clone>?::clone|ToOwned>?::to_owned|String::as_str|Into<.*>>?::into|From<.*>>?::from|ToString>?::to_string|<impl str>::as_ref|Option::<T>::as_ref|Option::<T>::as_deref|Option::<&T>::(cloned|copied)|Option::<T>::(cloned|copied))$"


def std_hooks():
    import re
    ident = re.compile(IDENTITY)

    def h(w, bb, t, argv, env):
        nm = callee_name(t)
        d = t.get("def") or ""
        if (ident.search(nm) or ident.search(d)) and argv:
            v = w.deref_val(env, argv[0])
            return v if v != TOP else None
        if re.search(r"ops::Try>?::branch$", nm) or re.search(r"ops::Try>?::branch$", d):
            v = w.deref_val(env, argv[0]) if argv else TOP
            if v[0] == "adt" and v[2] in ("Some", "Ok"):
                return adt("std::ops::ControlFlow", "Continue", 0, [("0", w.field(v, "0"))])
            if v[0] == "adt" and v[2] in ("None", "Err"):
                return adt("std::ops::ControlFlow", "Break", 1, [("0", v)])
            return None
        if re.search(r"FromResidual<.*>>?::from_residual$", nm) or re.search(r"FromResidual::from_residual$", d):
            dt = t.get("dest_ty") or ""
            if dt.startswith("std::option::Option"):
                return adt("std::option::Option", "None", 0, [])
            if dt.startswith("std::result::Result"):
                return adt("std::result::Result", "Err", 1, [("0", TOP)])
            return None
        if re.search(r"Option::<T>::(unwrap|expect)$|Result::<T, E>::(unwrap|expect)$", nm):
            v = w.deref_val(env, argv[0]) if argv else TOP
            if v[0] == "adt" and v[2] in ("Some", "Ok"):
                return w.field(v, "0")
            if v[0] == "adt":
                return "diverge"
            return None
        if re.search(r"Option::<T>::(unwrap_or_default|unwrap_or|unwrap_or_else)$", nm):
            v = w.deref_val(env, argv[0]) if argv else TOP
            if v[0] == "adt" and v[2] == "Some":
                return w.field(v, "0")
            if v[0] == "adt" and v[2] == "None" and nm.endswith("unwrap_or") and len(argv) > 1:
                return w.deref_val(env, argv[1])
            return None
        if re.search(r"cmp::Ord>?::cmp$|cmp::impls::<impl .*Ord for \w+>::(cmp|partial_cmp)$|cmp::PartialOrd>?::partial_cmp$", nm) and len(argv) == 2:
            # comparison of two known integers: the Ordering (discriminants -1 / 0 / 1)
            a, b = w.deref_val(env, argv[0]), w.deref_val(env, argv[1])
            if is_const(a) and is_const(b) and isinstance(a[1], int) and isinstance(b[1], int) and not isinstance(a[1], bool) and not isinstance(b[1], bool):
                o = ("adt", "std::cmp::Ordering", "Less", -1, ()) if a[1] < b[1] else ("adt", "std::cmp::Ordering", "Equal", 0, ()) if a[1] == b[1] else ("adt", "std::cmp::Ordering", "Greater", 1, ())
                return adt("std::option::Option", "Some", 1, [("0", o)]) if nm.endswith("partial_cmp") else o
            return None
        if re.search(r"cmp::Ordering::(is_lt|is_le|is_gt|is_ge|is_eq|is_ne|reverse)$", nm) and argv:
            v = w.deref_val(env, argv[0])
            if v[0] == "adt" and v[1] == "std::cmp::Ordering" and isinstance(v[3], int):
                d = v[3]
                k = nm.rsplit("::", 1)[1]
                if k == "reverse":
                    return ("adt", "std::cmp::Ordering", {-1: "Greater", 0: "Equal", 1: "Less"}[d], -d, ())
                return const(1 if {"is_lt": d < 0, "is_le": d <= 0, "is_gt": d > 0, "is_ge": d >= 0, "is_eq": d == 0, "is_ne": d != 0}[k] else 0)
            return None
        m_ri = re.search(r"ops::RangeInclusive::<Idx>::(start|end|new|into_inner)$", nm)
        if m_ri and argv:
            if m_ri.group(1) == "new" and len(argv) == 2:
                return adt("std::ops::RangeInclusive", "RangeInclusive", 0, [("start", w.deref_val(env, argv[0])), ("end", w.deref_val(env, argv[1]))])
            v = w.deref_val(env, argv[0])
            if v[0] == "adt" and str(v[1]).endswith("RangeInclusive"):
                if m_ri.group(1) == "into_inner":
                    return ("tuple", (w.field(v, "start"), w.field(v, "end")))
                return w.field(v, m_ri.group(1))
            return None
        # a tuple-variant constructor used as a function (`.map(Self::Pattern)`)
        if "::" in d and (t.get("res") is None or w.ctx.facts.body(t.get("res")) is None):
            parent, _, last = d.rpartition("::")
            a = w.adts.get(parent)
            if a is not None and a.get("kind") == "enum":
                for vv in a["variants"]:
                    if vv["name"] == last and len(vv.get("fields") or []) == len(argv):
                        return ("adt", parent, last, vv["vi"], tuple((str(i), x) for i, x in enumerate(argv)))
        if re.search(r"<impl str>::is_empty$|string::String::is_empty$", nm):
            v = w.deref_val(env, argv[0]) if argv else TOP
            if is_const(v) and isinstance(v[1], str):
                return const(1 if v[1] == "" else 0)
            return None
        if re.search(r"Option::<T>::ok_or(_else)?$", nm):
            v = w.deref_val(env, argv[0]) if argv else TOP
            if v[0] == "adt" and v[2] == "Some":
                return adt("std::result::Result", "Ok", 0, [("0", w.field(v, "0"))])
            if v[0] == "adt" and v[2] == "None":
                return adt("std::result::Result", "Err", 1, [("0", TOP)])
            return None
        if re.search(r"Option::<T>::(replace|take|insert)$|mem::(replace|take)$", nm) and argv and argv[0][0] == "ref":
            r0 = argv[0]
            cell = {"l": r0[1], "p": [_thaw(x) for x in r0[2]]}
            old = w.read_place(env, cell)
            if nm.endswith("::take"):
                new = adt("std::option::Option", "None", 0, []) if "Option" in nm else TOP
            elif re.search(r"Option::<T>::(replace|insert)$", nm):
                new = adt("std::option::Option", "Some", 1, [("0", argv[1] if len(argv) > 1 else TOP)])
            else:
                new = argv[1] if len(argv) > 1 else TOP
            w.write_place(env, cell, new)
            w.mut_handled = True
            if nm.endswith("::insert"):
                return sym("inserted")
            return old if old != TOP else sym("unknown-old")
        if re.search(r"Option::<T>::(is_some|is_none)$|Result::<T, E>::(is_ok|is_err)$", nm):
            v = w.deref_val(env, argv[0]) if argv else TOP
            if v[0] == "adt":
                pos = v[2] in ("Some", "Ok")
                want = nm.endswith("is_some") or nm.endswith("is_ok")
                return const(1 if pos == want else 0)
            return None
        if re.search(r"cmp::PartialEq.*>::(eq|ne)$", nm) or re.search(r"cmp::PartialEq::(eq|ne)$", d):
            a = w.deref_val(env, argv[0]) if len(argv) > 0 else TOP
            b = w.deref_val(env, argv[1]) if len(argv) > 1 else TOP
            r = None
            if a[0] == "adt" and b[0] == "adt" and not a[4] and not b[4]:
                r = a[2] == b[2]
            elif is_const(a) and is_const(b):
                r = a[1] == b[1]
            if r is None:
                return None
            if nm.endswith("::ne") or d.endswith("::ne"):
                r = not r
            return const(1 if r else 0)
        return None
    return h
