"""Shared context for the rules: fact base + analyses + role lookup + result bookkeeping."""
import hashlib
import json
import os
import re
import time

from . import facts as factsmod
from .callgraph import CallGraph
from .cfg import cfg_of
from .expr import Expr, render
from .prov import Prov
from .resultflow import ResultFlow

VERIF = os.path.dirname(os.path.dirname(os.path.abspath(__file__)))


class Out:
    """Outcome of one property check."""

    def __init__(self, prop):
        self.prop = prop
        self.violations = []     # {rule, key, where, msg}
        self.rules = {}          # rule -> {found, floor, samples, note, exhaustive}
        self.notes = []
        self.exceptions_used = []
        self.t0 = time.time()

    def inst(self, rule, found, floor, samples=None, note=None, exhaustive=None):
        r = self.rules.setdefault(rule, {"found": 0, "floor": 0, "samples": []})
        r["found"] = found
        r["floor"] = floor
        if samples:
            r["samples"] = [str(s) for s in samples][:6]
        if note:
            r["note"] = note
        if exhaustive is not None:
            r["exhaustive"] = exhaustive
        if found < floor:
            self.viol(rule, "%s|anchor-missing" % rule, "-",
                      "rule %s found %d instance(s), floor is %d: the anchor of this rule is missing or was restructured; the check can no longer decide it" % (rule, found, floor))

    def viol(self, rule, key, where, msg):
        for v in self.violations:
            if v["key"] == key:
                return
        self.violations.append({"rule": rule, "key": key, "where": where, "msg": msg})

    def note(self, s):
        self.notes.append(s)

    def exception(self, key, reason):
        self.exceptions_used.append({"key": key, "reason": reason})

    # -- a rule may be decided on any faithful reading of the code (as written / normalised view): it is
    #    run on each in a trial outcome, and the first reading on which it holds is adopted
    def trial(self):
        return Out(self.prop)

    def adopt(self, other):
        for v in other.violations:
            self.viol(v["rule"], v["key"], v["where"], v["msg"])
        for r, d in other.rules.items():
            self.rules[r] = d
        self.notes.extend(other.notes)
        self.exceptions_used.extend(other.exceptions_used)


def on_any_view(out, views, fn):
    """fn(view, trial_out). Adopts the outcome of the first view on which fn raises no violation;
    if it fails on all of them, the outcome on the first view (the code as written) is reported."""
    trials = []
    for v in views:
        if v is None:
            continue
        tr = out.trial()
        fn(v, tr)
        trials.append(tr)
        if not tr.violations:
            out.adopt(tr)
            return tr
    if trials:
        # it holds on no reading: report the first reading on which something definite was found (not
        # merely "cannot be decided on this reading"), else the first one
        undecided = re.compile(r"\|(anchor-missing|anchor|no-block-loop|shape|limit|undecided)$")
        for tr in trials:
            if any(not undecided.search(v["key"]) for v in tr.violations):
                out.adopt(tr)
                return tr
        out.adopt(trials[0])
        return trials[0]
    return None



DOMAIN_METHODS = {
    "blockwatch::blocks::Block": {"partial_cmp", "cmp", "new", "content_intersects_with_any", "start_tag_intersects_with_any",
                                  "intersects_with_line_change_inclusive", "intersects_with_line_change", "name", "name_display",
                                  "content", "content_line_position", "severity"},
    "blockwatch::blocks::FileBlocks": {"is_empty", "to_serializable_report"},
    "blockwatch::blocks::FileSystemImpl": {"new", "walk", "read_to_string"},
    "blockwatch::blocks::PathCheckerImpl": {"new", "should_allow", "should_ignore"},
    "blockwatch::validators::ValidationContext": {"new", "to_serializable_report"},
    "blockwatch::Position": {"new"},
    "blockwatch::validators::Violation": {"new", "as_simple_diagnostic"},
}


class Ctx:
    def __init__(self, prefix=None):
        self.facts = factsmod.load(prefix)
        self.cg = CallGraph(self.facts)
        self.prov = Prov(self.facts)
        self.rf = ResultFlow(self.facts)
        roots = ["bwbin::main"]
        # impls of external traits on local types can be invoked by the libraries that main calls
        for imp in self.facts.impls:
            if not imp["trait"].startswith("blockwatch::"):
                for m in imp["methods"]:
                    b = self.facts.body(m["def"])
                    if b is not None:
                        roots.append(b.id)
        self.roots = roots
        self.reach = self.cg.reachable(roots)
        self._roles = None
        self._exprs = {}
        self.view_fallbacks = []

    # ------------------------------------------------------------------ helpers
    def expr(self, body):
        e = self._exprs.get(body.cache_id)
        if e is None:
            e = Expr(self.facts, body)
            self._exprs[body.cache_id] = e
        return e

    def inl(self, body, skip=None, tag=None, sugar=False, subst=None):
        """The body with crate-local plain function calls virtually inlined (DESIGN §3.2); with
        sugar=True combinators and iterator pipelines are expanded too (engine.desugar)."""
        from .inline import inlined
        # the view is an aid: if building it trips over an unforeseen MIR shape, fall back to the
        # plainer view (the rules then see the function as written) instead of failing the check
        try:
            return inlined(self.facts, body, skip=skip, tag=tag, sugar=sugar, subst=subst)
        except Exception as e:          # noqa: BLE001 - recorded, not hidden
            self.view_fallbacks.append("%s: %s view failed (%s: %s)" % (body.id, "sugar" if sugar else "inline", type(e).__name__, e))
            if sugar:
                try:
                    return inlined(self.facts, body, skip=skip, tag=(tag or "x") + "-nosugar", sugar=False, subst=subst)
                except Exception:       # noqa: BLE001
                    pass
            return body

    def reachable_bodies(self, hand_written=True):
        out = []
        for bid in sorted(self.reach):
            b = self.facts.bodies[bid]
            if hand_written and b.is_derive():
                continue
            out.append(b)
        return out

    def region(self, body, crate_only=True):
        """Bodies reachable from `body` through the call graph (itself included)."""
        ids = self.cg.reachable([body.id])
        return [self.facts.bodies[i] for i in sorted(ids)]

    def find_calls(self, bodies, regex):
        out = []
        for b in bodies:
            for bi, t in b.calls():
                if factsmod.callee_matches(t, regex):
                    out.append((b, bi, t))
        return out

    def where(self, body, span=None):
        sp = span or body.span
        return "%s:%s (%s)" % (sp.get("file"), sp.get("line"), body.id)

    def fn_key(self, body):
        """Stable identifier of a body for violation keys (no line numbers)."""
        return body.id

    # ------------------------------------------------------------------ roles
    def roles(self):
        if self._roles is None:
            self._roles = self._find_roles()
        return self._roles

    def _find_roles(self):
        f = self.facts
        roles = {"validators": {}, "problems": []}
        # --- detector factory table: const whose promoted body builds an array of (&str, fn ptr)
        table = None
        for b in f.bodies.values():
            if b.promoted is None or b.kind != "Const":
                continue
            entries = []
            closure_of = {}
            ptr_of = {}
            fnargs = {}
            args_of = {}
            entry_args = {}
            for i, j, s in b.assigns():
                rv = s["rv"]
                if rv["k"] == "agg" and rv.get("agg") == "closure":
                    closure_of[s["lhs"]["l"]] = rv["path"]
                elif rv["k"] == "cast" and "ClosureFnPointer" in rv["kind"]:
                    pl = rv["op"].get("m") or rv["op"].get("c")
                    if pl and pl["l"] in closure_of:
                        ptr_of[s["lhs"]["l"]] = closure_of[pl["l"]]
                    elif rv.get("from_adt"):
                        ptr_of[s["lhs"]["l"]] = rv["from_adt"]
                elif rv["k"] == "cast" and "ReifyFnPointer" in rv["kind"]:
                    k = rv["op"].get("k")
                    if k and "fn" in k:
                        ptr_of[s["lhs"]["l"]] = k["fn"]
                        fnargs[k["fn"] + "@" + str(s["lhs"]["l"])] = k.get("fn_args") or ""
                        args_of[s["lhs"]["l"]] = k.get("fn_args") or ""
                elif rv["k"] == "agg" and rv.get("agg") == "tuple" and len(rv["ops"]) == 2:
                    k0 = rv["ops"][0].get("k")
                    p1 = rv["ops"][1].get("m") or rv["ops"][1].get("c")
                    if k0 and f.const_str(k0) is not None and p1 and p1["l"] in ptr_of:
                        entries.append((f.const_str(k0), ptr_of[p1["l"]]))
                        entry_args[f.const_str(k0)] = args_of.get(p1["l"], "")
            if entries and any("ValidatorDetector" in (l["ty"] or "") for l in b.locals):
                table = (b, entries)
                table_args = entry_args
                break
        if table is None:
            roles["problems"].append("detector factory table not found")
            return roles
        roles["factory_table_body"] = table[0].id
        roles["factory_const"] = table[0].defpath
        # a generic factory used with explicit type arguments (`boxed::<KeepSortedDetector>`)
        fsubst = {}
        for name, factory in table[1]:
            fb0 = f.body(factory)
            m_a = re.search(r"::<(.*)>$", table_args.get(name, "") or "")
            gen = (fb0.d.get("generics") or []) if fb0 is not None else []
            if m_a and gen:
                parts, depth, cur = [], 0, ""
                for ch in m_a.group(1):
                    if ch == "," and depth == 0:
                        parts.append(cur.strip())
                        cur = ""
                        continue
                    depth += ch in "<([" 
                    depth -= ch in ">)]"
                    cur += ch
                parts.append(cur.strip())
                if len(parts) == len(gen):
                    fsubst[name] = dict(zip(gen, parts))
        for name, factory in table[1]:
            info = {"name": name, "factory": factory, "problems": []}
            fb = f.body(factory)
            det_adt = None
            if fb is not None:
                for i, j, s in fb.assigns():
                    rv = s["rv"]
                    if rv["k"] == "cast" and "Unsize" in rv["kind"] and rv.get("from_box_adt"):
                        det_adt = rv["from_box_adt"]
            if det_adt in (fsubst.get(name) or {}):
                det_adt = fsubst[name][det_adt]
            info["detector_adt"] = det_adt
            detect = f.impl_method(r"ValidatorDetector$", det_adt, "detect") if det_adt else None
            info["detect"] = detect.id if detect else None
            val_adts = []
            kind = None
            if detect is not None:
                for db in f.with_descendants(detect):
                    for i, j, s in db.assigns():
                        rv = s["rv"]
                        if rv["k"] == "cast" and "Unsize" in rv["kind"] and rv.get("from_box_adt"):
                            tgt = rv["ty"]
                            if "ValidatorSync" in tgt:
                                kind = "sync"
                                val_adts.append(rv["from_box_adt"])
                            elif "ValidatorAsync" in tgt:
                                kind = "async"
                                val_adts.append(rv["from_box_adt"])
            info["kind"] = kind
            info["validator_adts"] = sorted(set(val_adts))
            validate = None
            if val_adts:
                trait = r"ValidatorSync$" if kind == "sync" else r"ValidatorAsync$"
                validate = f.impl_method(trait, val_adts[0], "validate")
            info["validate"] = validate.id if validate else None
            if validate is None:
                # the shape reading failed (a data-driven detector, a generic factory, a blanket impl): walk the code
                try:
                    m = self._roles_by_model(name, factory, fsubst.get(name))
                except Exception as e:      # noqa: BLE001
                    m = None
                    info["problems"].append("model: %s: %s" % (type(e).__name__, e))
                if m and m.get("validate"):
                    info.update(m)
                    validate = True
            if not validate:
                info["problems"].append("validate impl not found")
            roles["validators"][name] = info
        return roles

    def _roles_by_model(self, name, factory, subst):
        """Who detects and who validates `name`, found by walking the code instead of reading its shape: the
        factory is walked (helpers and `const fn` initialisers inlined) to the detector *value* it boxes; that
        value's `detect` - the impl for its type, or a blanket impl instantiated for it - is walked on a block on
        which every attribute is present, which yields the validator it creates (`ValidatorType::Sync / Async`
        of a boxed V) and the attribute keys it asked for. Returns a dict of role fields, or None."""
        from . import casewalk as CW
        from . import listmodel as LM
        from . import strmodel as SM
        f = self.facts
        fb = f.body(factory)
        if fb is None:
            return None
        std, lm, sm = CW.std_hooks(), LM.hooks(), SM.hooks()
        asked = []

        def hook(w, bb, t, argv, env):
            nm = factsmod.callee_name(t)
            if re.search(r"HashMap::<K, V, S, A>::(get|contains_key)$", nm) and len(argv) > 1:
                k = w.deref_val(env, argv[1])
                if CW.is_const(k) and isinstance(k[1], str):
                    asked.append(k[1])
                    if nm.endswith("contains_key"):
                        return CW.const(1)
                    return CW.adt("std::option::Option", "Some", 1, [("0", CW.const("x"))])
                return None
            if re.search(r"default::Default>?::default$", nm):
                st = t.get("self_ty") or ""
                ad = f.adts.get(st)
                if ad is not None and len(ad.get("variants", [])) == 1 and not ad["variants"][0].get("fields"):
                    return CW.adt(st, ad["variants"][0].get("name"), 0, [])
            for hk in (sm, lm, std):
                r_ = hk(w, bb, t, argv, env)
                if r_ is not None:
                    return r_
            if os.environ.get("BW_DEBUG_MODEL"):
                print("roles model: unknown call", nm, [str(a)[:70] for a in argv])
            return None

        def walk_returns(view, env):
            rets = set()
            w = CW.Walk(self, view, [hook], max_states=4000)

            def on_visit(bb, e):
                tm = view.blocks[bb]["term"]
                if tm and tm["k"] == "return":
                    rets.add(w.deref_val(e, e.get(0, CW.TOP)))
            w.on_visit = on_visit
            try:
                w.explore(0, dict(env))
            except CW.Limit:
                return set()
            return rets
        fv = self.inl(fb, skip=lambda cb: False, tag="roles-model", sugar=True, subst=subst or None)
        rets = walk_returns(fv, {})
        if len(rets) != 1:
            return None
        dv = next(iter(rets))
        if dv[0] == "sym" and dv[1] == "boxed":
            det_adt, dself = dv[2], None
        elif dv[0] == "adt":
            det_adt, dself = dv[1], dv
        else:
            return None
        detect = f.impl_method(r"ValidatorDetector$", det_adt, "detect")
        dsub = None
        if detect is None:
            # a blanket impl (`impl<D: Small> ValidatorDetector for D`), instantiated for this type
            for imp in f.impls_of_trait(r"validators::ValidatorDetector$"):
                st = imp.get("self_ty") or ""
                if re.match(r"^[A-Z]\w*$", st) and not imp.get("self_adt"):
                    for m in imp.get("methods", []):
                        if m.get("name") == "detect" and f.body(m.get("def") or "") is not None:
                            detect, dsub = f.body(m["def"]), {st: det_adt}
        if detect is None:
            return None
        dview = self.inl(detect, skip=lambda cb: False, tag="roles-model", sugar=True, subst=dsub)
        bwc = f.adts.get("blockwatch::blocks::BlockWithContext") or {}
        flags = [x["name"] for vv in bwc.get("variants", [])[:1] for x in vv.get("fields", []) if x["ty"] == "bool"]
        block = CW.adt("blockwatch::blocks::Block", "Block", 0, [("attributes", CW.sym("ATTRS"))])
        env = {-9: CW.adt("blockwatch::blocks::BlockWithContext", "BlockWithContext", 0, [("block", block)] + [(x, CW.const(1)) for x in flags]), 2: ("ref", -9, (), False)}
        if dself is not None:
            env[-8] = dself
            env[1] = ("ref", -8, (), False)
        del asked[:]
        rets = walk_returns(dview, env)
        if os.environ.get("BW_DEBUG_MODEL"):
            print("roles model:", name, "detect returns", [str(x)[:300] for x in rets], "asked", asked)
        found = set()
        for r0 in rets:
            if r0[0] == "adt" and r0[2] == "Ok":
                p0 = r0
                for _ in range(2):
                    p0 = next((x for k, x in p0[4] if k == "0"), CW.TOP)
                    if p0[0] == "ref":
                        p0 = CW.TOP
                # Ok(Some(ValidatorType::Kind(boxed V)))
                opt = next((x for k, x in r0[4] if k == "0"), CW.TOP)
                if opt[0] == "adt" and opt[2] == "Some":
                    vt = next((x for k, x in opt[4] if k == "0"), CW.TOP)
                    if vt[0] == "adt" and vt[2] in ("Sync", "Async"):
                        pv = next((x for k, x in vt[4] if k == "0"), CW.TOP)
                        vadt = pv[2] if (pv[0] == "sym" and pv[1] == "boxed") else pv[1] if pv[0] == "adt" else None
                        if vadt:
                            found.add((vt[2].lower(), vadt))
        if len(found) != 1:
            return None
        kind, vadt = next(iter(found))
        validate = f.impl_method(r"ValidatorSync$" if kind == "sync" else r"ValidatorAsync$", vadt, "validate")
        return {"detector_adt": det_adt, "detect": detect.id, "detect_self": dself, "detect_subst": dsub, "detect_keys": sorted(set(asked)),
                "kind": kind, "validator_adts": [vadt], "validate": validate.id if validate else None, "by_model": True}

    def validator(self, name):
        return self.roles()["validators"].get(name)

    def validator_bodies(self, name):
        """validate body + nested closures/async blocks + crate-local callees (transitively)."""
        info = self.validator(name)
        if not info or not info.get("validate"):
            return []
        vb = self.facts.bodies[info["validate"]]
        return self.region(vb)

    @staticmethod
    def domain_api(cb):
        """Functions that rules use as anchors and that therefore stay calls under virtual inlining:
        the methods of the block model and the diagnostic constructors."""
        # (the methods rules anchor on, per type: a method added to one of these types later is an ordinary
        # helper and is looked through like any other)
        names = DOMAIN_METHODS.get(cb.impl_self_adt or "")
        if names is not None and cb.id.rsplit("::", 1)[-1] in names:
            return True
        r = cb.local_ty(0)
        # diagnostic constructors (`create_violation`): they build the Violation themselves. A per-block
        # helper that merely passes one on (`validate_block -> Result<Option<Violation>>`) is looked through.
        return "blockwatch::validators::Violation" in r and any(factsmod.callee_matches(t, r"validators::Violation::new$") for _, t in cb.calls())

    def views(self, bodies):
        """The given bodies plus, for each plain function among them, its inlined + desugared view
        (helpers looked through, combinators and pipelines expanded): a rule that looks for a guard or
        a branch tries both, so that it does not depend on how the step is written."""
        out = []
        for b in bodies:
            out.append(b)
            if b.promoted is None and b.kind in ("Fn", "AssocFn") and not b.coroutine and not getattr(b, "is_inlined", False):
                try:
                    out.append(self.inl(b, skip=Ctx.domain_api, tag="domain", sugar=True))
                except Exception:
                    pass
        return out

    def main_view(self):
        """`main` with the binary crate's own thin helpers inlined (reading the diff, printing the
        list, ...), so that rules about main's order of steps do not depend on how main is split up.
        The report function (the one that calls process::exit) and the repository-root search stay
        calls: rules anchor on them."""
        main = self.facts.bodies.get("bwbin::main")
        if main is None:
            return None

        def keep(cb):
            if not cb.id.startswith("bwbin::"):
                return True
            if cb.id == "bwbin::repository_root_path":
                return True
            # the report function: the one that is handed the diagnostics map (where `process::exit` is called -
            # there or by its caller on its verdict - is for C11.exit to decide)
            if any("std::collections::HashMap<std::path::PathBuf, std::vec::Vec<blockwatch::validators::Violation>>" in cb.local_ty(i) for i in range(1, cb.argc + 1)):
                return True
            return any(factsmod.callee_matches(t, r"^std::process::(exit|abort)$") for _, t in cb.calls()) and \
                not any(factsmod.callee_matches(t, r"validators::(detect_validators|run)$") for _, t in cb.calls())
        return self.inl(main, skip=keep, tag="main")

    def validate_body(self, name, inline=False, skip=None, tag=None, sugar=False):
        """The validator's `validate` body; with inline=True its crate-local helpers are virtually
        inlined, so that rules see the same code whether or not a step was extracted into a function."""
        info = self.validator(name)
        if not info or not info.get("validate"):
            return None
        b = self.facts.bodies[info["validate"]]
        if inline and not b.coroutine:
            if skip is None:
                return self.inl(b, skip=Ctx.domain_api, tag="domain", sugar=sugar)
            return self.inl(b, skip=lambda cb: Ctx.domain_api(cb) or skip(cb), tag=tag or "custom", sugar=sugar)
        return b


# ---------------------------------------------------------------------------------------------
# known findings
# ---------------------------------------------------------------------------------------------
def load_known_findings(path=os.path.join(VERIF, "known_findings.txt")):
    findings = []
    fixed = []
    if not os.path.exists(path):
        return findings, fixed
    for line in open(path):
        line = line.rstrip("\n")
        if line.startswith("finding:"):
            m = re.match(r"finding:\s+property=(\S+)\s+key=(\S+)\s+(.*)$", line)
            if m:
                findings.append({"property": m.group(1), "key": m.group(2), "what": m.group(3)})
        elif line.startswith("fixed:"):
            m = re.match(r"fixed:\s+property=(\S+)\s+(\S+)\s+(.*)$", line)
            if m:
                fixed.append({"property": m.group(1), "commit": m.group(2), "what": m.group(3)})
    return findings, fixed


def key_hash(key):
    return hashlib.sha1(key.encode()).hexdigest()[:10]
