"""A1 — call graph over the fact base.

Edges: resolved callee of every Call; a trait method that could not be resolved (dyn receiver or
generic self) -> every local impl of that trait method; a closure / coroutine value created in a
body -> that closure body (it may be invoked by whoever receives it); a function item or closure
mentioned as a constant operand (fn pointers, `map(AsRef::as_ref)`, the detector factory table) ->
that body; a body -> the promoted constants and named constants it mentions.
"""
import re


class CallGraph:
    def __init__(self, facts):
        self.facts = facts
        self.edges = {}
        self.dispatch_edges = {}   # edges that come from unresolved trait dispatch ("may" edges)
        self.unresolved = []
        # trait path -> method name -> [body defpaths]
        self.trait_impls = {}
        for imp in facts.impls:
            for m in imp["methods"]:
                self.trait_impls.setdefault(imp["trait"], {}).setdefault(m["name"], []).append(m["def"])
        for b in facts.bodies.values():
            self.edges[b.id] = self._edges_of(b)

    def _body_id(self, defpath):
        b = self.facts.body(defpath)
        return b.id if b is not None else None

    def _operand_targets(self, op, out):
        if not isinstance(op, dict):
            return
        k = op.get("k")
        if isinstance(k, dict):
            for key in ("fn", "closure", "uneval"):
                v = k.get(key)
                if v:
                    if key == "uneval" and "promoted" in k:
                        pid = "%s::{promoted#%d}" % (v, k["promoted"])
                        if pid in self.facts.bodies:
                            out.add(pid)
                        continue
                    bid = self._body_id(v)
                    if bid:
                        out.add(bid)

    def _edges_of(self, b):
        out = set()
        f = self.facts
        # promoteds of this def
        if b.promoted is None:
            for p in f.promoteds_of(b.defpath):
                out.add(p.id)
        for i, j, s in b.assigns():
            rv = s["rv"]
            k = rv["k"]
            if k == "agg":
                if rv.get("agg") in ("closure", "coroutine", "coroutine_closure"):
                    bid = self._body_id(rv["path"])
                    if bid:
                        out.add(bid)
                for op in rv["ops"]:
                    self._operand_targets(op, out)
            elif k in ("use", "cast", "repeat"):
                self._operand_targets(rv["op"], out)
                if k == "cast" and "ClosureFnPointer" in rv.get("kind", "") or k == "cast" and "ReifyFnPointer" in rv.get("kind", ""):
                    adt = rv.get("from_adt")
                    if adt:
                        bid = self._body_id(adt)
                        if bid:
                            out.add(bid)
            elif k == "bin":
                self._operand_targets(rv["a"], out)
                self._operand_targets(rv["b"], out)
        for i, t in b.calls():
            for a in t["args"]:
                self._operand_targets(a, out)
            res = t.get("res")
            d = t.get("def")
            target = None
            if res and not t.get("virtual"):
                target = self._body_id(res)
                if target is None:
                    # resolved to a definition outside the crate: no local edge
                    continue
            if target is None and d:
                target = self._body_id(d)
            if target is not None:
                out.add(target)
                continue
            tr = t.get("trait")
            if tr and tr in self.trait_impls:
                name = t.get("name")
                cands = self.trait_impls[tr].get(name, [])
                for c in cands:
                    bid = self._body_id(c)
                    if bid:
                        out.add(bid)
                        self.dispatch_edges.setdefault(b.id, set()).add(bid)
                if not cands:
                    self.unresolved.append((b.id, d))
            elif "indirect" in t:
                self.unresolved.append((b.id, "<indirect %s>" % t.get("indirect_ty")))
        return out

    def _is_trait_decl(self, d, target):
        # a trait method with a default body resolved to itself is still a real target
        return False

    def reachable(self, roots):
        seen = set()
        stack = [r for r in roots if r in self.edges]
        seen.update(stack)
        while stack:
            x = stack.pop()
            for y in self.edges.get(x, ()):
                if y not in seen:
                    seen.add(y)
                    stack.append(y)
        return seen

    def cycles(self, within):
        """Return one cycle (list of ids) among `within`, or None."""
        color = {}
        path = []

        def dfs(x):
            color[x] = 1
            path.append(x)
            for y in self.edges.get(x, ()):
                if y not in within:
                    continue
                if y in self.dispatch_edges.get(x, ()):
                    # `<I as Trait>::m` on a generic parameter inside an impl (or an inherent helper
                    # method) of a type that implements the same trait: the parameter cannot be
                    # instantiated with the wrapping type itself (that would be an infinite type)
                    bx, by = self.facts.bodies.get(x), self.facts.bodies.get(y)
                    if y == x or (bx is not None and by is not None and bx.impl_self_adt and bx.impl_self_adt == by.impl_self_adt):
                        continue
                if color.get(y) == 1:
                    return path[path.index(y):] + [y]
                if y not in color:
                    r = dfs(y)
                    if r:
                        return r
            path.pop()
            color[x] = 2
            return None

        import sys
        sys.setrecursionlimit(10000)
        for x in sorted(within):
            if x not in color:
                r = dfs(x)
                if r:
                    return r
        return None
