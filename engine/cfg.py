"""CFG kit over one MIR body: real-edge successors, dominators, post-dominators, loops,
reachability, control dependence, bounded path enumeration.

"Real" edges: unwind edges, cleanup blocks and the imaginary target of FalseEdge are ignored;
a Yield continues at its resume target (the drop edge is not a normal exit).
"""


class CFG:
    def __init__(self, body):
        self.body = body
        n = len(body.blocks)
        self.n = n
        self.succ = [[] for _ in range(n)]
        self.pred = [[] for _ in range(n)]
        self.exits = []      # blocks ending in return
        self.diverge = []    # blocks with no real successor that are not return (panic, unreachable)
        for i, b in enumerate(body.blocks):
            if b["cleanup"]:
                continue
            t = b["term"]
            if not t:
                continue
            k = t["k"]
            s = []
            if k in ("goto", "drop", "assert", "falseedge", "falseunwind", "yield"):
                s = [t["t"]]
            elif k == "switch":
                s = list(t["targets"]) + [t["otherwise"]]
            elif k == "call":
                if t["t"] is not None:
                    s = [t["t"]]
            elif k == "return":
                self.exits.append(i)
            # unreachable / resume / terminate: no successors
            seen = []
            for x in s:
                if x not in seen and not body.blocks[x]["cleanup"]:
                    seen.append(x)
            self.succ[i] = seen
            if not seen and k != "return":
                self.diverge.append(i)
        for i in range(n):
            for x in self.succ[i]:
                self.pred[x].append(i)
        self.reachable = self._reach_from(0)
        self._dom = None
        self._pdom = None
        self._loops = None

    # ------------------------------------------------------------------ reachability
    def _reach_from(self, start, avoid=()):
        avoid = set(avoid)
        seen = set()
        if start in avoid:
            return seen
        stack = [start]
        seen.add(start)
        while stack:
            x = stack.pop()
            for y in self.succ[x]:
                if y not in seen and y not in avoid:
                    seen.add(y)
                    stack.append(y)
        return seen

    def reach(self, start, avoid=()):
        """Blocks reachable from `start` (inclusive) without entering a block in `avoid`."""
        return self._reach_from(start, avoid)

    def reach_strict(self, start, avoid=()):
        """Blocks reachable from `start` by at least one edge."""
        out = set()
        for s in self.succ[start]:
            out |= self._reach_from(s, avoid)
        return out

    def can_reach(self, a, b, avoid=()):
        return b in self._reach_from(a, avoid)

    # ------------------------------------------------------------------ dominators
    def _compute_dom(self, succ, pred, roots, nodes):
        # iterative set-based dominators (bodies are small)
        dom = {}
        allnodes = set(nodes)
        for x in nodes:
            dom[x] = set(allnodes)
        for r in roots:
            dom[r] = {r}
        changed = True
        order = list(nodes)
        while changed:
            changed = False
            for x in order:
                if x in roots:
                    continue
                ps = [p for p in pred[x] if p in allnodes]
                if not ps:
                    new = {x}
                else:
                    new = set(dom[ps[0]])
                    for p in ps[1:]:
                        new &= dom[p]
                    new.add(x)
                if new != dom[x]:
                    dom[x] = new
                    changed = True
        return dom

    def dom(self):
        if self._dom is None:
            nodes = sorted(self.reachable)
            self._dom = self._compute_dom(self.succ, self.pred, {0}, nodes)
        return self._dom

    def dominates(self, a, b):
        """a dominates b (every path from entry to b passes through a)."""
        d = self.dom()
        return b in d and a in d[b]

    def pdom(self):
        """Post-dominators w.r.t. a virtual exit joined to every return and every diverging block."""
        if self._pdom is None:
            EXIT = -1
            nodes = sorted(self.reachable) + [EXIT]
            rsucc = {x: [] for x in nodes}   # reversed graph: succ = preds
            rpred = {x: [] for x in nodes}
            for x in self.reachable:
                outs = [y for y in self.succ[x] if y in self.reachable]
                if not outs:
                    outs = [EXIT]
                for y in outs:
                    rsucc[y].append(x)
                    rpred[x].append(y)
            self._pdom = self._compute_dom(rsucc, rpred, {EXIT}, nodes)
        return self._pdom

    def postdominates(self, a, b):
        """a post-dominates b (every path from b to an exit passes through a)."""
        p = self.pdom()
        return b in p and a in p[b]

    # ------------------------------------------------------------------ loops
    def back_edges(self):
        out = []
        for x in self.reachable:
            for y in self.succ[x]:
                if self.dominates(y, x):
                    out.append((x, y))
        return out

    def loops(self):
        """Natural loops: header -> set(blocks). Loops sharing a header are merged."""
        if self._loops is None:
            loops = {}
            for (x, h) in self.back_edges():
                body = {h, x}
                stack = [x]
                while stack:
                    z = stack.pop()
                    if z == h:
                        continue
                    for p in self.pred[z]:
                        if p not in body and p in self.reachable:
                            body.add(p)
                            stack.append(p)
                loops.setdefault(h, set()).update(body)
            self._loops = loops
        return self._loops

    def sccs(self):
        """Non-trivial strongly connected components (any cycle, also irreducible ones)."""
        index = {}
        low = {}
        onstack = set()
        stack = []
        out = []
        counter = [0]
        import sys
        sys.setrecursionlimit(10000)

        def strong(v):
            index[v] = low[v] = counter[0]
            counter[0] += 1
            stack.append(v)
            onstack.add(v)
            for w in self.succ[v]:
                if w not in index:
                    strong(w)
                    low[v] = min(low[v], low[w])
                elif w in onstack:
                    low[v] = min(low[v], index[w])
            if low[v] == index[v]:
                comp = []
                while True:
                    w = stack.pop()
                    onstack.discard(w)
                    comp.append(w)
                    if w == v:
                        break
                if len(comp) > 1 or v in self.succ[v]:
                    out.append(set(comp))

        for v in sorted(self.reachable):
            if v not in index:
                strong(v)
        return out

    def innermost_loop(self, bb):
        best = None
        for h, blocks in self.loops().items():
            if bb in blocks and (best is None or len(blocks) < len(self.loops()[best])):
                best = h
        return best

    def loops_containing(self, bb):
        return [h for h, blocks in self.loops().items() if bb in blocks]

    # ------------------------------------------------------------------ control dependence
    def control_deps(self, bb):
        """Set of (branch_block, successor) pairs that bb is control-dependent on:
        bb post-dominates `successor` (or is it) but does not strictly post-dominate branch_block."""
        out = set()
        for x in self.reachable:
            if len(self.succ[x]) < 2:
                continue
            for s in self.succ[x]:
                if (s == bb or self.postdominates(bb, s)) and not (x != bb and self.postdominates(bb, x)):
                    out.add((x, s))
        return out

    # ------------------------------------------------------------------ paths
    def paths(self, start, stop_pred, limit=4096, region=None):
        """Enumerate acyclic paths from `start` until stop_pred(block) is true or a block with no
        successors is reached. Returns (paths, complete); a path is a list of blocks. Raises
        ValueError if a cycle is met inside the region (A4 refuses loops)."""
        out = []
        complete = True

        def rec(x, path, onpath):
            nonlocal complete
            if len(out) >= limit:
                complete = False
                return
            path.append(x)
            if (stop_pred(x) and len(path) > 1) or not self.succ[x] or (region is not None and x not in region):
                out.append(list(path))
                path.pop()
                return
            onpath.add(x)
            for y in self.succ[x]:
                if y in onpath:
                    raise ValueError("cycle at bb%d -> bb%d" % (x, y))
                rec(y, path, onpath)
            onpath.discard(x)
            path.pop()

        rec(start, [], set())
        return out, complete


def cfg_of(body):
    if body._cfg is None:
        body._cfg = CFG(body)
    return body._cfg


class DagView(CFG):
    """The CFG without its back edges (edges x -> h where h dominates x): control dependence
    computed here is the dependence *within one iteration*; the edge that re-enters a loop does not
    make everything in the loop depend on everything else."""

    def __init__(self, body):
        base = cfg_of(body)
        self.body = body
        self.n = base.n
        back = set(base.back_edges())
        self.succ = [[y for y in base.succ[x] if (x, y) not in back] for x in range(base.n)]
        self.pred = [[] for _ in range(base.n)]
        for x in range(base.n):
            for y in self.succ[x]:
                self.pred[y].append(x)
        self.exits = list(base.exits)
        self.diverge = list(base.diverge)
        self.reachable = self._reach_from(0)
        self._dom = None
        self._pdom = None
        self._loops = {}


def dag_of(body):
    d = getattr(body, "_dag", None)
    if d is None:
        d = DagView(body)
        body._dag = d
    return d
