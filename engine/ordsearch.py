"""A9 — ordered-search monotonicity.

For every `partition_point` / `binary_search_by` / (`take_while` on a slice that was cut with
partition_point) call, the predicate / comparator closure is a small loop-free MIR body over integer
fields of the element and captured bounds. It is evaluated — as an abstract model, on the finite set
of orderings of the element key against the bounds — with a tiny interpreter for pure MIR, and the
outcome sequence along every sorted slice of the model domain must be monotone
(true* false*  /  Less* Equal* Greater*). A closure that calls anything, or reads a field that is
not part of the declared sort key, is reported as not provably monotone.
"""
import itertools
import re

from .cfg import cfg_of
from .facts import callee_name, callee_matches


class Unknown(Exception):
    pass


USIZE_MAX = (1 << 64) - 1


class NeedAtom(Exception):
    pass


class Infeasible(Exception):
    """The chosen valuation reaches an `unreachable` terminator: it is not a value of the type."""


class Sym:
    """A captured value (or a part of it) whose integer value is chosen by the enumeration."""

    def __init__(self, path):
        self.path = tuple(path)


class Mini:
    """Interpreter for pure, loop-free MIR over ints / bools / tuples / records."""

    def __init__(self, facts, body, element, upvars, key_fields):
        self.facts = facts
        self.body = body
        self.loc = {}
        self.element = element        # dict field -> value
        self.upvars = upvars          # name -> value (int or dict)
        self.key_fields = key_fields
        self.read_fields = set()
        self.atoms = {}               # Sym path -> int (chosen by the enumeration)
        self.needed = []
        self.call_hook = None         # fn(callee_name, [arg values]) -> value, or raises Unknown
        self.depth = 0
        self.is_closure = True
        self.calls_seen = []

    def val(self, v):
        """Integer value of an int or a symbolic captured value."""
        if isinstance(v, Sym):
            if v.path not in self.atoms:
                if v.path not in self.needed:
                    self.needed.append(v.path)
                raise NeedAtom(v.path)
            return self.atoms[v.path]
        return v

    def place(self, pl):
        l = pl["l"]
        fields = []
        for e in pl["p"]:
            if isinstance(e, dict) and "f" in e:
                fields.append(e["f"])
            elif isinstance(e, dict) and "dc" in e:
                continue
            elif e == "deref":
                continue
            else:
                raise Unknown("projection %s" % (e,))
        if l == 1 and self.is_closure and fields and fields[0].startswith("upvar:"):
            v = Sym((fields[0][6:],))
            fields = fields[1:]
        elif l == 2 and self.is_closure and l not in self.loc:
            v = self.element
            if fields and isinstance(v, dict):
                self.read_fields.add(fields[0])
        else:
            if l not in self.loc:
                raise Unknown("uninitialised _%d" % l)
            v = self.loc[l]
        for f in fields:
            if isinstance(v, Sym):
                v = Sym(v.path + (f,))
            elif isinstance(v, dict):
                if f not in v:
                    raise Unknown("field %s" % f)
                if v is self.element:
                    self.read_fields.add(f)
                v = v[f]
            elif isinstance(v, tuple) and f.isdigit():
                v = v[int(f)]
            else:
                raise Unknown("field %s of %r" % (f, v))
        return v

    def operand(self, op):
        if "k" in op:
            k = op["k"]
            if "int" in k:
                return k["int"]
            if k.get("zst") or k.get("ty") == "()":
                return ()
            raise Unknown("const %s" % k.get("text"))
        return self.place(op.get("c") or op.get("m"))

    def rvalue(self, rv):
        k = rv["k"]
        if k == "use":
            return self.operand(rv["op"])
        if k in ("ref", "rawptr"):
            return self.place(rv["place"])
        if k == "bin":
            a = self.val(self.operand(rv["a"]))
            b = self.val(self.operand(rv["b"]))
            op = rv["op"]
            if not isinstance(a, int) or not isinstance(b, int):
                raise Unknown("non-integer operands")
            if op in ("Lt", "Le", "Gt", "Ge", "Eq", "Ne"):
                return {"Lt": a < b, "Le": a <= b, "Gt": a > b, "Ge": a >= b, "Eq": a == b, "Ne": a != b}[op]
            if op in ("Add", "AddWithOverflow", "AddUnchecked"):
                r = a + b
                return (r, r > USIZE_MAX) if op.endswith("WithOverflow") else r
            if op in ("Sub", "SubWithOverflow", "SubUnchecked"):
                r = a - b
                return (r, r < 0) if op.endswith("WithOverflow") else r
            if op in ("BitAnd",):
                return a & b
            if op in ("BitOr",):
                return a | b
            raise Unknown("binop %s" % op)
        if k == "un":
            a = self.val(self.operand(rv["a"]))
            if rv["op"] == "Not":
                return (not a) if isinstance(a, bool) else ~a
            raise Unknown("unop %s" % rv["op"])
        if k == "agg":
            if rv.get("agg") == "adt" and not rv["ops"]:
                return ("variant", rv["variant"])
            if rv.get("agg") == "tuple":
                return tuple(self.operand(o) for o in rv["ops"])
            if rv.get("agg") == "adt":
                d = {"__variant": rv["variant"], "__path": rv["path"]}
                for nm, o in zip(rv.get("fields") or [], rv["ops"]):
                    d[nm] = self.operand(o)
                return d
            raise Unknown("aggregate")
        if k == "discr":
            v = self.place(rv["place"])
            if isinstance(v, Sym):
                return self.val(Sym(v.path + ("__discr",)))
            if isinstance(v, tuple) and v and v[0] == "variant":
                raise Unknown("discriminant of a unit variant")
            raise Unknown("discriminant")
        if k == "cast":
            return self.operand(rv["op"])
        raise Unknown("rvalue %s" % k)

    def run(self):
        bb = 0
        steps = 0
        while steps < 400:
            steps += 1
            b = self.body.blocks[bb]
            for s in b["stmts"]:
                if s["k"] == "assign":
                    if s["lhs"]["p"]:
                        raise Unknown("partial write")
                    self.loc[s["lhs"]["l"]] = self.rvalue(s["rv"])
            t = b["term"]
            k = t["k"]
            if k == "return":
                return self.loc.get(0)
            if k in ("goto", "falseedge", "falseunwind", "drop"):
                bb = t["t"]
            elif k == "assert":
                c = self.operand(t["cond"])
                if c != t["expected"]:
                    raise Unknown("assert fails (overflow) in the model domain")
                bb = t["t"]
            elif k == "switch":
                v = self.val(self.operand(t["op"]))
                if isinstance(v, bool):
                    v = 1 if v else 0
                if isinstance(v, tuple) and v and v[0] == "variant":
                    raise Unknown("switch on variant")
                nxt = t["otherwise"]
                for val, tg in zip(t["vals"], t["targets"]):
                    if val == v:
                        nxt = tg
                bb = nxt
            elif k == "call":
                nm = callee_name(t)
                m = re.search(r"ops::RangeInclusive::<Idx>::(start|end)$", nm)
                if m and t["args"]:
                    v = self.operand(t["args"][0])
                    if isinstance(v, Sym):
                        self.loc[t["dest"]["l"]] = Sym(v.path + (m.group(1),))
                    elif isinstance(v, dict) and m.group(1) in v:
                        self.loc[t["dest"]["l"]] = v[m.group(1)]
                    else:
                        raise Unknown("call to %s" % nm)
                    bb = t["t"]
                elif self._local_pure(t) is not None:
                    # a crate-local helper of the comparator (`bound.admits(x)`): evaluated in place
                    cb = self._local_pure(t)
                    sub = Mini(self.facts, cb, self.element, self.upvars, self.key_fields)
                    sub.atoms, sub.needed, sub.read_fields = self.atoms, self.needed, self.read_fields
                    sub.depth = self.depth + 1
                    sub.is_closure = False
                    for ai, a in enumerate(t["args"]):
                        sub.loc[ai + 1] = self.operand(a)
                    self.calls_seen.append(nm)
                    self.loc[t["dest"]["l"]] = sub.run()
                    bb = t["t"]
                elif self.call_hook is not None:
                    args = [self.operand(a) for a in t["args"]]
                    self.calls_seen.append(nm)
                    self.loc[t["dest"]["l"]] = self.call_hook(nm, args)
                    bb = t["t"]
                else:
                    raise Unknown("call to %s" % nm)
            elif k == "unreachable":
                raise Infeasible()
            else:
                raise Unknown("terminator %s" % k)
        raise Unknown("too many steps")

    def _local_pure(self, t):
        if self.depth >= 3 or t.get("virtual") or t.get("t") is None:
            return None
        cb = self.facts.body(t.get("res") or "")
        if cb is None or cb.kind not in ("Fn", "AssocFn") or cb.coroutine or len(t["args"]) != cb.argc:
            return None
        if cfg_of(cb).loops():
            return None
        return cb


def closure_of_arg(facts, body, op):
    pl = op.get("m") or op.get("c")
    if not pl:
        return None, None
    adt = body.locals[pl["l"]].get("adt")
    cb = facts.body(adt) if adt else None
    if cb is None or cb.kind != "Closure":
        return None, None
    # captured variable names
    names = []
    for i, j, s in body.assigns():
        rv = s["rv"]
        if rv["k"] == "agg" and rv.get("path") == cb.defpath:
            names = rv.get("fields", [])
    return cb, names


def upvar_shapes(cb):
    """Which fields of which captured variable the closure reads: name -> set(field paths)."""
    out = {}
    def visit(pl):
        fields = [e["f"] for e in pl["p"] if isinstance(e, dict) and "f" in e]
        if pl["l"] == 1 and fields and fields[0].startswith("upvar:"):
            out.setdefault(fields[0][6:], set()).add(tuple(fields[1:]))
    for b in cb.blocks:
        for s in b["stmts"]:
            if s["k"] == "assign":
                rv = s["rv"]
                for key in ("op", "a", "b"):
                    o = rv.get(key)
                    if isinstance(o, dict):
                        p = o.get("c") or o.get("m")
                        if p:
                            visit(p)
                if "place" in rv:
                    visit(rv["place"])
                for o in rv.get("ops", []):
                    p = o.get("c") or o.get("m")
                    if p:
                        visit(p)
    return out


def build_upvars(shapes, values):
    """Assign the integers in `values` (in order) to the leaf paths of the captured variables."""
    leaves = []
    for name in sorted(shapes):
        for path in sorted(shapes[name]):
            leaves.append((name, path))
    env = {}
    for (name, path), v in zip(leaves, values):
        if not path:
            env[name] = v
        else:
            d = env.setdefault(name, {})
            for f in path[:-1]:
                d = d.setdefault(f, {})
            d[path[-1]] = v
    return env, leaves


def check_predicate(facts, cb, elem_kind):
    """elem_kind: 'line' (LineChange keyed by line) or 'range' (sorted disjoint Range<usize>).
    Returns (ok, detail, evaluations)."""
    D = range(0, 5)
    if elem_kind == "line":
        elems = [{"line": k, "ranges": None} for k in D]
        key_fields = {"line"}
        seqs = [s for n in (1, 2, 3) for s in itertools.combinations_with_replacement(range(len(elems)), n)]
    else:
        rngs = [(a, b) for a in D for b in D if a < b]
        elems = [{"start": a, "end": b} for a, b in rngs]
        key_fields = {"start", "end"}
        seqs = []
        for n in (1, 2, 3):
            for s in itertools.combinations(range(len(elems)), n):
                ok = all(elems[s[i]]["end"] <= elems[s[i + 1]]["start"] for i in range(len(s) - 1))
                if ok:
                    seqs.append(s)
    # discover the captured integers the closure depends on
    atoms = []
    for _ in range(8):
        progressed = False
        for el in elems:
            m = Mini(facts, cb, el, {}, key_fields)
            m.atoms = {a: 1 for a in atoms}
            try:
                m.run()
            except NeedAtom as na:
                if na.args[0] not in atoms:
                    atoms.append(na.args[0])
                    progressed = True
            except Infeasible:
                pass
            except Unknown as u:
                return False, "not provably monotone: %s" % u, 0
        if not progressed:
            break
    if len(atoms) > 3:
        return False, "the closure depends on %d captured values; too many to enumerate" % len(atoms), 0
    evals = 0
    feasible = 0
    for vals in itertools.product(D, repeat=len(atoms)):
        outcome = {}
        infeasible = False
        for i, el in enumerate(elems):
            m = Mini(facts, cb, el, {}, key_fields)
            m.atoms = dict(zip(atoms, vals))
            try:
                r = m.run()
            except Infeasible:
                infeasible = True
                break
            except NeedAtom as na:
                return False, "not provably monotone: captured value %s discovered late" % (na.args[0],), evals
            except Unknown as u:
                return False, "not provably monotone: %s" % u, evals
            if m.read_fields - key_fields:
                return False, "the closure reads element field(s) %s that are not part of the sort key" % sorted(m.read_fields - key_fields), evals
            outcome[i] = r
            evals += 1
        if infeasible:
            continue
        feasible += 1
        for s in seqs:
            seq = [outcome[i] for i in s]
            if not monotone(seq):
                return False, "outcome sequence %s for elements %s with captured values %s is not monotone" % (
                    [fmt(x) for x in seq], [elems[i] for i in s], dict(zip([".".join(a) for a in atoms], vals))), evals
    if not feasible:
        return False, "no valuation of the captured values is feasible in the model domain", evals
    return True, "", evals


def fmt(x):
    if isinstance(x, tuple) and x and x[0] == "variant":
        return x[1]
    return x


def monotone(seq):
    rank = []
    for x in seq:
        if isinstance(x, bool):
            rank.append(0 if x else 1)          # true* false*
        elif isinstance(x, tuple) and x and x[0] == "variant":
            rank.append({"Less": 0, "Equal": 1, "Greater": 2}.get(x[1], 9))
        else:
            return False
    return all(rank[i] <= rank[i + 1] for i in range(len(rank) - 1))


SEARCH = r"<impl \[T\]>::(partition_point|binary_search_by|binary_search_by_key|binary_search)$"


def sites(facts, bodies):
    out = []
    for b in bodies:
        for bi, t in b.calls():
            if callee_matches(t, SEARCH):
                out.append((b, bi, t))
    return out
