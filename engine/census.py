"""A6/A7 — partiality census: every panic-capable site and every CFG cycle of blockwatch's own code
reachable from main, with stable keys (no line numbers)."""
import re

from .cfg import cfg_of
from .expr import Expr, render, walk
from .facts import callee_name, callee_matches

PANIC_CALLS = re.compile(
    r"^core::panicking::|^std::rt::begin_panic|^std::panicking::|^core::option::(expect_failed|unwrap_failed)|^core::result::unwrap_failed")
UNWRAPS = re.compile(r"(option::Option::<T>|result::Result::<T, E>)::(unwrap|expect|unwrap_err|expect_err|unwrap_unchecked)$")
INDEX = re.compile(r"ops::Index(Mut)?<.*>>::index(_mut)?$|ops::Index(Mut)?::index(_mut)?$|::Index<.*> for .*>::index$|::IndexMut<.*> for .*>::index_mut$")
PANICKY_STD = re.compile(
    r"cell::RefCell::<T>::(borrow|borrow_mut)$|Vec::<T, A>::(remove|insert|swap_remove|split_off|drain|truncate_front|swap)$|<impl \[T\]>::(split_at|split_at_mut|swap|copy_from_slice|chunks|windows|rotate_left|rotate_right|select_nth_unstable)$"
    r"|<impl str>::(split_at|split_at_mut)$|String::(insert|insert_str|remove|drain|replace_range|split_off|truncate)$|VecDeque::<T, A>::(swap|split_off|insert|remove|range|drain)$"
    r"|<impl str>::repeat$|<impl \[T\]>::repeat$|Iterator::step_by$|<impl \[T\]>::(chunks_exact|rchunks)$|char::from_digit$|<impl usize>::(pow|div_ceil|next_power_of_two|abs_diff)$"
    r"|thread::JoinHandle::<T>::join$|std::thread::spawn$|tokio::runtime::Runtime::block_on$|tokio::task::spawn$|Arc::<T>::try_unwrap$|<impl f64>::clamp$|cmp::Ord::clamp$")


def short(e, n=70):
    """Rename-stable description of where a value comes from: the producing callee (last path
    segment) or the projected field names; variables and parameters are just `v`."""
    k = e[0]
    if k == "const":
        v = e[1]
        return "'%s'" % v[:20] if isinstance(v, str) else str(v)
    if k in ("param", "var", "upvar"):
        return "v"
    if k == "proj":
        fields = [f for f in e[2] if not f.startswith("as:") and not f.startswith("[")]
        if e[1][0] == "bin" and e[1][1].endswith("WithOverflow") and fields[:1] == ["0"]:
            fields = fields[1:]     # (a + b).0 of a checked operation is just a + b
        return short(e[1], n) + "".join("." + f for f in fields[-2:])
    if k == "call":
        seg = re.sub(r"<[^<>]*>", "", e[1]).split("::")[-1]
        inner = short(e[2][0], n) if e[2] else ""
        inner = inner if inner in ("v",) or len(inner) > 40 else inner
        return "%s(%s)" % (seg, inner[:40])
    if k == "bin":
        return "%s(%s,%s)" % (e[1].replace("WithOverflow", ""), short(e[2], n)[:30], short(e[3], n)[:30])
    if k == "un":
        return "%s(%s)" % (e[1], short(e[2], n)[:40])
    if k == "discr":
        return "discr"
    if k == "agg":
        return re.sub(r"<[^<>]*>", "", e[1]).split("::")[-1] + "{}"
    if k == "cast":
        return short(e[2], n)
    return "?"



def _leaf(e):
    """One-level class of an operand: constant value, field name, callee segment, `v`."""
    k = e[0]
    if k == "const":
        v = e[1]
        return "'%s'" % v[:20] if isinstance(v, str) else str(v)
    if k in ("param", "var", "upvar"):
        return "v"
    if k == "proj":
        fields = [f for f in e[2] if not f.startswith("as:") and not f.startswith("[") and not f.isdigit()]
        if fields:
            return "." + fields[-1]
        return _leaf(e[1])
    if k == "call":
        return re.sub(r"<[^<>]*>", "", e[1]).split("::")[-1]
    if k == "bin":
        return e[1].replace("WithOverflow", "")
    if k == "un":
        return e[1]
    if k == "agg":
        return re.sub(r"<[^<>]*>", "", e[1]).split("::")[-1]
    if k == "cast":
        return _leaf(e[2])
    if k == "discr":
        return "discr"
    return "?"


def coarse(site):
    """Shape of a site that survives renaming, extraction of sub-expressions into variables and the
    move of the statement into a helper of the same file: operator + one-level operand classes."""
    kind = site["kind"]
    if kind.startswith("overflow-") or kind == "bounds":
        def arith(e):
            c = _leaf(e)
            # how an intermediate was computed (a `?`, a sum, a variable) is not part of the shape
            if c.startswith(".") or c.startswith("'") or c.lstrip("-").isdigit() or c in ("len", "as_ptr"):
                return c
            return "x"
        return "%s,%s" % (arith(site["a"]), arith(site["b"]))
    if kind.startswith("index-"):
        i = site["index"]
        c = _leaf(i)
        if c in ("v", "Add", "Sub", "min", "max", "add", "saturating_sub", "next", "unwrap_or", "len"):
            c = "i"
        r = _leaf(site["recv"]) if site.get("recv") else "?"
        if r in ("index", "deref", "as_str", "as_ref", "borrow", "as_slice", "as_bytes", "branch", "unwrap", "expect", "to_str", "unwrap_or", "unwrap_or_default", "next", "clone", "trim", "trim_start", "trim_end") or r.startswith("."):
            r = "v"
        return "%s[%s]" % (r, c)
    if "operand" in site:
        e = site["operand"]
        if e[0] == "call" and e[2]:
            inner = _leaf(e[2][0])
            # what the receiver was sliced / borrowed from is not part of the shape
            if inner in ("index", "deref", "as_str", "as_ref", "borrow", "clone", "v") or not inner.startswith("."):
                inner = "v" if inner in ("index", "deref", "as_str", "as_ref", "borrow", "clone", "v") else inner
            return "%s(%s)" % (_leaf(e), inner)
        return _leaf(e)
    return site.get("detail", "")


def sites(ctx, bodies):
    """[{key, kind, body, bb, span, detail, labels}] for every panic-capable site."""
    out = []
    for b in bodies:
        E = ctx.expr(b)
        counts = {}

        def add(kind, detail, bb, span, extra=None):
            base = "%s|%s|%s" % (b.id, kind, detail)
            counts[base] = counts.get(base, 0) + 1
            key = base if counts[base] == 1 else "%s#%d" % (base, counts[base])
            rec = {"key": key, "kind": kind, "body": b, "bb": bb, "span": span, "detail": detail}
            if extra:
                rec.update(extra)
            rec["file"] = (span or {}).get("file") or (b.span or {}).get("file") or "?"
            rec["ckey"] = "%s|%s|%s" % (rec["file"], kind, coarse(rec))
            rec["term"] = b.blocks[bb]["term"]
            out.append(rec)

        for bi, t in b.terms():
            k = t["k"]
            if k == "call":
                nm = callee_name(t)
                d = t.get("def") or ""
                exp = (t.get("span") or {}).get("exp_outer") or (t.get("span") or {}).get("exp")
                if PANIC_CALLS.search(nm) or PANIC_CALLS.search(d):
                    add("panic", nm.split("::")[-1] + (":" + exp if exp else ""), bi, t["span"], {"macro": exp})
                elif UNWRAPS.search(d) or UNWRAPS.search(nm):
                    e = E.operand(t["args"][0]) if t["args"] else ("const", "?")
                    add(d.split("::")[-1], short(e), bi, t["span"], {"operand": e, "macro": exp})
                elif INDEX.search(d) or INDEX.search(nm):
                    recv = (t.get("arg_tys") or ["?"])[0]
                    idx = (t.get("arg_tys") or ["?", "?"])[1] if len(t.get("arg_tys") or []) > 1 else "?"
                    e0 = E.operand(t["args"][0]) if t["args"] else ("const", "?")
                    e1 = E.operand(t["args"][1]) if len(t["args"]) > 1 else ("const", "?")
                    rk = "str" if re.search(r"^&(mut )?(str|std::string::String)$", recv) else ("map" if "HashMap" in recv else ("json" if "serde_json" in recv else "slice"))
                    add("index-" + rk, "%s[%s]" % (short(e0, 40), short(e1, 50)), bi, t["span"], {"recv": e0, "index": e1, "recv_ty": recv, "macro": exp})
                elif PANICKY_STD.search(d) or PANICKY_STD.search(nm):
                    e = E.operand(t["args"][0]) if t["args"] else ("const", "?")
                    add("std:" + d.split("::")[-1], short(e, 50), bi, t["span"], {"operand": e, "macro": exp})
            elif k == "assert":
                msg = t.get("msg")
                if msg in ("resumed_after_return", "resumed_after_panic", "resumed_after_drop", "misaligned", "nullptr", "invalid_enum"):
                    continue
                if msg == "overflow":
                    a = E.operand(t["a"]) if "a" in t else ("const", "?")
                    bb_ = E.operand(t["b"]) if "b" in t else ("const", "?")
                    add("overflow-" + t.get("detail", "?"), "%s,%s" % (short(a, 45), short(bb_, 45)), bi, t["span"], {"a": a, "b": bb_, "a_op": t.get("a"), "b_op": t.get("b")})
                elif msg == "bounds":
                    a = E.operand(t["a"]) if "a" in t else ("const", "?")
                    bb_ = E.operand(t["b"]) if "b" in t else ("const", "?")
                    add("bounds", "%s,%s" % (short(a, 45), short(bb_, 45)), bi, t["span"], {"a": a, "b": bb_, "a_op": t.get("a"), "b_op": t.get("b")})
                else:
                    add("assert-" + str(msg), "", bi, t["span"])
    return out


def cycles(ctx, bodies):
    """[{key, body, header, blocks, variant}] for every natural loop / SCC."""
    out = []
    for b in bodies:
        cfg = cfg_of(b)
        E = ctx.expr(b)
        loops = cfg.loops()
        covered = set()
        n = 0
        view = None
        for h, blocks in sorted(loops.items()):
            covered |= blocks
            variant, detail = classify_loop(ctx, b, cfg, E, h, blocks)
            if variant == "unclassified" and b.promoted is None and b.kind in ("Fn", "AssocFn", "Closure") and not getattr(b, "is_inlined", False):
                # the driving `next()` / cursor move may sit in a helper: look again with the
                # crate-local helpers inlined (original blocks keep their indices in the view)
                try:
                    if view is None:
                        view = ctx.inl(b, tag="all")
                    vcfg = cfg_of(view)
                    if h in vcfg.loops():
                        v2, d2 = classify_loop(ctx, view, vcfg, ctx.expr(view), h, vcfg.loops()[h])
                        if v2 != "unclassified":
                            variant, detail = v2, d2
                except Exception:       # noqa: BLE001
                    pass
            n += 1
            out.append({"key": "%s|loop|%s|%s" % ((b.span or {}).get("file"), variant, detail), "body": b, "header": h, "blocks": blocks, "variant": variant, "detail": detail})
        for comp in cfg.sccs():
            if not comp <= covered:
                out.append({"key": "%s|loop|irreducible|%d" % (b.id, len(comp)), "body": b, "header": min(comp), "blocks": comp, "variant": "unclassified", "detail": "irreducible cycle"})
    return out


def classify_loop(ctx, b, cfg, E, h, blocks):
    """Termination variant of a natural loop."""
    # await desugaring: loop { poll; if Ready break; yield }
    if any(b.blocks[x]["term"] and b.blocks[x]["term"]["k"] == "yield" for x in blocks) and cfg.innermost_loop(next(iter([x for x in blocks if b.blocks[x]["term"] and b.blocks[x]["term"]["k"] == "yield"]))) == h:
        return "await", "poll/yield"
    # iterator-driven: a next()/pop()/pop_front()/join_next() in the loop whose None arm leaves it
    for x in sorted(blocks):
        t = b.blocks[x]["term"]
        if not t or t["k"] != "call" or cfg.innermost_loop(x) != h:
            continue
        nm = callee_name(t)
        if re.search(r"Iterator>?::next$|StreamingIterator::next$|Vec::<T, A>::pop$|VecDeque::<T, A>::pop_front$|JoinSet::<T>::join_next", nm):
            succ = cfg.succ[x]
            if succ:
                sw = succ[0]
                tt = b.blocks[sw]["term"]
                # `iter.next()?`: the Option goes through Try::branch first
                if tt and tt["k"] == "call" and re.search(r"ops::Try>::branch$", callee_name(tt)) and cfg.succ[sw]:
                    sw = cfg.succ[sw][0]
                    tt = b.blocks[sw]["term"]
                if tt and tt["k"] == "switch":
                    tgts = list(tt["targets"]) + [tt["otherwise"]]
                    leaves = [y for y in tgts if y not in blocks or not _reaches_header(cfg, y, h, blocks)]
                    if leaves:
                        src = short(E.operand(t["args"][0]), 60) if t["args"] else ""
                        return "iterator", nm.split("::")[-1] + "(" + src.split("(")[0][:40] + ")"
    # `while let Some(x) = set.join_next().await`: the future is created in the loop, awaited in an
    # inner poll loop, and the None arm of the awaited Option leaves the loop
    for x in sorted(blocks):
        t = b.blocks[x]["term"]
        if t and t["k"] == "call" and cfg.innermost_loop(x) == h and re.search(r"JoinSet::<T>::join_next$", callee_name(t)):
            for y in sorted(blocks):
                tt = b.blocks[y]["term"]
                if tt and tt["k"] == "switch" and cfg.innermost_loop(y) == h:
                    e = E.operand(tt["op"])
                    txt = render(e, 3000)
                    if e[0] == "discr" and "join_next" in txt and any(z not in blocks or not _reaches_header(cfg, z, h, blocks) for z in list(tt["targets"]) + [tt["otherwise"]]):
                        return "iterator", "join_next().await"
    # `while !found(&dir) { if !dir.pop() { fail } }`: every cycle removes the last component of a path; `pop`
    # answers false at the root, which leaves the loop
    pops = {x for x in blocks if b.blocks[x]["term"] and b.blocks[x]["term"]["k"] == "call" and re.search(r"std::path::PathBuf::pop$", callee_name(b.blocks[x]["term"]))
            and cfg.innermost_loop(x) == h}
    if pops:
        leaves = False
        for x in pops:
            sw = cfg.succ[x][0] if cfg.succ[x] else None
            tt = b.blocks[sw]["term"] if sw is not None else None
            if tt and tt["k"] == "switch":
                arms = dict(zip(tt["vals"], tt["targets"]))
                f_arm = arms.get(0)
                if f_arm is not None and (f_arm not in blocks or not _reaches_header(cfg, f_arm, h, blocks)):
                    leaves = True
        outside = set(range(cfg.n)) - set(blocks)
        r = set()
        for y in cfg.succ[h]:
            if y in blocks and y not in pops:
                r |= cfg.reach(y, avoid=outside | pops | {h})
        if leaves and h not in pops and not any(h in cfg.succ[x] for x in r):
            return "ancestor-walk", "pop()"
    # tree-cursor walk: every cycle through the header performs a TreeCursor move (first child / next
    # sibling / parent) - a finite tree is walked depth-first, each node entered once
    moves = {x for x in blocks if b.blocks[x]["term"] and b.blocks[x]["term"]["k"] == "call"
             and re.search(r"tree_sitter::TreeCursor::<'cursor>::goto_(first_child|next_sibling|parent)$", callee_name(b.blocks[x]["term"]))}
    if moves:
        # a one-shot flag (`if !self.started { self.started = true; .. }`) is progress too: that path
        # can be taken once, the flag is never cleared in the loop
        oneshot = set()
        for x in blocks:
            for s in b.blocks[x]["stmts"]:
                if s["k"] == "assign" and s["lhs"]["p"] and s["rv"]["k"] == "use" and isinstance(s["rv"]["op"].get("k"), dict) \
                        and s["rv"]["op"]["k"].get("ty") == "bool" and s["rv"]["op"]["k"].get("int") == 1:
                    flag_txt = render(E.place(s["lhs"]), 200)
                    cleared = any(s2["k"] == "assign" and s2["lhs"]["p"] and render(E.place(s2["lhs"]), 200) == flag_txt and s2 is not s
                                  and not (isinstance(s2["rv"].get("op", {}).get("k"), dict) and s2["rv"]["op"]["k"].get("int") == 1)
                                  for y in blocks for s2 in b.blocks[y]["stmts"])
                    if cleared:
                        continue
                    for y in blocks:
                        tt = b.blocks[y]["term"]
                        if tt and tt["k"] == "switch" and render(E.operand(tt["op"]), 200) == flag_txt and 0 in tt["vals"]:
                            arm0 = tt["targets"][tt["vals"].index(0)]
                            if cfg.dominates(arm0, x):
                                oneshot.add(x)
        # ... and a one-shot state (`if let State::AtRoot = self.state { self.state = State::Walking; .. }`):
        # the path is taken in a state that it leaves for good - no assignment in the loop sets another variant
        for x in blocks:
            for s in b.blocks[x]["stmts"]:
                if s["k"] != "assign" or not s["lhs"]["p"]:
                    continue
                ev = E.rvalue(s["rv"])
                if ev[0] == "agg" and not ev[2] and str(ev[1]).startswith("blockwatch::") and "::" in str(ev[1]):
                    apath, avar = str(ev[1]).rsplit("::", 1)
                    ad = ctx.facts.adts.get(apath) or {}
                    names = [v.get("name") for v in ad.get("variants", [])]
                    if ad.get("kind") != "enum" or avar not in names:
                        continue
                    vi = names.index(avar)
                    flag_txt = render(E.place(s["lhs"]), 200)
                    other = any(s2["k"] == "assign" and s2["lhs"]["p"] and s2 is not s and render(E.place(s2["lhs"]), 200).startswith(flag_txt)
                                and E.rvalue(s2["rv"]) != ev
                                for y in blocks for s2 in b.blocks[y]["stmts"])
                    if other:
                        continue
                    for y in blocks:
                        tt = b.blocks[y]["term"]
                        if not (tt and tt["k"] == "switch"):
                            continue
                        e = E.operand(tt["op"])
                        if e[0] == "discr" and render(e[1], 200) == flag_txt:
                            for val, tg in zip(tt["vals"], tt["targets"]):
                                if val != vi and cfg.dominates(tg, x) and tg != y:
                                    oneshot.add(x)
        # ... the same state kept with `mem::replace(&mut self.state, State::Later)`: the arm taken for an *old* value
        # other than the one written can be taken once
        for x in blocks:
            tt = b.blocks[x]["term"]
            if not (tt and tt["k"] == "call" and re.search(r"mem::replace$", callee_name(tt)) and len(tt["args"]) == 2 and not tt["dest"]["p"]):
                continue
            ev = E.operand(tt["args"][1])
            if not (ev[0] == "agg" and not ev[2] and str(ev[1]).startswith("blockwatch::") and "::" in str(ev[1])):
                continue
            apath, avar = str(ev[1]).rsplit("::", 1)
            ad = ctx.facts.adts.get(apath) or {}
            names = [v.get("name") for v in ad.get("variants", [])]
            if ad.get("kind") != "enum" or avar not in names:
                continue
            vi = names.index(avar)
            flag_txt = render(E.operand(tt["args"][0]), 200)
            other = any(s2["k"] == "assign" and s2["lhs"]["p"] and render(E.place(s2["lhs"]), 200).startswith(flag_txt) and E.rvalue(s2["rv"]) != ev
                        for y in blocks for s2 in b.blocks[y]["stmts"])
            other = other or any(y != x and b.blocks[y]["term"] and b.blocks[y]["term"]["k"] == "call" and re.search(r"mem::(replace|take|swap)$", callee_name(b.blocks[y]["term"]))
                                 and b.blocks[y]["term"]["args"] and render(E.operand(b.blocks[y]["term"]["args"][0]), 200) == flag_txt for y in blocks)
            if other:
                continue
            dl = tt["dest"]["l"]
            for y in blocks:
                t2 = b.blocks[y]["term"]
                if not (t2 and t2["k"] == "switch"):
                    continue
                pl = t2["op"].get("c") or t2["op"].get("m")
                ds = [d for d in b.defs().get(pl["l"], [])] if pl and not pl["p"] else []
                if len(ds) == 1 and ds[0][0] == "stmt" and ds[0][3]["rv"]["k"] == "discr" and ds[0][3]["rv"]["place"]["l"] == dl and not ds[0][3]["rv"]["place"]["p"]:
                    for val, tg in zip(t2["vals"], t2["targets"]):
                        if val != vi and tg != y:
                            oneshot.add(tg)
        moves = moves | oneshot
        outside = set(range(cfg.n)) - set(blocks)
        r = set()
        for y in cfg.succ[h]:
            if y in blocks and y not in moves:
                r |= cfg.reach(y, avoid=outside | moves | {h})
        if h not in moves and not any(h in cfg.succ[x] for x in r | ({h} if False else set())) and not any(h == y for x in [h] for y in cfg.succ[x] if y == h):
            return "tree-cursor", "goto_*"
    # counter: a local that every cycle decrements by a positive constant, tested against zero
    for x in sorted(blocks):
        for s in b.blocks[x]["stmts"]:
            if s["k"] != "assign" or s["lhs"]["p"]:
                continue
            l = s["lhs"]["l"]
            e = E.rvalue(s["rv"])
            while e[0] == "proj":
                e = e[1]
            if e[0] == "bin" and e[1].startswith("Sub") and e[3][0] == "const" and isinstance(e[3][1], int) and e[3][1] >= 1 and e[2] == ("var", l, b.local_name(l)):
                outside = set(range(cfg.n)) - set(blocks)
                r = set()
                for y in cfg.succ[h]:
                    if y in blocks and y != x:
                        r |= cfg.reach(y, avoid=outside | {x, h})
                cyc = any(h in cfg.succ[z] for z in r)
                tested = False
                for y in blocks:
                    tt = b.blocks[y]["term"]
                    if tt and tt["k"] == "switch":
                        ee = E.operand(tt["op"])
                        if ee[0] == "bin" and ee[1] in ("Gt", "Ne") and ee[2] == ("var", l, b.local_name(l)) and ee[3] == ("const", 0):
                            tested = any(z not in blocks for z in list(tt["targets"]) + [tt["otherwise"]])
                if not cyc and tested and x != h:
                    return "counter", "decrement"
    # shrinking slice: every cycle re-slices a loop-carried &str / &[T] by a positive constant
    # (`rest = &rest[k..]`, k >= 1): the remaining input strictly shrinks
    for x in sorted(blocks):
        tt = b.blocks[x]["term"]
        if not tt or tt["k"] != "call" or not INDEX.search(tt.get("def") or callee_name(tt)) or len(tt["args"]) < 2:
            continue
        ie = E.operand(tt["args"][1])
        if not (ie[0] == "agg" and ie[1].endswith("RangeFrom") and ie[2] and ie[2][0][0] == "const" and isinstance(ie[2][0][1], int) and ie[2][0][1] >= 1):
            continue
        outside = set(range(cfg.n)) - set(blocks)
        r = set()
        for y in cfg.succ[h]:
            if y in blocks and y != x:
                r |= cfg.reach(y, avoid=outside | {x, h})
        if any(h in cfg.succ[z] for z in r) or x == h:
            continue
        # the slice is stored back into a loop-carried local from which the sliced value derives
        recv = render(E.operand(tt["args"][0]), 400)
        for y in sorted(blocks):
            for s in b.blocks[y]["stmts"]:
                if s["k"] == "assign" and not s["lhs"]["p"] and b.locals[s["lhs"]["l"]].get("user"):
                    l = s["lhs"]["l"]
                    if not any(d[1] not in blocks for d in b.defs().get(l, [])):
                        continue
                    ev = E.rvalue(s["rv"])
                    nm_l = b.local_name(l)
                    if any(c[0] == "call" and c[3] == x for c in walk(ev) if len(c) > 3) and re.search(r"\b%s\b" % re.escape(nm_l), recv):
                        return "shrinking-slice", str(ie[2][0][1])
    # advancing offset: `while let Some(pos) = s[from..].find(p) { ..; from = from + pos + k }` with k >= 1:
    # the search start strictly increases and `find` returns None once nothing is left
    for x in sorted(blocks):
        for s in b.blocks[x]["stmts"]:
            if s["k"] != "assign" or s["lhs"]["p"]:
                continue
            l = s["lhs"]["l"]
            if not any(d[1] not in blocks for d in b.defs().get(l, [])):
                continue
            e = E.rvalue(s["rv"])
            terms = []

            def flat(z):
                while z[0] == "proj":
                    z = z[1]
                if z[0] == "bin" and z[1].startswith("Add"):
                    flat(z[2])
                    flat(z[3])
                else:
                    terms.append(z)
            flat(e)
            me = ("var", l, b.local_name(l))
            consts = [z[1] for z in terms if z[0] == "const" and isinstance(z[1], int)]
            others = [z for z in terms if z != me and z[0] != "const"]
            if terms.count(me) == 1 and consts and min(consts) >= 1 and all(any(c[0] == "call" and re.search(r"<impl str>::(find|rfind)$|<impl \[T\]>::(iter|position)$|Iterator>?::position$", c[1]) for c in walk(z)) for z in others) and len(terms) >= 2:
                outside = set(range(cfg.n)) - set(blocks)
                r = set()
                for y in cfg.succ[h]:
                    if y in blocks and y != x:
                        r |= cfg.reach(y, avoid=outside | {x, h})
                if any(h in cfg.succ[z] for z in r) or x == h:
                    continue
                # the loop is left when the search finds nothing
                for y in blocks:
                    tt = b.blocks[y]["term"]
                    if tt and tt["k"] == "switch":
                        ee = E.operand(tt["op"])
                        finds = [c for c in walk(ee) if c[0] == "call" and re.search(r"<impl str>::find$", c[1])] if ee[0] == "discr" else []
                        # ... and the search starts at the advancing offset itself: `s[from..].find(..)`
                        from_l = any(a[0] == "agg" and a[1].endswith("RangeFrom") and a[2] and a[2][0] == me for c in finds for a in walk(c))
                        if finds and from_l and any(z not in blocks for z in list(tt["targets"]) + [tt["otherwise"]]):
                            return "advancing-offset", str(min(consts))
    # counter up to a bound: `while i < n { ..; i += k }` (k >= 1): a loop-carried local that every cycle
    # through the header increases by a positive constant and that a loop exit compares (`<`, `<=`, `!=`)
    # with a value not assigned inside the loop
    r0 = _counting_up(ctx, b, cfg, E, h, blocks)
    if r0:
        return r0
    # shrinking prefix / ancestor walk: the loop-carried value is replaced by a strictly smaller part
    # of itself: `s = &s[..i]` with i from a search in s (`rfind`, `find`), `p = p.parent()?`
    r0 = _shrinking_value(ctx, b, cfg, E, h, blocks)
    if r0:
        return r0
    # cursor / counter loops: recognise by the statements that change the loop-carried value
    carried = []
    for x in sorted(blocks):
        for s in b.blocks[x]["stmts"]:
            if s["k"] == "assign" and not s["lhs"]["p"]:
                l = s["lhs"]["l"]
                if b.locals[l].get("user") and any(d[1] not in blocks for d in b.defs().get(l, [])):
                    carried.append((l, s))
    descr = []
    for l, s in carried:
        rv = s["rv"]
        e = E.rvalue(rv)
        descr.append(":=%s" % short(e, 50))
    if not descr:
        calls = sorted({callee_name(b.blocks[x]["term"]).split("::")[-1] for x in blocks
                        if b.blocks[x]["term"] and b.blocks[x]["term"]["k"] == "call"})
        return "unclassified", "calls:" + ",".join(calls)[:160]
    return "unclassified", ";".join(sorted(set(descr)))[:160]


def _every_cycle_passes(cfg, h, blocks, x):
    """every path from the header back to the header (inside the loop) passes block x"""
    if x == h:
        return True
    outside = set(range(cfg.n)) - set(blocks)
    r = set()
    for y in cfg.succ[h]:
        if y in blocks and y != x:
            r |= cfg.reach(y, avoid=outside | {x, h})
    return not any(h in cfg.succ[z] for z in r)


def _counting_up(ctx, b, cfg, E, h, blocks):
    for x in sorted(blocks):
        for s in b.blocks[x]["stmts"]:
            if s["k"] != "assign" or s["lhs"]["p"]:
                continue
            l = s["lhs"]["l"]
            if not any(d[1] not in blocks for d in b.defs().get(l, [])):
                continue
            e = E.rvalue(s["rv"])
            while e[0] == "proj":
                e = e[1]
            if not (e[0] == "bin" and e[1].startswith("Add") and e[3][0] == "const" and isinstance(e[3][1], int) and e[3][1] >= 1 and e[2][0] == "var" and e[2][1] == l):
                continue
            # no other assignment of the counter inside the loop
            if len([d for d in b.defs().get(l, []) if d[1] in blocks]) != 1:
                continue
            if not _every_cycle_passes(cfg, h, blocks, x):
                continue
            for y in blocks:
                tt = b.blocks[y]["term"]
                if not tt or tt["k"] != "switch":
                    continue
                ee = E.operand(tt["op"])
                neg = False
                while ee[0] == "un" and ee[1] == "Not":
                    ee = ee[2]
                    neg = not neg
                if ee[0] == "bin" and ee[1] in ("Lt", "Le", "Ne", "Gt", "Ge"):
                    sides = (ee[2], ee[3])
                    mine = [k for k in (0, 1) if sides[k][0] == "var" and sides[k][1] == l]
                    if len(mine) != 1:
                        continue
                    other = sides[1 - mine[0]]
                    # the bound is not changed inside the loop
                    changed = False
                    for v in walk(other):
                        if v[0] == "var" and isinstance(v[1], int) and any(d[1] in blocks for d in b.defs().get(v[1], [])) and not (len(v) > 2 and False):
                            # temporaries recomputed each iteration from loop-invariant inputs are fine (len(v))
                            ds = [d for d in b.defs().get(v[1], []) if d[1] in blocks]
                            if any(d[0] == "stmt" and b.locals[v[1]].get("user") for d in ds):
                                changed = True
                    if changed:
                        continue
                    if any(z not in blocks for z in list(tt["targets"]) + [tt["otherwise"]]):
                        return "counter-up", "+%d until bound" % e[3][1]
    return None


def _expand_local(b, E, e, blocks, depth=0):
    """a user variable defined once, inside the loop, is replaced by its definition (`dot_index` in
    `search_end = dot_index`)"""
    while e[0] == "proj" and len(e) > 1 and False:
        e = e[1]
    if depth < 3 and e[0] == "var" and isinstance(e[1], int):
        ds = [d for d in b.defs().get(e[1], []) if d[0] in ("stmt", "call")]
        if len(ds) == 1 and ds[0][1] in blocks:
            d = ds[0]
            ev = E.rvalue(d[3]["rv"]) if d[0] == "stmt" else E.call(d[3], d[1])
            return _expand_local(b, E, ev, blocks, depth + 1)
    return e


def _shrinking_value(ctx, b, cfg, E, h, blocks):
    for x in sorted(blocks):
        for s in b.blocks[x]["stmts"]:
            if s["k"] != "assign" or s["lhs"]["p"]:
                continue
            l = s["lhs"]["l"]
            if not b.locals[l].get("user") or not any(d[1] not in blocks for d in b.defs().get(l, [])):
                continue
            if len([d for d in b.defs().get(l, []) if d[1] in blocks]) != 1:
                continue
            e = _expand_local(b, E, E.rvalue(s["rv"]), blocks)
            nm_l = b.local_name(l)
            txt = render(e, 600)

            def mentions_self(v):
                return any(y[0] == "var" and y[1] == l for y in walk(v))
            kind = None
            for c in walk(e):
                if c[0] != "call":
                    continue
                # p = p.parent()  (strictly fewer components; None at the root leaves the loop)
                if re.search(r"std::path::Path::parent$", c[1]) and c[2] and mentions_self(c[2][0]):
                    kind = ("ancestor-walk", "parent()")
                # s = &s[..i] with i found in s itself
                if INDEX.search(c[1]) and len(c[2]) >= 2 and mentions_self(c[2][0]):
                    rng = c[2][1]
                    if rng[0] == "agg" and rng[1].endswith("RangeTo") and rng[2]:
                        srch = [y for y in walk(rng[2][0]) if y[0] == "call" and re.search(r"<impl str>::(rfind|find)$", y[1]) and y[2] and mentions_self(y[2][0])]
                        if srch:
                            kind = ("shrinking-prefix", "s = &s[..%s(s)]" % srch[0][1].split("::")[-1])
            if kind is None:
                # e = position found in s[..e]: the search bound strictly decreases
                ee = e
                while ee[0] == "proj" and len(ee) > 1:
                    ee = ee[1]
                for c in walk(ee):
                    if c[0] == "call" and re.search(r"<impl str>::rfind$", c[1]) and c[2]:
                        rcv = c[2][0]
                        while rcv[0] == "proj" and len(rcv) > 1:
                            rcv = rcv[1]
                        if rcv[0] == "call" and INDEX.search(rcv[1]) and len(rcv[2]) >= 2 and rcv[2][1][0] == "agg" and rcv[2][1][1].endswith("RangeTo") \
                                and rcv[2][1][2] and any(y[0] == "var" and y[1] == l for y in walk(rcv[2][1][2][0])):
                            kind = ("shrinking-bound", "e = s[..e].rfind(p)")
            if kind and _every_cycle_passes(cfg, h, blocks, x):
                return kind
    return None


def _reaches_header(cfg, y, h, blocks):
    r = cfg.reach(y, avoid=set(range(cfg.n)) - set(blocks))
    return h in r
