"""Virtual inlining (DESIGN §3.2): produces a copy of a body in which calls to crate-local, non-async,
non-recursive functions are replaced by the callee's blocks (depth-bounded), so that extracting a
helper — or inlining one — does not move a guard, a call or a comparison out of the rules' sight.

The result is an ordinary `Body` (same JSON shape): callee locals are appended, the call block assigns
the arguments to the callee's parameter locals and jumps to the callee's entry; every `return` of the
callee becomes `dest = _0'; goto continuation`. Closures are not inlined (they are separate bodies
that std adaptors call)."""
import copy

from .facts import Body

MAX_DEPTH = 6
MAX_BLOCKS = 4000


def _shift_place(pl, off_l):
    p2 = []
    for e in pl["p"]:
        if isinstance(e, dict) and "idx" in e:
            e = dict(e)
            e["idx"] = e["idx"] + off_l
        p2.append(e)
    return {"l": pl["l"] + off_l, "p": p2}


def _shift_operand(op, off_l):
    if "c" in op:
        return {"c": _shift_place(op["c"], off_l)}
    if "m" in op:
        return {"m": _shift_place(op["m"], off_l)}
    return op


def _shift_rvalue(rv, off_l):
    rv = dict(rv)
    for k in ("op", "a", "b"):
        if isinstance(rv.get(k), dict) and ("c" in rv[k] or "m" in rv[k] or "k" in rv[k]):
            rv[k] = _shift_operand(rv[k], off_l)
    if "place" in rv:
        rv["place"] = _shift_place(rv["place"], off_l)
    if "ops" in rv:
        rv["ops"] = [_shift_operand(o, off_l) for o in rv["ops"]]
    return rv


def _shift_block(b, off_l, off_b):
    nb = {"cleanup": b["cleanup"], "stmts": [], "term": None}
    for s in b["stmts"]:
        s2 = dict(s)
        if s["k"] == "assign":
            s2["lhs"] = _shift_place(s["lhs"], off_l)
            s2["rv"] = _shift_rvalue(s["rv"], off_l)
        elif s["k"] == "setdiscr":
            s2["lhs"] = _shift_place(s["lhs"], off_l)
        elif s["k"] in ("live", "dead"):
            s2["l"] = s["l"] + off_l
        nb["stmts"].append(s2)
    t = b["term"]
    if t:
        t2 = dict(t)
        for k in ("t", "otherwise", "imag", "drop"):
            if isinstance(t2.get(k), int):
                t2[k] = t2[k] + off_b
        if "targets" in t2:
            t2["targets"] = [x + off_b for x in t2["targets"]]
        if "op" in t2 and isinstance(t2["op"], dict):
            t2["op"] = _shift_operand(t2["op"], off_l)
        if "cond" in t2:
            t2["cond"] = _shift_operand(t2["cond"], off_l)
        for k in ("a", "b", "val"):
            if isinstance(t2.get(k), dict):
                t2[k] = _shift_operand(t2[k], off_l)
        if "place" in t2:
            t2["place"] = _shift_place(t2["place"], off_l)
        if "dest" in t2:
            t2["dest"] = _shift_place(t2["dest"], off_l)
        if "resume_arg" in t2:
            t2["resume_arg"] = _shift_place(t2["resume_arg"], off_l)
        if "args" in t2:
            t2["args"] = [_shift_operand(a, off_l) for a in t2["args"]]
        if "indirect" in t2 and isinstance(t2["indirect"], dict):
            t2["indirect"] = _shift_operand(t2["indirect"], off_l)
        nb["term"] = t2
    return nb


def _monomorphise(facts, t, subst):
    """A call inside a generic callee that was inlined at a call site with known type arguments: the type
    parameters in its own type arguments are replaced, and a call to a method of a crate trait on a type
    parameter (`<S as Span>::first`) is resolved to the impl for the concrete type."""
    if not subst:
        return t
    t = dict(t)
    if t.get("targs"):
        t["targs"] = [subst.get(x, x) for x in t["targs"]]
    st = t.get("self_ty")
    if st in subst and t.get("trait") and not t.get("res"):
        conc = subst[st]
        name = t.get("name")
        for imp in facts.impls:
            if imp.get("trait") != t["trait"]:
                continue
            if imp.get("self_ty") == conc or (imp.get("self_adt") and imp.get("self_adt") == conc.split("<")[0].lstrip("&")):
                for m in imp.get("methods", []):
                    if m.get("name") == name and facts.body(m.get("def") or "") is not None:
                        t["res"] = m["def"]
                        t["self_ty"] = conc
                        t["mono"] = True
                        return t
                # the impl does not override it: the trait's provided method
                dflt = facts.body(t.get("def") or "")
                if dflt is not None and dflt.kind in ("Fn", "AssocFn"):
                    t["res"] = dflt.id
                    t["self_ty"] = conc
                    t["mono"] = True
                    return t
    elif st in subst:
        t["self_ty"] = subst[st]
    return t


def _mono_const(facts, op, subst):
    """`<D as Trait>::CONST` with D a substituted type parameter: the constant of the impl for the concrete type"""
    k = op.get("k") if isinstance(op, dict) else None
    if not (isinstance(k, dict) and k.get("uneval") and k.get("uneval_self") in subst and k.get("promoted") is None):
        return op
    conc = subst[k["uneval_self"]]
    trait, _, cname = k["uneval"].rpartition("::")
    for b in facts.bodies.values():
        if b.kind == "AssocConst" and b.promoted is None and b.id.endswith("::" + cname) and b.d.get("impl_trait") == trait \
                and (b.d.get("impl_self") == conc or b.impl_self_adt == conc.split("<")[0]):
            k2 = dict(k)
            k2["uneval"] = b.id
            k2["uneval_self"] = conc
            return {"k": k2}
    return op


def _mono_block(facts, nb, subst):
    """applies a type-argument substitution to one (copied) block: calls are resolved, closures built in it
    remember the substitution (their bodies are generic over the same parameters)"""
    if not subst:
        return
    if nb["term"] and nb["term"]["k"] == "call":
        nb["term"] = _monomorphise(facts, nb["term"], subst)
        nb["term"]["args"] = [_mono_const(facts, a, subst) for a in nb["term"]["args"]]
    for i, st in enumerate(nb["stmts"]):
        if st["k"] == "assign":
            rv = st["rv"]
            chg = {}
            for key in ("op", "a", "b"):
                if isinstance(rv.get(key), dict) and "k" in rv[key]:
                    o2 = _mono_const(facts, rv[key], subst)
                    if o2 is not rv[key]:
                        chg[key] = o2
            if rv.get("ops"):
                ops2 = [_mono_const(facts, o, subst) for o in rv["ops"]]
                if any(a is not b for a, b in zip(ops2, rv["ops"])):
                    chg["ops"] = ops2
            if chg:
                st = dict(st)
                st["rv"] = dict(rv, **chg)
                nb["stmts"][i] = st
    for st in nb["stmts"]:
        if st["k"] == "assign" and st["rv"]["k"] == "agg" and st["rv"].get("agg") in ("closure", "coroutine"):
            st["rv"] = dict(st["rv"])
            st["rv"]["mono"] = dict(subst)


def inlined(facts, body, depth=MAX_DEPTH, skip=None, tag=None, sugar=False, subst=None):
    """Body with crate-local plain function calls inlined (cached on the body per `tag`; a `skip`
    predicate must come with its own tag). With sugar=True the closure-taking combinators of Option /
    Result / bool and iterator pipelines are expanded into explicit control flow as well
    (engine.desugar)."""
    tag = (tag or (getattr(skip, "__name__", "skip") if skip else "all")) + ("+sugar" if sugar else "")
    if subst:
        tag += "+mono:" + ";".join("%s=%s" % kv for kv in sorted(subst.items()))
    cache = body.__dict__.setdefault("_inlined_cache", {})
    if tag in cache:
        return cache[tag]
    d = {k: v for k, v in body.d.items() if k not in ("locals", "blocks")}
    locals_ = [dict(l) for l in body.locals]
    blocks = [copy.deepcopy(b) for b in body.blocks]
    if subst:
        for nb0 in blocks:
            _mono_block(facts, nb0, subst)
    origin = [(body.id, i) for i in range(len(blocks))]
    work = [(i, 0, (body.id,)) for i in range(len(blocks))]
    sg = None
    if sugar:
        from .desugar import Sugar
        sg = Sugar(facts, locals_, blocks, origin, work, outer=body)
    retries = 0
    while work or (sg is not None and retries < 2):
        if not work:
            # a pipeline whose adaptors are created in a helper can only be read once that helper has
            # been inlined, which (last-in first-out) may have happened after its consumer was visited:
            # offer the remaining iterator calls once more
            retries += 1
            for i, blk in enumerate(blocks):
                tt = blk.get("term")
                if tt and tt["k"] == "call" and not blk["cleanup"] and (tt.get("def") or "").startswith("std::iter::Iterator::") and (not tt.get("synthetic") or tt.get("def") == "std::iter::Iterator::next"):
                    work.append((i, 1, (body.id,)))
                elif tt and tt["k"] == "call" and tt.get("awaited") == "pending-construction":
                    # an awaited `async fn` whose constructor call had not been inlined yet
                    tt["awaited"] = "retry"
                    work.append((i, 1, (body.id,)))
            if not work:
                break
            continue
        bi, dep, stack = work.pop()
        if len(blocks) > MAX_BLOCKS:
            break
        b = blocks[bi]
        t = b["term"]
        if b["cleanup"] or not t or t["k"] != "call" or dep >= depth:
            continue
        if sg is not None and (sg.expand_simple(bi, dep, stack) or sg.expand_iter(bi, dep, stack) or sg.expand_closure_call(bi, dep, stack) or sg.expand_await(bi, dep, stack)):
            continue
        target = t.get("res") if not t.get("virtual") else None
        cb = facts.body(target or "")
        if cb is None or cb.kind not in ("Fn", "AssocFn") or cb.coroutine or cb.id in stack:
            continue
        if skip and skip(cb):
            continue
        if t["t"] is None or len(t["args"]) != cb.argc:
            continue
        # async fns only build a coroutine; inlining them is harmless but useless; skip big derive bodies
        if cb.is_derive():
            continue
        off_l = len(locals_)
        off_b = len(blocks)
        for l in cb.locals:
            l2 = dict(l)
            if l2.get("name"):
                l2["name"] = l2["name"]
            l2["inl_from"] = cb.id
            locals_.append(l2)
        cont = t["t"]
        dest = t["dest"]
        span = t.get("span")
        # type arguments of this call site, by the callee's type-parameter names (composed with the caller's own)
        gen = cb.d.get("generics") or []
        targs = t.get("targs") or []
        csub = dict(zip(gen, targs)) if gen and len(gen) == len(targs) and any(g != a for g, a in zip(gen, targs)) else {}
        for ci, cblk in enumerate(cb.blocks):
            nb = _shift_block(cblk, off_l, off_b)
            _mono_block(facts, nb, csub)
            tt = nb["term"]
            if tt and tt["k"] == "return" and not nb["cleanup"]:
                nb["stmts"].append({"k": "assign", "lhs": dest, "rv": {"k": "use", "op": {"m": {"l": off_l, "p": []}}}, "span": span, "inl_ret": cb.id})
                nb["term"] = {"k": "goto", "t": cont, "span": span}
            blocks.append(nb)
            origin.append((cb.id, ci))
            work.append((off_b + ci, dep + 1, stack + (cb.id,)))
        # the call block: parameters := arguments, then jump to the callee's entry
        for ai, a in enumerate(t["args"]):
            b["stmts"].append({"k": "assign", "lhs": {"l": off_l + 1 + ai, "p": []}, "rv": {"k": "use", "op": a}, "span": span, "inl_arg": cb.id})
        b["term"] = {"k": "goto", "t": off_b, "span": span, "inl_call": cb.id, "inl_site": t}
    if sg is not None:
        from .desugar import thread_jumps, split_switch_joins, eliminate_dead_stores, scalarize_fields
        for _ in range(8):
            n1 = thread_jumps(blocks)
            n2 = split_switch_joins(blocks, locals_)
            n4 = scalarize_fields(blocks, locals_, body.argc)
            n3 = eliminate_dead_stores(blocks, locals_, body.argc) if (n1 or n2 or n4) else 0
            if not n1 and not n2 and not n4:
                break
    d["locals"] = locals_
    d["blocks"] = blocks
    d["id"] = body.id
    nbdy = Body(d, body.unit)
    nbdy.cache_id = body.id + "#inlined:" + tag
    nbdy.origin = origin
    nbdy.is_inlined = True
    nbdy.sugar_expanded = list(sg.expanded) if sg is not None else []
    nbdy.base = body
    # parameters of inlined callees are ordinary locals here
    cache[tag] = nbdy
    return nbdy
