"""A4b — the condition under which a site executes, as a boolean function of atomic tests.

`guards()` gives the branches a block is (transitively) control-dependent on. When a branch tests a
boolean *variable* — `let interactive = is_tty() || env_set(); let expects_diff = !interactive; if
expects_diff || !globs.is_empty() { .. }` — the variable is expanded into the formula that computes
it: every definition contributes (condition under which that definition executes) ∧ (its value), where a
value is a constant, another variable, a negation, or an *atom* (the result of a call, a comparison,
a discriminant test). The result is a small formula over atoms that can be evaluated on every
valuation; rules compare it with the specification on all valuations instead of matching how the
condition happens to be written (directly in the `if`, through named flags, through `ensure!`, through
helper functions that were inlined).

Formulas: ("const", b) | ("atom", key) | ("not", f) | ("and", [f..]) | ("or", [f..]).
Atoms: key -> {"kind": "call" | "cmp" | "discr" | "opaque", "name": callee or text, "bb": block, "expr": e}.
"""
import itertools
import re

from .expr import render

MAXDEPTH = 8


class BoolCond:
    def __init__(self, ctx, body):
        self.ctx = ctx
        self.b = body
        self.E = ctx.expr(body)
        self.atoms = {}
        self._var = {}
        self._busy = set()

    # ------------------------------------------------------------------ atoms
    def atom(self, kind, name, bb=None, expr=None):
        key = "%s:%s@%s" % (kind, name[:120], bb if bb is not None else "-")
        if key not in self.atoms:
            self.atoms[key] = {"kind": kind, "name": name, "bb": bb, "expr": expr}
        return ("atom", key)

    # ------------------------------------------------------------------ values
    def of_expr(self, e, depth=0):
        """Formula of a boolean-valued expression tuple."""
        if e[0] == "const":
            if e[1] in (0, 1, True, False):
                return ("const", bool(e[1]))
        if e[0] == "un" and e[1] == "Not":
            return ("not", self.of_expr(e[2], depth))
        if e[0] == "call":
            return self.atom("call", e[1], e[3] if len(e) > 3 and isinstance(e[3], int) else None, e)
        if e[0] == "bin" and e[1] in ("Eq", "Ne", "Lt", "Le", "Gt", "Ge"):
            if e[1] == "Ne":
                return ("not", self.atom("cmp", render(("bin", "Eq", e[2], e[3]), 200), None, e))
            return self.atom("cmp", render(e, 200), None, e)
        if e[0] in ("var",) and isinstance(e[1], int) and e[1] >= 0:
            return self.of_local(e[1], depth + 1)
        if e[0] == "bin" and e[1] in ("BitAnd", "BitOr"):
            parts = [self.of_expr(e[2], depth), self.of_expr(e[3], depth)]
            return ("and", parts) if e[1] == "BitAnd" else ("or", parts)
        return self.atom("opaque", render(e, 160), None, e)

    def of_local(self, l, depth=0):
        """Formula of a boolean local with several definitions: OR over definitions of
        (condition of the defining block) AND (value assigned there)."""
        if l in self._var:
            return self._var[l]
        if l in self._busy or depth > MAXDEPTH or (self.b.locals[l].get("ty") not in ("bool", None, "?")):
            return self.atom("opaque", "_%d" % l)
        self._busy.add(l)
        parts = []
        for d in self.b.defs().get(l, []):
            kind, bb, j, x = d
            if kind == "stmt":
                if x["lhs"]["p"]:
                    parts = None
                    break
                val = self.of_expr(self.E.rvalue(x["rv"]), depth + 1)
            elif kind == "call":
                from .facts import callee_name
                val = self.atom("call", callee_name(x), bb, self.E.call(x, bb))
            else:
                parts = None
                break
            parts.append(("and", [self.site(bb, depth + 1), val]))
        self._busy.discard(l)
        f = ("or", parts) if parts else self.atom("opaque", "_%d" % l)
        if 1 <= l <= self.b.argc and not self.b.defs().get(l):
            f = self.atom("param", "%d:%s" % (l, self.b.local_name(l)))
        self._var[l] = f
        return f

    # ------------------------------------------------------------------ sites
    def site(self, bb, depth=0):
        """Formula of `block bb executes` (within one loop iteration; back edges are ignored)."""
        from rules import util
        lits = []
        for br, vals, e in util.guards(self.ctx, self.b, bb):
            t = self.b.blocks[br]["term"]
            if t.get("op_ty", "bool") == "bool" or e[0] in ("call", "un", "var") and self._is_boolish(e):
                f = self.of_expr(e, depth)
                truth = not (0 in vals and len(vals) == 1)
                if vals and 0 in vals and len(vals) > 1:
                    continue        # both arms lead here
                lits.append(f if truth else ("not", f))
            else:
                key = render(e, 200)
                a = self.atom("discr", "%s in %s" % (key, sorted(map(str, vals))), br, e)
                self.atoms[a[1]]["vals"] = set(vals)
                self.atoms[a[1]]["of"] = e
                lits.append(a)
        return ("and", lits)

    def _is_boolish(self, e):
        if e[0] == "call":
            t = self.b.blocks[e[3]]["term"] if len(e) > 3 and isinstance(e[3], int) else None
            return bool(t) and (t.get("dest_ty") == "bool")
        return e[0] in ("un", "var")


# ------------------------------------------------------------------------------------------------
def atoms_in(f, acc=None):
    acc = set() if acc is None else acc
    if f[0] == "atom":
        acc.add(f[1])
    elif f[0] == "not":
        atoms_in(f[1], acc)
    elif f[0] in ("and", "or"):
        for x in f[1]:
            atoms_in(x, acc)
    return acc


def evaluate(f, env):
    k = f[0]
    if k == "const":
        return f[1]
    if k == "atom":
        return env[f[1]]
    if k == "not":
        return not evaluate(f[1], env)
    if k == "and":
        return all(evaluate(x, env) for x in f[1])
    if k == "or":
        return any(evaluate(x, env) for x in f[1])
    raise ValueError(k)


def truth_table(bc, f, classify, fixed=None, limit=12):
    """Evaluate formula f on all valuations of its atoms. `classify(atom info) -> name | None | bool`:
    a name groups atoms into one specification variable (all atoms of the group take the variable's
    value), a bool fixes the atom, None leaves it as a free unknown. Returns ({spec valuation (tuple of
    (name, value))}: set of results over the free unknowns}, names, unknown atom infos)."""
    atoms = sorted(atoms_in(f))
    groups = {}
    fixed_env = {}
    free = []
    for a in atoms:
        c = classify(bc.atoms[a])
        if isinstance(c, bool):
            fixed_env[a] = c
        elif c is None:
            free.append(a)
        else:
            groups.setdefault(c, []).append(a)
    names = sorted(groups)
    if len(names) + len(free) > limit:
        raise ValueError("too many atoms (%d)" % (len(names) + len(free)))
    table = {}
    for vals in itertools.product((False, True), repeat=len(names)):
        res = set()
        for fv in itertools.product((False, True), repeat=len(free)):
            env = dict(fixed_env)
            for n, v in zip(names, vals):
                for a in groups[n]:
                    env[a] = v
            for a, v in zip(free, fv):
                env[a] = v
            res.add(evaluate(f, env))
        table[tuple(zip(names, vals))] = res
    return table, names, [bc.atoms[a] for a in free]
