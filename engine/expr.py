"""Symbolic expressions of MIR values: a local that has exactly one definition is replaced by the
expression that defines it (references and trivial casts are transparent), so that
`_7 = &(*_2); _8 = strip_prefix(move _7, "<="); _9 = discriminant(_8)` reads as
discr(call strip_prefix(P1.trim(), "<=")).  Used by the decision-table rules (A4) and by the local
pattern rules.  Expressions are nested tuples:

  ("const", value)                      ("param", i, name)         ("var", l, name)
  ("upvar", name)                       ("proj", base, (fields…))
  ("call", callee, (args…), bb)         ("bin", op, a, b)          ("un", op, a)
  ("discr", e)                          ("agg", label, (ops…))     ("cast", kind, e)
"""
import re
from .facts import callee_name

TRANSPARENT_CASTS = ("PointerCoercion(Unsize)", "PointerCoercion(MutToConstPointer)", "PtrToPtr", "Transmute")


class Expr:
    def __init__(self, facts, body, maxdepth=14):
        self.facts = facts
        self.body = body
        self.maxdepth = maxdepth

    def operand(self, op, depth=0):
        if "k" in op:
            k = op["k"]
            if "fn" in k:
                return ("const", "fn:" + k["fn"])
            v = self.facts.const_str(k)
            if v is not None:
                return ("const", v)
            if "promoted" in k and k.get("uneval") and depth < self.maxdepth:
                pb = self.facts.bodies.get("%s::{promoted#%d}" % (k["uneval"], k["promoted"]))
                if pb is not None and pb is not self.body:
                    return Expr(self.facts, pb, self.maxdepth).local(0, depth + 1)
            iv = self.facts.const_int(k)
            if iv is not None:
                if "sint" in k:
                    return ("const", k["sint"])
                return ("const", iv)
            return ("const", k.get("text", "?"))
        pl = op.get("c") or op.get("m")
        if pl is None:
            return ("var", -1, "?")
        return self.place(pl, depth)

    def place(self, pl, depth=0):
        base = self.local(pl["l"], depth)
        fields = []
        for e in pl["p"]:
            if isinstance(e, dict):
                if "f" in e:
                    fields.append(e["f"])
                elif "dc" in e:
                    fields.append("as:" + str(e["dc"]))
                elif "idx" in e:
                    fields.append("[_%d]" % e["idx"])
                elif "cidx" in e:
                    fields.append("[%d]" % e["cidx"])
                elif "sub_from" in e:
                    fields.append("[%d..]" % e["sub_from"])
        if not fields:
            return base
        if self.body.kind == "Closure" and pl["l"] == 1 and fields[0].startswith("upvar:"):
            base = ("upvar", fields[0][6:])
            fields = fields[1:]
            if not fields:
                return base
        if base[0] == "proj":
            return ("proj", base[1], tuple(base[2]) + tuple(fields))
        # projection out of an aggregate we can see: pick the operand
        if base[0] == "agg" and fields:
            names = base[3] if len(base) > 3 else None
            f0 = fields[0]
            if f0.startswith("as:") and len(fields) > 1:
                f0 = fields[1]
                rest = fields[2:]
            else:
                rest = fields[1:]
            if names and f0 in names:
                sub = base[2][names.index(f0)]
                return sub if not rest else ("proj", sub, tuple(rest))
            if f0.isdigit() and int(f0) < len(base[2]):
                sub = base[2][int(f0)]
                return sub if not rest else ("proj", sub, tuple(rest))
        return ("proj", base, tuple(fields))

    def local(self, l, depth=0):
        b = self.body
        name = b.locals[l].get("name")
        if b.locals[l].get("as_upvar"):
            return ("upvar", b.locals[l]["as_upvar"])
        if 1 <= l <= b.argc and not b.defs().get(l):
            return ("param", l, name or "_%d" % l)
        if depth >= self.maxdepth:
            return ("var", l, name or "_%d" % l)
        sd = b.single_def(l)
        if sd is None:
            return ("var", l, name or "_%d" % l)
        kind, bb, j, x = sd
        if kind == "stmt":
            return self.rvalue(x["rv"], depth + 1)
        if kind == "call":
            return self.call(x, bb, depth + 1)
        return ("var", l, name or "_%d" % l)

    def call(self, t, bb, depth=0):
        args = tuple(self.operand(a, depth) for a in t["args"])
        # `anyhow::ensure!(c)` tests `anyhow::__private::not(c)`: plain negation
        if callee_name(t) == "anyhow::__private::not" and len(args) == 1:
            return ("un", "Not", args[0])
        return ("call", callee_name(t), args, bb)

    def rvalue(self, rv, depth=0):
        k = rv["k"]
        if k == "use":
            return self.operand(rv["op"], depth)
        if k in ("ref", "rawptr"):
            return self.place(rv["place"], depth)
        if k == "cast":
            inner = self.operand(rv["op"], depth)
            if rv["kind"] in TRANSPARENT_CASTS:
                return inner
            return ("cast", rv["kind"], inner)
        if k == "bin":
            return ("bin", rv["op"], self.operand(rv["a"], depth), self.operand(rv["b"], depth))
        if k == "un":
            return ("un", rv["op"], self.operand(rv["a"], depth))
        if k == "discr":
            return ("discr", self.place(rv["place"], depth))
        if k == "agg":
            agg = rv.get("agg")
            if agg == "adt":
                label = "%s::%s" % (rv["path"], rv["variant"])
            elif agg in ("closure", "coroutine", "coroutine_closure"):
                label = "closure:" + rv["path"]
            else:
                label = agg
            return ("agg", label, tuple(self.operand(o, depth) for o in rv["ops"]), tuple(rv.get("fields") or ()))
        if k == "repeat":
            return ("agg", "repeat", (self.operand(rv["op"], depth),), ())
        return ("other", rv.get("text", k))


def render(e, maxlen=400):
    s = _render(e)
    if len(s) > maxlen:
        s = s[:maxlen] + "…"
    return s


def _short(callee):
    # keep the last two path segments of a callee for readability
    c = re.sub(r"<[^<>]*>", "", callee)
    c = re.sub(r"<[^<>]*>", "", c)
    parts = [p for p in c.split("::") if p]
    return "::".join(parts[-2:]) if len(parts) >= 2 else callee


def _render(e):
    k = e[0]
    if k == "const":
        return repr(e[1]) if isinstance(e[1], str) else str(e[1])
    if k == "param":
        return "%s" % e[2]
    if k == "var":
        return "%s" % e[2]
    if k == "upvar":
        return "^%s" % e[1]
    if k == "proj":
        return _render(e[1]) + "".join("." + f for f in e[2])
    if k == "call":
        return "%s(%s)" % (_short(e[1]), ", ".join(_render(a) for a in e[2]))
    if k == "bin":
        return "%s(%s, %s)" % (e[1], _render(e[2]), _render(e[3]))
    if k == "un":
        return "%s(%s)" % (e[1], _render(e[2]))
    if k == "discr":
        return "discr(%s)" % _render(e[1])
    if k == "agg":
        return "%s{%s}" % (_short(e[1]), ", ".join(_render(a) for a in e[2]))
    if k == "cast":
        return "cast:%s(%s)" % (e[1], _render(e[2]))
    return str(e)


def walk(e):
    """All sub-expressions (pre-order)."""
    yield e
    k = e[0]
    if k == "proj":
        yield from walk(e[1])
    elif k == "call":
        for a in e[2]:
            yield from walk(a)
    elif k == "bin":
        yield from walk(e[2])
        yield from walk(e[3])
    elif k in ("un", "cast"):
        yield from walk(e[2])
    elif k == "discr":
        yield from walk(e[1])
    elif k == "agg":
        for a in e[2]:
            yield from walk(a)


def find_calls(e, regex):
    return [x for x in walk(e) if x[0] == "call" and re.search(regex, x[1])]


def has_call(e, regex):
    return bool(find_calls(e, regex))


def consts_in(e):
    return [x[1] for x in walk(e) if x[0] == "const"]
