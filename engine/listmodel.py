"""Hooks that give `Vec` / iterator operations a meaning over *small concrete lists of symbols* in the
case analysis (engine.casewalk): a work-list algorithm is then walked on a three-element list for every
combination of per-element outcomes, and the rule compares what was asked and what is left with the
specification - whatever way the algorithm is written (pop loop + re-queue, `mem::take` + `into_iter().rev()`,
`drain(..)`, an index scan with `remove` / `swap_remove`, …).

Values:  ("list", (items…))          a Vec whose elements are known abstract values
         ("iter", (items…))          an iterator that will yield exactly these items, in this order
Both are ordinary casewalk values (hashable tuples); a local holding an iterator is updated when
`next` is called through a `&mut` to it.
"""
import re

from . import casewalk as CW
from .facts import callee_name


def lst(items):
    return ("list", tuple(items))


def itr(items):
    return ("iter", tuple(items))


def _cell(w, env, ref):
    """the place a `&mut` argument designates"""
    if ref[0] != "ref":
        return None
    return {"l": ref[1], "p": [CW._thaw(x) for x in ref[2]]}


def call_closure(w, clo, args, extra_hooks=None):
    """Value returned by a closure (or fn item) of the crate on abstract arguments: its body is walked with
    the same hooks; the result is used only if every returning path yields the same known value.
    Captured variables are unknown (TOP) - good enough for the predicates of filter / map steps."""
    if clo[0] == "closure":
        body = w.ctx.facts.body(clo[1])
        first = 2
    elif clo[0] == "fn":
        body = w.ctx.facts.body(clo[1])
        first = 1
    else:
        return None
    if body is None and clo[0] == "fn":
        # a function item of std / a dependency handed to an adaptor (`.map(str::trim)`): what the walk's own
        # hooks say about a call of it with these arguments
        tt = {"k": "call", "def": clo[1], "path": clo[1], "res": clo[1], "name": clo[1].split("::")[-1], "args": [], "arg_tys": ["?"] * len(args),
              "dest": {"l": 0, "p": []}, "dest_ty": "?", "t": None, "synthetic": True}
        for h0 in w.hooks:
            r = h0(w, -1, tt, list(args), {})
            if r is not None and r != "diverge":
                return r if r != CW.TOP else None
        return None
    if body is None or body.coroutine:
        return None
    if clo[0] == "closure" and len(clo) > 3 and clo[3]:
        from .inline import inlined
        body = inlined(w.ctx.facts, body, skip=lambda cb: False, tag="closure-mono", subst=dict(clo[3]))
    elif clo[0] == "fn" and body.kind in ("Fn", "AssocFn"):
        # a function of the crate used as a value: with its own helpers looked through
        from .inline import inlined
        body = inlined(w.ctx.facts, body, skip=lambda cb: False, tag="fn-value")
    depth = getattr(w, "_cc_depth", 0)
    if depth > 3:
        return None
    # block numbers mean something to the caller's hooks only in the caller's body: hide them
    sub = CW.Walk(w.ctx, body, [(lambda w2, bb, t2, argv2, env2, h0=h0: h0(w2, -1000 - bb, t2, argv2, env2)) for h0 in w.hooks], max_states=4000)
    sub._cc_depth = depth + 1
    rets = set()

    def on_visit(bb, env):
        tm = body.blocks[bb]["term"]
        if tm and tm["k"] == "return":
            rets.add(env.get(0, CW.TOP))
    sub.on_visit = on_visit
    env = {}
    if clo[0] == "closure" and len(clo) > 2:
        # the closure's environment: what it captured, as far as known
        env[1] = ("adt", "closure", "closure", None, tuple(clo[2]))
    for i, a in enumerate(args):
        env[first + i] = a
    try:
        sub.explore(0, env)
    except CW.Limit:
        return None
    if len(rets) == 1:
        r = next(iter(rets))
        return r if r != CW.TOP else None
    return None


def resolved(w, env, clo):
    """a closure value whose captured references are replaced by what they designate here (its body is walked
    on an environment of its own)"""
    if clo[0] == "closure":
        ups = []
        for k, x in clo[2]:
            x = w.deref_val(env, x)
            if x[0] == "closure":
                x = resolved(w, env, x)     # a captured closure captures, too
            ups.append((k, x))
        return ("closure", clo[1], tuple(ups)) + tuple(clo[3:])
    return clo


def hooks():
    def h(w, bb, t, argv, env):
        nm = callee_name(t)
        d = t.get("def") or ""
        a0 = argv[0] if argv else CW.TOP
        v0 = w.deref_val(env, a0) if argv else CW.TOP
        if re.search(r"<impl bool>::(then|then_some)$", nm) and len(argv) == 2:
            c = w.deref_val(env, argv[0])
            if not (CW.is_const(c) and c[1] in (0, 1, True, False)):
                return None
            if not c[1]:
                return CW.adt("std::option::Option", "None", 0, [])
            if nm.endswith("then_some"):
                return CW.adt("std::option::Option", "Some", 1, [("0", w.deref_val(env, argv[1]))])
            r = call_closure(w, resolved(w, env, w.deref_val(env, argv[1])), [])
            return CW.adt("std::option::Option", "Some", 1, [("0", r)]) if r is not None else None
        if re.search(r"ops::(Fn|FnMut|FnOnce)::(call|call_mut|call_once)$", nm) and len(argv) in (1, 2):
            # a call of a closure / function held in a variable (a predicate passed down as `impl Fn(..)`)
            clo = resolved(w, env, w.deref_val(env, argv[0]))
            args = w.deref_val(env, argv[1]) if len(argv) == 2 else ("tuple", ())
            if args == () or args == CW.const(()):
                args = ("tuple", ())
            if clo[0] in ("closure", "fn") and args[0] == "tuple":
                return call_closure(w, clo, [w.deref_val(env, x) for x in args[1]])
            return None
        # ---------------------------------------------------------------- constructors
        if re.search(r"vec::Vec::<T>::(new|with_capacity)$", nm):
            return lst(())
        # ---------------------------------------------------------------- Vec by &mut
        if re.search(r"vec::Vec::<T, A>::pop$", nm) and v0[0] == "list":
            cell = _cell(w, env, a0)
            if cell is None:
                return None
            items = v0[1]
            w.mut_handled = True
            if not items:
                return CW.adt("std::option::Option", "None", 0, [])
            w.write_place(env, cell, lst(items[:-1]))
            return CW.adt("std::option::Option", "Some", 1, [("0", items[-1])])
        if re.search(r"vec::Vec::<T, A>::push$", nm) and v0[0] == "list" and len(argv) > 1:
            cell = _cell(w, env, a0)
            if cell is None:
                return None
            if len(v0[1]) >= 8 and argv[1] == CW.TOP and all(x == CW.TOP for x in v0[1][-3:]):
                # widening: a list that keeps growing by unknown elements (a loop over an unknown iterator)
                # becomes an unknown list, so that the walk reaches a fixed point
                w.write_place(env, cell, CW.TOP)
            else:
                w.write_place(env, cell, lst(v0[1] + (argv[1],)))
            w.mut_handled = True
            return CW.const(0)
        if re.search(r"vec::Vec::<T, A>::(swap_remove|remove)$", nm) and v0[0] == "list" and len(argv) > 1:
            i = w.deref_val(env, argv[1])
            cell = _cell(w, env, a0)
            if cell is None or not CW.is_const(i) or not isinstance(i[1], int) or not (0 <= i[1] < len(v0[1])):
                return None
            items = list(v0[1])
            x = items[i[1]]
            if nm.endswith("swap_remove"):
                items[i[1]] = items[-1]
                items.pop()
            else:
                del items[i[1]]
            w.write_place(env, cell, lst(items))
            w.mut_handled = True
            return x
        if re.search(r"vec::Vec::<T, A>::(clear|truncate)$", nm) and v0[0] == "list":
            cell = _cell(w, env, a0)
            if cell is None:
                return None
            keep = 0
            if nm.endswith("truncate"):
                k = w.deref_val(env, argv[1]) if len(argv) > 1 else CW.TOP
                if not CW.is_const(k):
                    return None
                keep = k[1]
            w.write_place(env, cell, lst(v0[1][:keep]))
            w.mut_handled = True
            return CW.const(0)
        if re.search(r"Extend<.*>>?::extend$|vec::Vec::<T, A>::(append|extend_from_slice)$", nm) and v0[0] == "list" and len(argv) > 1:
            other = w.deref_val(env, argv[1])
            cell = _cell(w, env, a0)
            if cell is None or other[0] not in ("list", "iter"):
                return None
            w.write_place(env, cell, lst(v0[1] + other[1]))
            if nm.endswith("::append") and argv[1][0] == "ref":
                w.write_place(env, _cell(w, env, argv[1]), lst(()))
            w.mut_handled = True
            return CW.const(0)
        if re.search(r"vec::Vec::<T, A>::drain$", nm) and v0[0] == "list":
            cell = _cell(w, env, a0)
            if cell is None:
                return None
            # only the full range keeps the model exact
            rng = w.deref_val(env, argv[1]) if len(argv) > 1 else CW.TOP
            if not (rng[0] == "adt" and str(rng[2]).endswith("RangeFull")):
                return None
            w.write_place(env, cell, lst(()))
            w.mut_handled = True
            return itr(v0[1])
        if re.search(r"mem::take$", nm) and v0[0] == "list":
            cell = _cell(w, env, a0)
            if cell is None:
                return None
            w.write_place(env, cell, lst(()))
            w.mut_handled = True
            return v0
        if re.search(r"mem::replace$", nm) and v0[0] == "list" and len(argv) > 1:
            cell = _cell(w, env, a0)
            if cell is None:
                return None
            w.write_place(env, cell, argv[1])
            w.mut_handled = True
            return v0
        # ---------------------------------------------------------------- reads
        if re.search(r"(HashMap::<K, V>|BTreeMap::<K, V>)::(new|with_capacity)$|HashMap::<K, V, S>::(with_hasher|with_capacity_and_hasher|default)$", nm):
            return lst(())
        if re.search(r"(HashMap::<K, V, S, A>|BTreeMap::<K, V, A>)::insert$", nm) and v0[0] == "list" and len(argv) > 2:
            cell = _cell(w, env, a0)
            k = w.deref_val(env, argv[1])
            if cell is None or k == CW.TOP:
                return None
            items = [x for x in v0[1] if not (x[0] == "tuple" and x[1][0] == k)]
            old = [x for x in v0[1] if x[0] == "tuple" and x[1][0] == k]
            w.write_place(env, cell, lst(items + [("tuple", (k, argv[2]))]))
            w.mut_handled = True
            return CW.adt("std::option::Option", "Some", 1, [("0", old[0][1][1])]) if old else CW.adt("std::option::Option", "None", 0, [])
        if re.search(r"HashMap::<K, V, S, A>::(values|into_values)$", nm) and v0[0] == "list":
            return itr(tuple(x[1][1] for x in v0[1] if x[0] == "tuple" and len(x[1]) == 2))
        if re.search(r"HashMap::<K, V, S, A>::(keys|into_keys)$", nm) and v0[0] == "list":
            return itr(tuple(x[1][0] for x in v0[1] if x[0] == "tuple" and len(x[1]) == 2))
        if re.search(r"HashMap::<K, V, S, A>::(iter|iter_mut|drain)$", nm) and v0[0] == "list":
            return itr(v0[1])
        if re.search(r"HashMap::<K, V, S, A>::len$", nm) and v0[0] == "list":
            return CW.const(len(v0[1]))
        if re.search(r"HashMap::<K, V, S, A>::is_empty$", nm) and v0[0] == "list":
            return CW.const(1 if not v0[1] else 0)
        if re.search(r"vec::Vec::<T, A>::(len)$|slice::<impl \[T\]>::len$", nm) and v0[0] == "list":
            return CW.const(len(v0[1]))
        if re.search(r"vec::Vec::<T, A>::is_empty$|slice::<impl \[T\]>::is_empty$", nm) and v0[0] == "list":
            return CW.const(1 if not v0[1] else 0)
        if re.search(r"ops::Index<.*>>?::index$|ops::IndexMut<.*>>?::index_mut$", nm) and v0[0] == "list" and len(argv) > 1:
            i = w.deref_val(env, argv[1])
            if CW.is_const(i) and isinstance(i[1], int) and 0 <= i[1] < len(v0[1]):
                return v0[1][i[1]]
            if i[0] == "adt" and re.search(r"ops::Range(From|To|Full)?$", str(i[1])):
                # a sub-slice by a range of known bounds
                lo = w.deref_val(env, w.field(i, "start")) if any(k == "start" for k, _ in i[4]) else CW.const(0)
                hi = w.deref_val(env, w.field(i, "end")) if any(k == "end" for k, _ in i[4]) else CW.const(len(v0[1]))
                if CW.is_const(lo) and CW.is_const(hi) and isinstance(lo[1], int) and isinstance(hi[1], int) and 0 <= lo[1] <= hi[1] <= len(v0[1]):
                    return lst(v0[1][lo[1]:hi[1]])
            return None
        if re.search(r"slice::<impl \[T\]>::(partition_point|binary_search_by)$", nm) and v0[0] == "list" and len(argv) > 1:
            # ordered searches on a known list: the closure is evaluated on every element (that its outcomes
            # are monotone along the list is a separate obligation, decided by engine.ordsearch)
            clo = resolved(w, env, w.deref_val(env, argv[1]))
            outs = []
            for x in v0[1]:
                r = call_closure(w, clo, [x])
                if r is None:
                    return None
                outs.append(r)
            if nm.endswith("partition_point"):
                k = 0
                if not all(CW.is_const(r) and r[1] in (0, 1, True, False) for r in outs):
                    return None
                bools = [bool(r[1]) for r in outs]
                if any((not a) and b for a, b in zip(bools, bools[1:])):
                    w.__dict__.setdefault("nonmonotone", []).append(("partition_point", tuple(bools)))
                for r in bools:
                    if not r:
                        break
                    k += 1
                return CW.const(k)
            if not all(r[0] == "adt" and r[1] == "std::cmp::Ordering" for r in outs):
                return None
            ranks = [{"Less": 0, "Equal": 1, "Greater": 2}.get(r[2], 9) for r in outs]
            if any(a > b for a, b in zip(ranks, ranks[1:])):
                w.__dict__.setdefault("nonmonotone", []).append(("binary_search_by", tuple(r[2] for r in outs)))
            for idx, r in enumerate(outs):
                if r[2] == "Equal":
                    return CW.adt("std::result::Result", "Ok", 0, [("0", CW.const(idx))])
            return CW.adt("std::result::Result", "Err", 1, [("0", CW.TOP)])
        if re.search(r"result::Result::<T, E>::(is_ok|is_err)$|option::Option::<T>::(is_some|is_none)$", nm) and v0[0] == "adt" and v0[2] in ("Ok", "Err", "Some", "None"):
            yes = {"is_ok": "Ok", "is_err": "Err", "is_some": "Some", "is_none": "None"}[nm.rsplit("::", 1)[1]]
            return CW.const(1 if v0[2] == yes else 0)
        if re.search(r"slice::<impl \[T\]>::(last|first)$", nm) and v0[0] == "list":
            if not v0[1]:
                return CW.adt("std::option::Option", "None", 0, [])
            return CW.adt("std::option::Option", "Some", 1, [("0", v0[1][-1] if nm.endswith("last") else v0[1][0])])
        if re.search(r"Deref>?::deref$|DerefMut>?::deref_mut$|vec::Vec::<T, A>::(as_slice|as_mut_slice)$", nm) and v0[0] == "list":
            return a0 if a0[0] == "ref" else v0
        # ---------------------------------------------------------------- iterators
        if re.search(r"IntoIterator>?::into_iter$", nm) or re.search(r"IntoIterator::into_iter$", d):
            if v0[0] == "list":
                return itr(v0[1])
            if v0[0] == "iter":
                return v0
            return None
        if re.search(r"slice::<impl \[T\]>::(iter|iter_mut)$|vec::Vec::<T, A>::(iter|iter_mut)$", nm) and v0[0] == "list":
            return itr(v0[1])
        if re.search(r"Iterator>?::(filter|map|filter_map|take_while|skip_while|inspect)$", nm) and v0[0] == "iter" and len(argv) > 1:
            clo = resolved(w, env, w.deref_val(env, argv[1]))
            kind = nm.split("::")[-1]
            outl = []
            stopped = False
            for x in v0[1]:
                if stopped:
                    break
                # predicates take the item by reference: a value stands for its own reference here
                r = call_closure(w, clo, [x])
                if r is None:
                    return None
                if kind == "map":
                    outl.append(r)
                elif kind == "inspect":
                    outl.append(x)
                elif kind == "filter_map":
                    if r[0] == "adt" and r[2] == "Some":
                        outl.append(w.field(r, "0"))
                    elif not (r[0] == "adt" and r[2] == "None"):
                        return None
                else:
                    if not (CW.is_const(r) and r[1] in (0, 1, True, False)):
                        return None
                    truth = bool(r[1])
                    if kind == "filter" and truth:
                        outl.append(x)
                    elif kind == "take_while":
                        if truth:
                            outl.append(x)
                        else:
                            stopped = True
                    elif kind == "skip_while":
                        if not truth or (outl and True):
                            outl.append(x)
            if kind == "skip_while":
                # items after the first rejected one are all kept
                outl = []
                dropping = True
                for x in v0[1]:
                    if dropping:
                        r = call_closure(w, clo, [x])
                        if r is None or not CW.is_const(r):
                            return None
                        if bool(r[1]):
                            continue
                        dropping = False
                    outl.append(x)
            return itr(outl)
        if re.search(r"Iterator>?::rev$", nm) and v0[0] == "iter":
            return itr(v0[1][::-1])
        if re.search(r"Iterator>?::enumerate$", nm) and v0[0] == "iter":
            return itr(tuple(("tuple", (CW.const(i), x)) for i, x in enumerate(v0[1])))
        if re.search(r"Iterator>?::(skip|take)$", nm) and v0[0] == "iter" and len(argv) > 1 and CW.is_const(argv[1]):
            k = argv[1][1]
            return itr(v0[1][k:] if nm.endswith("skip") else v0[1][:k])
        if re.search(r"Iterator>?::count$", nm) and v0[0] == "iter":
            return CW.const(len(v0[1]))
        if re.search(r"Iterator>?::zip$", nm) and v0[0] == "iter" and len(argv) > 1:
            o = w.deref_val(env, argv[1])
            if o[0] == "adt" and str(o[2]).startswith("RangeFrom"):
                s0 = w.field(o, "start")
                if CW.is_const(s0):
                    return itr(tuple(("tuple", (x, CW.const(s0[1] + i))) for i, x in enumerate(v0[1])))
            if o[0] in ("iter", "list"):
                return itr(tuple(("tuple", (x, y)) for x, y in zip(v0[1], o[1])))
            return None
        if re.search(r"Iterator>?::(by_ref|fuse|peekable)$", nm) and v0[0] == "iter":
            return a0 if a0[0] == "ref" else v0
        if re.search(r"iter::Peekable::<I>::peek$|iter::Peekable::<I>::peek_mut$", nm) and v0[0] == "iter":
            # looks at the next item without consuming it
            w.mut_handled = True
            if not v0[1]:
                return CW.adt("std::option::Option", "None", 0, [])
            return CW.adt("std::option::Option", "Some", 1, [("0", v0[1][0])])
        if (re.search(r"Iterator>?::next$", nm) or re.search(r"Iterator::next$", d)) and v0[0] == "iter":
            cell = _cell(w, env, a0)
            if cell is None:
                return None
            w.mut_handled = True
            if not v0[1]:
                return CW.adt("std::option::Option", "None", 0, [])
            w.write_place(env, cell, itr(v0[1][1:]))
            return CW.adt("std::option::Option", "Some", 1, [("0", v0[1][0])])
        if re.search(r"Iterator>?::collect$|FromIterator<.*>>?::from_iter$", nm) and v0[0] in ("iter", "list") and "Vec<" in (t.get("dest_ty") or ""):
            return lst(v0[1])
        return None
    return h
