"""A16 — affine offset accounting for scanners over one text (DESIGN §4.C10, rule C10.tagoffset).

A scanner walks a text with a mixture of string slices (`rest = &rest[pos + 1..]`) and integer offsets
(`offset += pos + 1`) and finally reports *absolute* byte offsets of what it found. Whether the reported
numbers are right is integer arithmetic - but linear integer arithmetic over a handful of unknowns, and
that can be decided symbolically without running anything:

* every `&str` value is a slice (off, end) of the one root text, off / end being linear forms over symbols;
  `s[a..]`, `s[..b]`, `s[a..b]`, `s.len()` are exact; `s.find(..)` yields a fresh non-negative symbol
  (the position *relative to s*); a successful `parser.parse_peek(s)` yields a remainder that is a suffix
  of s (`off(s) + m`, m fresh);
* the loop's carried variables get fresh symbols at the loop head; the only facts assumed about them are
  the affine relations between the carried slice's offset and each carried integer that hold at loop
  entry (`off(current) - offset = cursor`), and these relations are *checked* to be preserved by every
  path around the loop (an inductive invariant);
* under those relations, at every place where a tag is reported the reported start must be identical,
  as a linear form, to the offset of the slice the tag parser succeeded on; the reported end and the new
  cursor must be identical to the offset of the remainder.

Nothing is executed; values that are not slices or affine integers are unknown, and a requirement that
mentions an unknown is reported as undecided, not as satisfied."""
import re

from .cfg import cfg_of
from .facts import callee_name


def lin(c=0, **syms):
    d = {k: v for k, v in syms.items() if v}
    if c:
        d[""] = c
    return d


def ladd(a, b, k=1):
    out = dict(a)
    for s, v in b.items():
        nv = out.get(s, 0) + k * v
        if nv:
            out[s] = nv
        else:
            out.pop(s, None)
    return out


def lsub(a, b):
    return ladd(a, b, -1)


def lsubst(a, sym, repl):
    """a with `sym` replaced by the linear form repl"""
    if sym not in a:
        return dict(a)
    k = a[sym]
    out = {s: v for s, v in a.items() if s != sym}
    return ladd(out, repl, k)


def lshow(a):
    if not a:
        return "0"
    parts = []
    for s in sorted(a, key=lambda x: (x == "", x)):
        v = a[s]
        if s == "":
            parts.append(str(v))
        elif v == 1:
            parts.append(s)
        elif v == -1:
            parts.append("-" + s)
        else:
            parts.append("%d*%s" % (v, s))
    return " + ".join(parts).replace("+ -", "- ")


class Unknown(Exception):
    pass


class Infeasible(Exception):
    """the path takes an arm that the value tested there (a known Some / Ok / None) rules out"""


class Scanner:
    """Symbolic execution of straight paths of one body."""

    def __init__(self, ctx, body):
        self.ctx = ctx
        self.b = body
        self.cfg = cfg_of(body)
        self.fresh = 0

    def sym(self, prefix, bi):
        # one symbol per producing call site: re-running a path names the same quantities alike
        return "%s@bb%d" % (prefix, bi)

    # ------------------------------------------------------------------ reading
    def const_of(self, op):
        k = op.get("k")
        if isinstance(k, dict):
            if "int" in k and k.get("ty") not in ("bool",):
                return ("int", lin(k["int"]))
            s = self.ctx.facts.const_str(k)
            if s is not None:
                return ("cstr", s)
        return None

    def operand(self, env, op):
        c = self.const_of(op)
        if c is not None:
            return c
        pl = op.get("c") or op.get("m")
        if pl is None:
            return None
        return self.place(env, pl)

    def is_self(self, env, l):
        return (l == 1 and self.b.argc >= 1 and re.search(r"^&(mut )?", self.b.local_ty(1) or "") is not None and 1 not in env) or env.get(l) == ("self",)

    def place(self, env, pl):
        v = env.get(pl["l"])
        if v is None and self.b.locals[pl["l"]].get("as_upvar"):
            # a stand-in for a variable captured by a closure that was inlined inside another closure: the
            # variable of that name in the enclosing function
            nm = self.b.locals[pl["l"]]["as_upvar"]
            for l2, loc in enumerate(self.b.locals):
                if l2 != pl["l"] and loc.get("name") == nm and not loc.get("synthetic") and env.get(l2) is not None:
                    v = env[l2]
                    break
        if self.is_self(env, pl["l"]) and not any(isinstance(e, dict) and "f" in e for e in pl["p"]):
            return ("self",)
        if self.is_self(env, pl["l"]) and any(isinstance(e, dict) and "f" in e for e in pl["p"]):
            # a field of `self`: one cell per field name
            fields = tuple(str(e["f"]) for e in pl["p"] if isinstance(e, dict) and "f" in e)
            return env.get(("self",) + fields, ("selffield",) + fields)
        for e in pl["p"]:
            if e == "deref":
                continue
            if isinstance(e, dict) and "dc" in e:
                if v is not None and v[0] == "opt":
                    continue            # the payload is taken by the following field projection
                continue
            if isinstance(e, dict) and "f" in e:
                f = str(e["f"])
                if v is None:
                    return None
                if v[0] == "opt":
                    v = v[1] if f == "0" else None
                elif v[0] == "tuple":
                    v = v[1][int(f)] if f.isdigit() and int(f) < len(v[1]) else None
                elif v[0] == "range":
                    v = {"start": v[1], "end": v[2]}.get(f)
                elif v[0] == "rec":
                    v = v[1].get(f)
                else:
                    return None
                continue
            return None
        return v

    def as_int(self, v):
        if v is not None and v[0] == "int":
            return v[1]
        if v is not None and v[0] == "selffield":
            return lin(**{"self." + ".".join(v[1:]): 1})
        raise Unknown("not an affine integer: %r" % (v,))

    def as_str(self, v):
        if v is not None and v[0] == "str":
            return v
        if v is not None and v[0] == "selffield":
            # a text held by `self` (the scanned source): the root
            return ("str", lin(), lin(**{"len(%s)" % ".".join(v[1:]): 1}))
        raise Unknown("not a slice of the text: %r" % (v,))

    # ------------------------------------------------------------------ one block
    def step_stmt(self, env, s):
        if s["k"] != "assign":
            return
        lhs = s["lhs"]
        rv = s["rv"]
        val = None
        try:
            k = rv["k"]
            if k == "use" or k == "cast":
                val = self.operand(env, rv["op"])
            elif k in ("ref", "rawptr"):
                val = self.place(env, rv["place"])
            elif k == "bin":
                op = rv["op"]
                base = op.replace("WithOverflow", "").replace("Unchecked", "")
                if base in ("Add", "Sub"):
                    a = self.as_int(self.operand(env, rv["a"]))
                    b = self.as_int(self.operand(env, rv["b"]))
                    r = ("int", ladd(a, b, 1 if base == "Add" else -1))
                    val = ("tuple", (r, None)) if op.endswith("WithOverflow") else r
            elif k == "agg":
                path = rv.get("path") or ""
                if re.search(r"ops::RangeFrom$|RangeFrom$", path) and len(rv["ops"]) == 1:
                    val = ("range", self.operand(env, rv["ops"][0]), None)
                elif re.search(r"ops::RangeTo$|RangeTo$", path) and len(rv["ops"]) == 1:
                    val = ("range", None, self.operand(env, rv["ops"][0]))
                elif re.search(r"ops::Range$|::Range$", path) and len(rv["ops"]) == 2:
                    val = ("range", self.operand(env, rv["ops"][0]), self.operand(env, rv["ops"][1]))
                elif rv.get("agg") == "tuple":
                    val = ("tuple", tuple(self.operand(env, o) for o in rv["ops"]))
                elif rv.get("variant") in ("Some", "Ok") and rv["ops"]:
                    val = ("opt", self.operand(env, rv["ops"][0]), True)      # built here: known to be the success variant
                elif rv.get("variant") == "None" and path.endswith("option::Option") and not rv["ops"]:
                    val = ("nil",)
                elif rv.get("agg") == "adt" and path.startswith("blockwatch::") and rv.get("fields") and not path.endswith("tag_parser::BlockTag"):
                    # a record of the crate's own (`TagMatch { kind, range }`): its fields, by name
                    val = ("rec", dict(zip(rv["fields"], [self.operand(env, o) for o in rv["ops"]])))
        except Unknown:
            val = None
        if self.is_self(env, lhs["l"]) and any(isinstance(e, dict) and "f" in e for e in lhs["p"]):
            fields = tuple(str(e["f"]) for e in lhs["p"] if isinstance(e, dict) and "f" in e)
            env[("self",) + fields] = val
            return
        if not lhs["p"]:
            env[lhs["l"]] = val
        elif all(e == "deref" for e in lhs["p"]):
            env[lhs["l"]] = val
        else:
            env[lhs["l"]] = None

    def step_call(self, env, bi, t):
        nm = callee_name(t)
        dest = t["dest"]
        args = t["args"]
        val = None
        try:
            if re.search(r"<impl str>::len$|string::String::len$", nm) and args:
                s = self.as_str(self.operand(env, args[0]))
                val = ("int", lsub(s[2], s[1]))
            elif re.search(r"<impl str>::(find|rfind)$", nm) and args:
                s0 = self.as_str(self.operand(env, args[0]))
                val = ("opt", ("int", lin(**{self.sym("pos", bi): 1})))
                env[("found",)] = ladd(s0[1], lin(**{self.sym("pos", bi): 1}))
            elif re.search(r"Index<.*> for str>::index$|ops::Index<.*>>?::index$", nm) and len(args) == 2:
                s = self.as_str(self.operand(env, args[0]))
                r = self.operand(env, args[1])
                if r is not None and r[0] == "range":
                    off = ladd(s[1], self.as_int(r[1])) if r[1] is not None else s[1]
                    end = ladd(s[1], self.as_int(r[2])) if r[2] is not None else s[2]
                    val = ("str", off, end)
            elif re.search(r"winnow::Parser::parse_peek$|winnow::Parser::parse_next$", nm) and len(args) == 2:
                s = self.as_str(self.operand(env, args[1]))
                m = self.sym("m", bi)
                rem = ("str", ladd(s[1], lin(**{m: 1})), s[2])
                pty = (t.get("arg_tys") or [""])[0]
                taken = ("str", s[1], rem[1])
                if re.search(r"::With(Taken|Recognized)<", pty):
                    # `parser.with_taken()`: the output paired with the slice that was consumed
                    val = ("opt", ("tuple", (rem, ("tuple", (None, taken)))))
                elif re.search(r"::(Take|Recognize)<", pty):
                    val = ("opt", ("tuple", (rem, taken)))
                else:
                    val = ("opt", ("tuple", (rem, None)))
                env[("peek", bi)] = (s, rem)
            elif re.search(r"<impl str>::(match_indices|char_indices)$", nm) and args:
                # an iterator of (position relative to s, ..) pairs
                val = ("positions", self.as_str(self.operand(env, args[0])))
            elif re.search(r"IntoIterator>?::into_iter$|Iterator::(by_ref|peekable|fuse)$", nm) and args:
                v0 = self.operand(env, args[0])
                val = v0 if v0 is not None and v0[0] == "positions" else None
            elif re.search(r"Iterator>?::next$", nm) and args:
                v0 = self.operand(env, args[0])
                if v0 is not None and v0[0] == "positions":
                    val = ("opt", ("tuple", (("int", lin(**{self.sym("pos", bi): 1})), None)))
                    env[("found",)] = ladd(v0[1][1], lin(**{self.sym("pos", bi): 1}))
            elif re.search(r"Deref>?::deref$|AsRef<str>>?::as_ref$|String::as_str$|Borrow<str>>?::borrow$", nm) and args:
                val = self.operand(env, args[0])
            elif re.search(r"result::Result::<T, E>::(ok|map_err)$|option::Option::<T>::(ok_or|ok_or_else)$|anyhow::Context.*::(context|with_context)$|ops::Try>?::branch$", nm) and args:
                # the success payload travels on unchanged (which arm is taken is the path's business)
                v0 = self.operand(env, args[0])
                val = v0 if v0 is not None and v0[0] == "opt" else None
            elif re.search(r"<impl str>::(trim\w*|strip_\w+|split\w*|get)$", nm):
                val = None
        except Unknown:
            val = None
        if not dest["p"]:
            env[dest["l"]] = val

    def run(self, path, env):
        """executes the blocks of `path` in order (terminator calls of every block but the last included)"""
        env = dict(env)
        dmap = {}
        for i, bb in enumerate(path):
            blk = self.b.blocks[bb]
            for s in blk["stmts"]:
                if s["k"] == "assign" and not s["lhs"]["p"]:
                    dmap.pop(s["lhs"]["l"], None)
                    rv = s["rv"]
                    if rv["k"] == "discr" and not [e for e in rv["place"]["p"] if e != "deref"]:
                        v = env.get(rv["place"]["l"])
                        ty = re.sub(r"^&(mut )?", "", self.b.local_ty(rv["place"]["l"]))
                        if v is not None and v[0] == "opt" and len(v) > 2 and ty.startswith("std::option::Option<"):
                            dmap[s["lhs"]["l"]] = 1
                        elif v is not None and v[0] == "opt" and len(v) > 2 and ty.startswith(("std::result::Result<", "std::ops::ControlFlow<")):
                            dmap[s["lhs"]["l"]] = 0     # Ok / Continue
                        elif v is not None and v[0] == "nil" and ty.startswith("std::option::Option<"):
                            dmap[s["lhs"]["l"]] = 0
                self.step_stmt(env, s)
            t = blk["term"]
            if t and t["k"] == "call" and i + 1 < len(path):
                self.step_call(env, bb, t)
            elif t and t["k"] == "switch" and i + 1 < len(path):
                pl = t["op"].get("c") or t["op"].get("m")
                if pl and not pl["p"] and pl["l"] in dmap:
                    want = dict(zip(t["vals"], t["targets"])).get(dmap[pl["l"]], t["otherwise"])
                    if path[i + 1] != want:
                        raise Infeasible()
        return env


def _successful_peek(b, p, peeks):
    """The tag attempt (block of a `parse_peek`) whose success the path `p` goes through last: the result -
    as it is, or passed through `.ok()`, `?`, `map_err`, a move - is tested and the path takes the success arm."""
    tagged = {}     # local -> peek block
    disc = {}       # local holding a discriminant -> (peek block, type of the tested value)
    ok_peek = None

    def whole(op):
        pl = op.get("c") or op.get("m") if isinstance(op, dict) else None
        return pl["l"] if pl and not [e for e in pl["p"] if e != "deref"] else None
    for i, bb in enumerate(p):
        blk = b.blocks[bb]
        for s in blk["stmts"]:
            if s["k"] != "assign" or s["lhs"]["p"]:
                continue
            rv = s["rv"]
            l = s["lhs"]["l"]
            tagged.pop(l, None)
            disc.pop(l, None)
            if rv["k"] == "use" and whole(rv["op"]) in tagged:
                tagged[l] = tagged[whole(rv["op"])]
            elif rv["k"] == "discr" and not [e for e in rv["place"]["p"] if e != "deref"] and rv["place"]["l"] in tagged:
                disc[l] = (tagged[rv["place"]["l"]], b.local_ty(rv["place"]["l"]))
        t = blk["term"]
        if not t or i + 1 >= len(p):
            continue
        if t["k"] == "call":
            if bb in peeks and not t["dest"]["p"]:
                tagged[t["dest"]["l"]] = bb
            elif t["args"] and whole(t["args"][0]) in tagged and not t["dest"]["p"] and re.search(
                    r"result::Result::<T, E>::(ok|map_err)$|option::Option::<T>::(ok_or|ok_or_else)$|anyhow::Context.*::(context|with_context)$|ops::Try>?::branch$", callee_name(t)):
                tagged[t["dest"]["l"]] = tagged[whole(t["args"][0])]
        elif t["k"] == "switch":
            l = whole(t["op"])
            if l in disc:
                pk, ty = disc[l]
                ty = re.sub(r"^&(mut )?", "", ty)
                good = 1 if ty.startswith("std::option::Option<") else 0
                arms = dict(zip(t["vals"], t["targets"]))
                taken = [v for v, tg in arms.items() if tg == p[i + 1]]
                if taken == [good] or (not taken and good not in arms and len(arms) == 1):
                    ok_peek = pk
    return ok_peek


def scanner_report(ctx, body):
    """[(ok | None, message)] for the tag scanner `body`: None = a requirement could not be decided."""
    b = body
    S = Scanner(ctx, b)
    cfg = S.cfg
    peeks = [bi for bi, t in b.calls() if re.search(r"winnow::Parser::parse_peek$", callee_name(t)) and bi in cfg.reachable]
    if not peeks:
        return []
    loops = cfg.loops()
    heads = [h for h in loops if all(p in loops[h] for p in peeks)]
    if not heads:
        return [(None, "the tag attempts are not inside one loop")]
    h = min(heads, key=lambda x: len(loops[x]))
    lset = set(loops[h])
    # ---- entry state: every path from the function entry to the loop head (straight code: few)
    pre, complete = cfg.paths(0, lambda x: x == h)
    pre = [p for p in pre if p[-1] == h]
    if not pre or not complete:
        return [(None, "the code in front of the scan loop could not be enumerated")]
    entry_envs = []
    for p in pre:
        try:
            entry_envs.append(S.run(p, {}))
        except Infeasible:
            pass
    # carried locals: assigned inside the loop and live at its head (defined before it as well)
    defs = b.defs()
    carried = []
    for l, ds in defs.items():
        if isinstance(l, int) and any(d[1] in lset for d in ds) and any(d[1] not in lset for d in ds):
            carried.append(l)
    carried.sort()
    out = []
    for e0 in entry_envs:
        head = dict(e0)
        ints, strs = [], []
        for l in carried:
            v0 = e0.get(l)
            ty = b.local_ty(l)
            try:
                if v0 is not None and v0[0] == "selffield" and re.match(r"(usize|u\d+|i\d+|isize)$", ty):
                    v0 = ("int", S.as_int(v0))
                elif v0 is not None and v0[0] == "selffield" and re.match(r"&'?\w* ?str$", ty):
                    v0 = S.as_str(v0)
            except Unknown:
                v0 = None
            e0[l] = v0
            if v0 is not None and v0[0] == "int":
                head[l] = ("int", lin(**{"h#%d" % l: 1}))
                ints.append(l)
            elif v0 is not None and v0[0] == "str":
                head[l] = ("str", lin(**{"o#%d" % l: 1}), v0[2])
                strs.append(l)
            else:
                head[l] = None
        # the affine relations that hold at entry, used to eliminate the carried integers
        subst = {}
        if strs:
            s0 = strs[0]
            for v in ints:
                # h#v = o#s0 - (A0 - v0)
                k = lsub(e0[s0][1], e0[v][1])
                subst["h#%d" % v] = lsub(lin(**{"o#%d" % s0: 1}), k)
            for s in strs[1:]:
                k = lsub(e0[s0][1], e0[s][1])
                subst["o#%d" % s] = lsub(lin(**{"o#%d" % s0: 1}), k)

        def norm(a):
            for sym, repl in subst.items():
                a = lsubst(a, sym, repl)
            return a

        def name(l):
            return b.locals[l].get("name") or "_%d" % l
        # ---- paths of one iteration: from the head to the head again, or to a return
        rets = {x for x in cfg.reachable if b.blocks[x]["term"] and b.blocks[x]["term"]["k"] == "return"}
        first = [s for s in cfg.succ[h]]
        paths = []
        for f in first:
            ps, comp = cfg.paths(f, lambda x: x == h or x in rets)
            if not comp:
                return [(None, "the paths of one scan iteration could not be enumerated")]
            paths.extend([[h] + p for p in ps])
        for p in paths:
            try:
                env = S.run(p, head)
            except Infeasible:
                continue
            if p[-1] == h:
                # invariant preservation
                for v in ints:
                    if not strs:
                        continue
                    s0 = strs[0]
                    nv, ns = env.get(v), env.get(s0)
                    if nv is None or ns is None or nv[0] != "int" or ns[0] != "str":
                        out.append((None, "after one iteration `%s` / `%s` is no longer an affine value" % (name(v), name(s0))))
                        continue
                    want = lsub(e0[s0][1], e0[v][1])
                    got = norm(lsub(ns[1], nv[1]))
                    if got == norm(want):
                        out.append((True, "off(%s) - %s = %s is preserved by an iteration" % (name(s0), name(v), lshow(want))))
                    else:
                        out.append((False, "at loop entry off(%s) - %s = %s, but after an iteration that skips a `<` it is %s: `%s` no longer says where `%s` starts in the text, so every position computed from it afterwards is shifted" % (
                            name(s0), name(v), lshow(want), lshow(got), name(v), name(s0))))
                for s in strs:
                    ns = env.get(s)
                    if ns is None or ns[0] != "str" or ns[2] != e0[s][2]:
                        out.append((None, "after one iteration `%s` is no longer a suffix of the text" % name(s)))
                continue
            # a returning path: which tag attempt succeeded on it, and what is reported
            ok_peek = _successful_peek(b, p, peeks)
            if ok_peek is None:
                continue
            pts, rem = env[("peek", ok_peek)]
            # the tag parser is applied at the `<` that the search found
            fenv = S.run(p[:p.index(ok_peek) + 1], head)
            found = fenv.get(("found",))
            if found is not None:
                if norm(pts[1]) == norm(found):
                    out.append((True, "the tag parser is applied at the `<` that was found"))
                else:
                    out.append((False, "the tag parser is applied at offset %s of the text, but the `<` that was found is at offset %s (difference %s): candidate tags are tried at the wrong place" % (
                        lshow(norm(pts[1])), lshow(norm(found)), lshow(lsub(norm(pts[1]), norm(found))))))
            for bb in p:
                for s in b.blocks[bb]["stmts"]:
                    if s["k"] != "assign":
                        continue
                    rv = s["rv"]
                    if rv["k"] == "agg" and (rv.get("path") or "").endswith("tag_parser::BlockTag"):
                        fields = dict(zip(rv.get("fields") or [], rv["ops"]))
                        e2 = S.run(p[:p.index(bb) + 1], head)
                        if "tag_range" in fields:
                            r = S.operand(e2, fields["tag_range"])
                            checks = [("start of the tag range", r[1] if r and r[0] == "range" else None, pts[1], "the `<` the tag parser succeeded on"),
                                      ("end of the tag range", r[2] if r and r[0] == "range" else None, rem[1], "the end of what the tag parser consumed")]
                        elif "start_position" in fields:
                            checks = [("start position of the end tag", S.operand(e2, fields["start_position"]), pts[1], "the `<` the tag parser succeeded on")]
                        else:
                            continue
                        for what, got, want, meaning in checks:
                            try:
                                g = norm(S.as_int(got))
                            except Unknown:
                                import os
                                if os.environ.get("BW_DEBUG_MODEL"):
                                    print("affine: not affine:", what, got, "path", p, "ok_peek", ok_peek)
                                out.append((None, "the %s is not an affine value" % what))
                                continue
                            w = norm(want)
                            if g == w:
                                out.append((True, "%s = offset of %s" % (what, meaning)))
                            else:
                                out.append((False, "the reported %s is %s, but %s is at offset %s of the text (difference %s): the tag is reported at the wrong place whenever that difference is not zero" % (
                                    what, lshow(g), meaning, lshow(w), lshow(lsub(g, w)))))
            # the cursor for the next call
            cur = env.get(("self", "cursor"))
            if cur is not None:
                try:
                    g = norm(S.as_int(cur))
                    w = norm(rem[1])
                    if g == w:
                        out.append((True, "cursor := end of the consumed tag"))
                    else:
                        out.append((False, "the cursor is set to %s, but the tag that was consumed ends at offset %s: the next scan starts at the wrong place (a tag is skipped or read twice)" % (lshow(g), lshow(w))))
                except Unknown:
                    out.append((None, "the new cursor is not an affine value"))
    return out
