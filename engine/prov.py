"""A3 — provenance (origin-set) analysis over the MIR facts.

For every body a flow-insensitive, field-sensitive environment  (local, field path) -> set of origin
labels  is computed to a fixpoint. References are transparent (a reference has the origins of its
referent, writes through a reference reach the referent), crate-local callees and closures are
summarised (parameter/upvar labels are substituted at the call site), a small table models
std/third-party "wrapper" APIs whose result is (part of) an argument, and every other call yields
its own call label plus the origins of all its arguments (sound over-approximation of "derived
from").

Label = (kind, ident, path)
  ("param", i, path)        i-th parameter of the body being analysed
  ("upvar", name, path)     captured variable of a closure / async block
  ("call",  def, path)      result of a call to `def` (resolved definition path, no generics)
  ("const", text, ())       literal / constant
  ("fn",    def, ())        function item or closure value
"""
import re
from .facts import callee_name

MAXP = 5

# callee def regex -> (kind, arg index, field tuple appended when reading the argument,
#                      field tuple under which the result is stored)
# "same": result is the argument (or its given sub-part).
_IDENT = [
    (r"^STD::option::Option::<T>::(unwrap|expect|unwrap_unchecked)$", 0, ("0",), ()),
    (r"^STD::result::Result::<T, E>::(unwrap|expect)$", 0, ("0",), ()),
    (r"^STD::option::Option::<T>::(as_ref|as_mut|as_deref|as_deref_mut|cloned|copied|take)$", 0, (), ()),
    (r"^STD::option::Option::<&T>::(cloned|copied)$", 0, (), ()),
    (r"^STD::result::Result::<T, E>::(as_ref|as_mut|as_deref)$", 0, (), ()),
    (r"^<.* as STD::ops::Try>::branch$|^STD::ops::Try::branch$", 0, ("0",), ("0",)),
    (r"^<.* as STD::ops::FromResidual.*>::from_residual$|^STD::ops::FromResidual::from_residual$", 0, ("0",), ("0",)),
    (r"^<.* as STD::ops::Deref>::deref$|^STD::ops::Deref::deref$", 0, (), ()),
    (r"^<.* as STD::ops::DerefMut>::deref_mut$|^STD::ops::DerefMut::deref_mut$", 0, (), ()),
    (r"^<.* as STD::borrow::Borrow<.*>>::borrow$|^STD::borrow::Borrow::borrow$", 0, (), ()),
    (r"^<.* as STD::convert::AsRef<.*>>::as_ref$|^STD::convert::AsRef::as_ref$", 0, (), ()),
    (r"^<.* as STD::clone::Clone>::clone$|^STD::clone::Clone::clone$", 0, (), ()),
    (r"^<.* as STD::borrow::ToOwned>::to_owned$|^STD::borrow::ToOwned::to_owned$", 0, (), ()),
    (r"^<.* as STD::convert::Into<.*>>::into$|^STD::convert::Into::into$", 0, (), ()),
    (r"^<.* as STD::convert::From<.*>>::from$|^STD::convert::From::from$", 0, (), ()),
    (r"^<.* as STD::string::ToString>::to_string$|^STD::string::ToString::to_string$", 0, (), ()),
    (r"^STD::string::String::(as_str|as_mut_str|into_boxed_str)$", 0, (), ()),
    (r"^STD::path::PathBuf::as_path$|^STD::path::Path::to_path_buf$", 0, (), ()),
    (r"^STD::vec::Vec::<T, A>::(as_slice|as_mut_slice|iter|iter_mut)$", 0, (), ()),
    (r"^STD::slice::<impl \[T\]>::(iter|iter_mut)$", 0, (), ()),
    (r"^<.* as STD::iter::IntoIterator>::into_iter$|^STD::iter::IntoIterator::into_iter$", 0, (), ()),
    (r"^STD::iter::Iterator::(enumerate|rev|peekable|skip|take|by_ref|fuse)$", 0, (), ()),
    (r"^<.* as STD::iter::Iterator>::next$|^STD::iter::Iterator::next$", 0, (), ("0",)),
    (r"^STD::ops::RangeInclusive::<Idx>::start$", 0, ("start",), ()),
    (r"^STD::ops::RangeInclusive::<Idx>::end$", 0, ("end",), ()),
    (r"^STD::pin::Pin::<Ptr>::(new|new_unchecked|get_mut|as_mut|get_ref)$", 0, (), ()),
    (r"^<.* as STD::future::IntoFuture>::into_future$|^STD::future::IntoFuture::into_future$", 0, (), ()),
    (r"^STD::boxed::Box::<T>::new$|^STD::sync::Arc::<T>::new$|^STD::rc::Rc::<T>::new$", 0, (), ()),
    (r"^STD::mem::(take|replace)$", 0, (), ()),
]
_IDENT = [(re.compile(p.replace("STD::", "(?:core|std|alloc)::")), a, rf, wf) for (p, a, rf, wf) in _IDENT]


def label_str(lab):
    kind, ident, path = lab
    base = {"param": "P%s", "upvar": "U:%s", "call": "call:%s", "const": "K:%s", "fn": "fn:%s"}[kind] % (ident,)
    return base + "".join("." + p for p in path)


def labels_str(labs, limit=12):
    ls = sorted(label_str(l) for l in labs)
    if len(ls) > limit:
        ls = ls[:limit] + ["…+%d" % (len(ls) - limit)]
    return ls


def has_field(labs, name):
    return any(name in lab[2] for lab in labs)


def with_field(labs, name):
    return {lab for lab in labs if name in lab[2]}


def has_path(labs, *names):
    """Some label whose path contains `names` as a contiguous subsequence."""
    k = len(names)
    for lab in labs:
        p = lab[2]
        for i in range(len(p) - k + 1):
            if tuple(p[i:i + k]) == tuple(names):
                return True
    return False


def has_call(labs, regex):
    return any(lab[0] == "call" and re.search(regex, lab[1]) for lab in labs)


def calls_in(labs, regex):
    return {lab for lab in labs if lab[0] == "call" and re.search(regex, lab[1])}


def has_const(labs, text=None):
    return any(lab[0] == "const" and (text is None or lab[1] == text) for lab in labs)


def _extend(lab, ext):
    if not ext:
        return lab
    p = lab[2] + tuple(ext)
    return (lab[0], lab[1], p[:MAXP + 2])


def place_fields(place):
    out = []
    for e in place["p"]:
        if isinstance(e, dict):
            if "f" in e:
                out.append(e["f"])
            elif "idx" in e or "cidx" in e or "sub_from" in e:
                out.append("[]")
    return tuple(out)


def place_has_deref(place):
    return any(e == "deref" for e in place["p"])


class BodyEnv:
    def __init__(self, body):
        self.body = body
        self.env = {}   # local -> {path: set(labels)}
        self.pts = {}   # local -> set((local, path))
        self.changed = False

    def read(self, l, F):
        F = tuple(F)
        res = set()
        d = self.env.get(l)
        if d:
            for q, labs in d.items():
                # the element marker of a collection filled through `push` / `insert` is transparent: an
                # item taken out again (next, index, pop) has the fields of what was put in
                if "[]" in q:
                    q = tuple(x for x in q if x != "[]")
                lq = len(q)
                if lq <= len(F):
                    if q == F[:lq]:
                        ext = F[lq:]
                        if ext:
                            res.update(_extend(x, ext) for x in labs)
                        else:
                            res.update(labs)
                elif F == q[:len(F)]:
                    res.update(labs)
        return res

    def write(self, l, G, labs):
        if not labs:
            return
        G = tuple(G)[:MAXP]
        d = self.env.setdefault(l, {})
        cur = d.get(G)
        if cur is None:
            d[G] = set(labs)
            self.changed = True
        else:
            before = len(cur)
            cur.update(labs)
            if len(cur) != before:
                self.changed = True

    def copy(self, dl, G, sl, F):
        """dst(dl, G) <- src(sl, F), keeping sub-structure."""
        F = tuple(F)
        G = tuple(G)
        d = self.env.get(sl)
        if not d:
            return
        for q, labs in list(d.items()):
            if "[]" in q and F:
                q = tuple(x for x in q if x != "[]")
            lq = len(q)
            if lq <= len(F):
                if q == F[:lq]:
                    ext = F[lq:]
                    self.write(dl, G, {_extend(x, ext) for x in labs} if ext else labs)
            elif F == q[:len(F)]:
                self.write(dl, G + q[len(F):], labs)


class Prov:
    def __init__(self, facts):
        self.facts = facts
        self._envs = {}
        self._inprogress = set()

    # ------------------------------------------------------------------ public
    def env(self, body):
        e = self._envs.get(body.cache_id)
        if e is None:
            e = self._analyse(body)
        return e

    def read_place(self, body, place):
        env = self.env(body)
        return self._read_place(body, env, place)

    def read_operand(self, body, op):
        env = self.env(body)
        return self._read_operand(body, env, op)

    def read_local(self, body, l, fields=()):
        return self.env(body).read(l, fields)

    def resolve_upvars(self, body, labs, depth=4):
        """Translate ("upvar", name, path) labels of a closure body into the labels the captured
        variable has in the defining body (repeatedly, up to `depth` levels)."""
        out = set()
        cur_body = body
        cur = set(labs)
        for _ in range(depth):
            ups = {l for l in cur if l[0] == "upvar"}
            out |= (cur - ups)
            if not ups or not cur_body.parent:
                out |= ups
                return out
            parent = self.facts.body(cur_body.parent)
            if parent is None:
                out |= ups
                return out
            penv = self.env(parent)
            nxt = set()
            found_site = False
            for i, j, s in parent.assigns():
                rv = s["rv"]
                if rv["k"] == "agg" and rv.get("agg") in ("closure", "coroutine", "coroutine_closure") and rv.get("path") == cur_body.defpath:
                    found_site = True
                    names = rv.get("fields", [])
                    for lab in ups:
                        if lab[1] in names:
                            op = rv["ops"][names.index(lab[1])]
                            base = self._read_operand(parent, penv, op)
                            nxt |= {_extend(b, lab[2]) for b in base}
                        else:
                            out.add(lab)
            if not found_site:
                out |= ups
                return out
            cur_body = parent
            cur = nxt
        out |= cur
        return out

    # ------------------------------------------------------------------ internals
    def _read_place(self, body, env, place):
        l = place["l"]
        F = place_fields(place)
        # closure / coroutine environment
        if l == 1 and body.kind == "Closure" and F and F[0].startswith("upvar:"):
            return {("upvar", F[0][6:], tuple(F[1:])[:MAXP + 2])}
        return env.read(l, F)

    def _read_operand(self, body, env, op):
        if "c" in op:
            return self._read_place(body, env, op["c"])
        if "m" in op:
            return self._read_place(body, env, op["m"])
        if "k" in op:
            k = op["k"]
            if "fn" in k:
                return {("fn", k["fn"], ())}
            if "closure" in k:
                return {("fn", k["closure"], ())}
            v = self.facts.const_str(k)
            if v is None:
                iv = self.facts.const_int(k)
                v = str(iv) if iv is not None else k.get("text", "?")
            return {("const", v, ())}
        return set()

    def _op_place(self, op):
        if "c" in op:
            return op["c"]
        if "m" in op:
            return op["m"]
        return None

    def _copy_operand(self, body, env, dl, G, op):
        pl = self._op_place(op)
        if pl is not None and not (pl["l"] == 1 and body.kind == "Closure" and place_fields(pl)[:1] and place_fields(pl)[0].startswith("upvar:")):
            env.copy(dl, G, pl["l"], place_fields(pl))
        else:
            env.write(dl, G, self._read_operand(body, env, op))

    def _pts_closure(self, env, l, limit=64):
        """cells reachable from local `l` through chains of pointer-holding locals (a reference to an
        iterator over an array of references ... to the cells finally written)"""
        out = set()
        work = [l]
        seen = {l}
        while work and len(out) < limit:
            x = work.pop()
            for (pl, pp) in env.pts.get(x, ()):
                if (pl, pp) not in out:
                    out.add((pl, pp))
                if not pp and pl not in seen:
                    seen.add(pl)
                    work.append(pl)
        return out

    def _targets(self, body, env, place):
        """(local, path) cells a write to `place` reaches (through references)."""
        l = place["l"]
        out = []
        cur = [(l, ())]
        for e in place["p"]:
            if e == "deref":
                nxt = []
                for (cl, cp) in cur:
                    nxt.append((cl, cp))
                    for (pl, pp) in (self._pts_closure(env, cl) if not cp else ()):
                        nxt.append((pl, pp))
                cur = nxt
            elif isinstance(e, dict) and "f" in e:
                cur = [(cl, cp + (e["f"],)) for (cl, cp) in cur]
            elif isinstance(e, dict) and ("idx" in e or "cidx" in e or "sub_from" in e):
                cur = [(cl, cp + ("[]",)) for (cl, cp) in cur]
        for c in cur:
            if c not in out:
                out.append(c)
        return out

    def _analyse(self, body):
        env = BodyEnv(body)
        self._envs[body.cache_id] = env
        if body.cache_id in self._inprogress:
            return env
        self._inprogress.add(body.cache_id)
        for i in range(1, body.argc + 1):
            env.write(i, (), {("param", i, ())})
        for _round in range(40):
            env.changed = False
            for bi, b in enumerate(body.blocks):
                if b["cleanup"]:
                    continue
                for s in b["stmts"]:
                    if s["k"] == "assign":
                        self._assign(body, env, s)
                t = b["term"]
                if t and t["k"] == "call":
                    self._call(body, env, bi, t)
                elif t and t["k"] == "yield":
                    # resume argument: unknown (the task context); value yielded: ignored
                    pass
            if not env.changed:
                break
        self._inprogress.discard(body.cache_id)
        return env

    def _assign(self, body, env, s):
        lhs = s["lhs"]
        rv = s["rv"]
        k = rv["k"]
        targets = self._targets(body, env, lhs)
        if k == "use":
            for (tl, tp) in targets:
                self._copy_operand(body, env, tl, tp, rv["op"])
            # pointer copies keep their points-to set
            pl = self._op_place(rv["op"])
            if pl is not None and not lhs["p"] and all(isinstance(e, dict) and ("f" in e or "dc" in e) for e in pl["p"]):
                # (a pointer taken out of a container of pointers - `(opt as Some).0` - may be any of them)
                pts = env.pts.get(pl["l"])
                if pts:
                    cur = env.pts.setdefault(lhs["l"], set())
                    if not pts <= cur:
                        cur |= pts
                        env.changed = True
        elif k in ("ref", "rawptr"):
            pl = rv["place"]
            for (tl, tp) in targets:
                if pl["l"] == 1 and body.kind == "Closure" and place_fields(pl)[:1] and place_fields(pl)[0].startswith("upvar:"):
                    env.write(tl, tp, self._read_place(body, env, pl))
                else:
                    env.copy(tl, tp, pl["l"], place_fields(pl))
            if not lhs["p"]:
                cells = set(self._targets(body, env, pl))
                cur = env.pts.setdefault(lhs["l"], set())
                if not cells <= cur:
                    cur |= cells
                    env.changed = True
        elif k == "cast":
            for (tl, tp) in targets:
                self._copy_operand(body, env, tl, tp, rv["op"])
        elif k == "bin":
            labs = self._read_operand(body, env, rv["a"]) | self._read_operand(body, env, rv["b"])
            for (tl, tp) in targets:
                env.write(tl, tp, labs)
        elif k == "un":
            labs = self._read_operand(body, env, rv["a"])
            for (tl, tp) in targets:
                env.write(tl, tp, labs)
        elif k == "discr":
            labs = self._read_place(body, env, rv["place"])
            for (tl, tp) in targets:
                env.write(tl, tp, labs)
        elif k == "agg":
            names = rv.get("fields")
            ops = rv["ops"]
            agg = rv.get("agg")
            if not lhs["p"] and agg in ("array", "tuple", "adt"):
                # a container of pointers points where they point
                for op in ops:
                    opl = self._op_place(op)
                    if opl is not None and not opl["p"] and env.pts.get(opl["l"]):
                        cur = env.pts.setdefault(lhs["l"], set())
                        if not env.pts[opl["l"]] <= cur:
                            cur |= env.pts[opl["l"]]
                            env.changed = True
            for idx, op in enumerate(ops):
                if agg == "array":
                    fname = "[]"
                elif names and idx < len(names):
                    fname = names[idx]
                else:
                    fname = str(idx)
                for (tl, tp) in targets:
                    self._copy_operand(body, env, tl, tp + (fname,), op)
            if agg in ("closure", "coroutine", "coroutine_closure"):
                for (tl, tp) in targets:
                    env.write(tl, tp, {("fn", rv.get("path"), ())})
        elif k == "repeat":
            for (tl, tp) in targets:
                self._copy_operand(body, env, tl, tp + ("[]",), rv["op"])
        # other rvalues: no origins

    def _closure_return(self, body, env, arg_op, other_labs):
        """Labels a closure argument's return value contributes at a call site."""
        pl = self._op_place(arg_op)
        if pl is None:
            return set()
        l = pl["l"]
        adt = body.locals[l].get("adt")
        cb = self.facts.body(adt) if adt else None
        if cb is None or cb.kind != "Closure":
            return set()
        cenv = self.env(cb)
        ret = cenv.read(0, ())
        out = set()
        for lab in ret:
            if lab[0] == "upvar":
                base = env.read(l, (lab[1],))
                out |= {_extend(b, lab[2]) for b in base}
            elif lab[0] == "param":
                out |= other_labs
            else:
                out.add(lab)
        return out

    def _closure_return_struct(self, body, env, arg_op, other_labs):
        """Like _closure_return, but per field path of the closure's return value."""
        pl = self._op_place(arg_op)
        if pl is None:
            return []
        l = pl["l"]
        adt = body.locals[l].get("adt")
        cb = self.facts.body(adt) if adt else None
        if cb is None or cb.kind != "Closure":
            return []
        cenv = self.env(cb)
        res = []
        for q, labs in list(cenv.env.get(0, {}).items()):
            out = set()
            for lab in labs:
                if lab[0] == "upvar":
                    base = env.read(l, (lab[1],))
                    out |= {_extend(b, lab[2]) for b in base}
                elif lab[0] == "param":
                    out |= other_labs
                else:
                    out.add(lab)
            res.append((q, out))
        return res

    def _call(self, body, env, bi, t):
        dest = t["dest"]
        targets = self._targets(body, env, dest)
        args = t["args"]
        name = callee_name(t)
        gen = t.get("def") or name
        # 1. wrapper models
        for (rx, ai, rf, wf) in _IDENT:
            if rx.search(gen) or rx.search(name):
                if ai < len(args):
                    pl = self._op_place(args[ai])
                    for (tl, tp) in targets:
                        if pl is not None and not (pl["l"] == 1 and body.kind == "Closure" and place_fields(pl)[:1] and place_fields(pl)[0].startswith("upvar:")):
                            env.copy(tl, tp + wf, pl["l"], place_fields(pl) + rf)
                        else:
                            labs = self._read_operand(body, env, args[ai])
                            env.write(tl, tp + wf, {_extend(x, rf) for x in labs})
                    # a wrapper around a reference keeps pointing at the same cells
                    if pl is not None and not dest["p"]:
                        pts = set(self._targets(body, env, pl)) if not rf else set()
                        pts |= env.pts.get(pl["l"], set()) if not pl["p"] else set()
                        if pts:
                            cur = env.pts.setdefault(dest["l"], set())
                            if not pts <= cur:
                                cur |= pts
                                env.changed = True
                return
        call_lab = ("call", name, ())
        # 1b. constructors whose result fields are their arguments
        if re.search(r"ops::RangeInclusive::<Idx>::new$", gen) and len(args) == 2:
            for (tl, tp) in targets:
                self._copy_operand(body, env, tl, tp + ("start",), args[0])
                self._copy_operand(body, env, tl, tp + ("end",), args[1])
            return
        if re.search(r"ops::RangeInclusive::<Idx>::into_inner$", gen) and len(args) == 1:
            pl = self._op_place(args[0])
            for (tl, tp) in targets:
                if pl is not None:
                    env.copy(tl, tp + ("0",), pl["l"], place_fields(pl) + ("start",))
                    env.copy(tl, tp + ("1",), pl["l"], place_fields(pl) + ("end",))
                else:
                    labs = self._read_operand(body, env, args[0])
                    env.write(tl, tp + ("0",), {_extend(x, ("start",)) for x in labs})
                    env.write(tl, tp + ("1",), {_extend(x, ("end",)) for x in labs})
            return
        # 2. crate-local callee with a body
        cb = self.facts.body(t.get("res") or "") or self.facts.body(t.get("def") or "")
        if t.get("opaque_result"):
            cb = None       # the caller asked for this call's result as an origin of its own (a cut point)
        if cb is not None and cb.cache_id not in self._inprogress:
            cenv = self.env(cb)
            for q, labs in list(cenv.env.get(0, {}).items()):
                sub = set()
                for lab in labs:
                    if lab[0] == "param" and 1 <= lab[1] <= len(args):
                        base_op = args[lab[1] - 1]
                        pl = self._op_place(base_op)
                        is_up = pl is not None and pl["l"] == 1 and body.kind == "Closure" and place_fields(pl)[:1] and place_fields(pl)[0].startswith("upvar:")
                        if pl is not None and not is_up:
                            # structural copy: keeps the field structure of the argument
                            for (tl, tp) in targets:
                                env.copy(tl, tp + q, pl["l"], place_fields(pl) + tuple(lab[2]))
                        else:
                            base = self._read_operand(body, env, base_op)
                            sub |= {_extend(b, lab[2]) for b in base}
                    else:
                        sub.add(lab)
                for (tl, tp) in targets:
                    env.write(tl, tp + q, sub)
            for (tl, tp) in targets:
                env.write(tl, tp, {call_lab})
            # writes of the callee through &mut parameters
            for pi in range(1, cb.argc + 1):
                if pi - 1 >= len(args):
                    break
                if not cb.local_ty(pi).startswith("&mut"):
                    continue
                pl = self._op_place(args[pi - 1])
                if pl is None:
                    continue
                cells = self._targets(body, env, {"l": pl["l"], "p": pl["p"] + ["deref"]})
                for q, labs in list(cenv.env.get(pi, {}).items()):
                    sub = set()
                    for lab in labs:
                        if lab[0] == "param":
                            if lab[1] == pi:
                                continue
                            if 1 <= lab[1] <= len(args):
                                base = self._read_operand(body, env, args[lab[1] - 1])
                                sub |= {_extend(b, lab[2]) for b in base}
                        else:
                            sub.add(lab)
                    for (cl, cp) in cells:
                        env.write(cl, cp + q, sub)
            return
        # 3. everything else: own label + origins of all arguments (+ closure returns)
        labs = {call_lab}
        arg_labs = []
        for a in args:
            arg_labs.append(self._read_operand(body, env, a))
        for al in arg_labs:
            labs |= al
        non_closure = set()
        for a, al in zip(args, arg_labs):
            pl = self._op_place(a)
            is_cl = False
            if pl is not None:
                adt = body.locals[pl["l"]].get("adt")
                cbb = self.facts.body(adt) if adt else None
                is_cl = cbb is not None and cbb.kind == "Closure"
            if not is_cl:
                non_closure |= al
        payload_map = re.search(r"(option::Option|result::Result)::<.*>::(map|and_then)$", gen) is not None
        for a in args:
            if payload_map:
                # the closure's return value is the payload of the result: keep its structure
                for q, cl in self._closure_return_struct(body, env, a, non_closure):
                    for (tl, tp) in targets:
                        env.write(tl, tp + ("0",) + q, cl)
            else:
                labs |= self._closure_return(body, env, a, non_closure)
        for (tl, tp) in targets:
            env.write(tl, tp, labs)
        # weak update of &mut arguments with the other arguments' origins
        tys = t.get("arg_tys", [])
        for idx, a in enumerate(args):
            if idx < len(tys) and tys[idx].startswith("&mut"):
                pl = self._op_place(a)
                if pl is None:
                    continue
                others = set()
                for j, al in enumerate(arg_labs):
                    if j != idx:
                        others |= al
                if not others:
                    continue
                cells = self._targets(body, env, {"l": pl["l"], "p": pl["p"] + ["deref"]})
                for (cl, cp) in cells:
                    env.write(cl, cp + ("[]",), others)
