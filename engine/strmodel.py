"""Hooks that give `str` / `OsStr` / `Path` operations their meaning on *constant* strings in the case
analysis (engine.casewalk): a lookup algorithm over a file name is then walked on one concrete
representative name ("Ab.Cd.e") while the tables it consults stay abstract (answered per case).
Only total, pure string functions are modelled; anything else stays unknown (TOP)."""
import re

from . import casewalk as CW
from . import listmodel as LM
from .facts import callee_name


def _s(v):
    return v[1] if CW.is_const(v) and isinstance(v[1], str) else None


def _pat(v):
    if CW.is_const(v):
        if isinstance(v[1], str):
            return v[1]
        if isinstance(v[1], int) and 0 < v[1] < 0x110000:
            return chr(v[1])
    return None


def _some(x):
    return CW.adt("std::option::Option", "Some", 1, [("0", x)])


NONE = CW.adt("std::option::Option", "None", 0, [])


def hooks():
    def h(w, bb, t, argv, env):
        nm = callee_name(t)
        a0 = w.deref_val(env, argv[0]) if argv else CW.TOP
        s = _s(a0)
        if s is None:
            return None
        a1 = w.deref_val(env, argv[1]) if len(argv) > 1 else CW.TOP
        # identity-like conversions between string types
        if re.search(r"OsStr::(new|to_str|to_os_string|to_string_lossy)$|OsString::(as_os_str|into_string|from)$|OsString as .*From<.*>>::from$|String as .*From<.*>>::from$|ToString>?::to_string$|ToOwned>?::to_owned$|<impl str>::(to_string|to_owned|as_ref)$|PathBuf::from$|Path::new$|Path::as_os_str$|AsRef<.*>>?::as_ref$|Borrow<.*>>?::borrow$|Deref>?::deref$|Cow<.*>::(into_owned|as_ref)$", nm):
            if re.search(r"to_str$|into_string$", nm):
                return _some(a0) if nm.endswith("to_str") else CW.adt("std::result::Result", "Ok", 0, [("0", a0)])
            return a0
        if re.search(r"<impl str>::len$|String::len$|OsStr::len$", nm):
            return CW.const(len(s.encode()))
        if re.search(r"<impl str>::is_empty$|String::is_empty$|OsStr::is_empty$", nm):
            return CW.const(1 if s == "" else 0)
        if re.search(r"<impl str>::(to_lowercase|to_ascii_lowercase)$|OsStr::to_ascii_lowercase$", nm):
            return CW.const(s.lower())
        if re.search(r"<impl str>::(to_uppercase|to_ascii_uppercase)$|OsStr::to_ascii_uppercase$", nm):
            return CW.const(s.upper())
        if re.search(r"<impl str>::trim$", nm):
            return CW.const(s.strip())
        p = _pat(a1)
        if re.search(r"<impl str>::(find|rfind)$", nm) and p is not None:
            i = s.find(p) if nm.endswith("::find") else s.rfind(p)
            return _some(CW.const(len(s[:i].encode()))) if i >= 0 else NONE
        if re.search(r"<impl str>::(match_indices|rmatch_indices)$", nm) and p:
            idx = [m.start() for m in re.finditer(re.escape(p), s)]
            items = tuple(("tuple", (CW.const(len(s[:i].encode())), CW.const(p))) for i in idx)
            return LM.itr(items[::-1] if "rmatch" in nm else items)
        if re.search(r"<impl str>::(split|rsplit)$", nm) and p:
            parts = s.split(p)
            return LM.itr(tuple(CW.const(x) for x in (parts[::-1] if "rsplit" in nm else parts)))
        if re.search(r"<impl str>::(split_once|rsplit_once)$", nm) and p:
            i = s.find(p) if nm.endswith("::split_once") else s.rfind(p)
            if i < 0:
                return NONE
            return _some(("tuple", (CW.const(s[:i]), CW.const(s[i + len(p):]))))
        if re.search(r"<impl str>::(strip_prefix|strip_suffix)$", nm) and p is not None:
            if nm.endswith("prefix"):
                return _some(CW.const(s[len(p):])) if s.startswith(p) else NONE
            return _some(CW.const(s[:len(s) - len(p)])) if s.endswith(p) else NONE
        if re.search(r"<impl str>::(starts_with|ends_with|contains)$", nm) and p is not None:
            r = s.startswith(p) if nm.endswith("starts_with") else (s.endswith(p) if nm.endswith("ends_with") else p in s)
            return CW.const(1 if r else 0)
        if re.search(r"Index<.*> for str>::index$|ops::Index<.*>>?::index$|<impl str>::get$", nm) and a1[0] == "adt":
            b = s.encode()
            f = dict(a1[4])
            lo = f.get("start", CW.const(0))
            hi = f.get("end", CW.const(len(b)))
            if not (CW.is_const(lo) and CW.is_const(hi)) or not (0 <= lo[1] <= hi[1] + (1 if "Inclusive" in str(a1[2]) else 0) <= len(b) + 1):
                return None
            e = hi[1] + (1 if "Inclusive" in str(a1[2]) else 0)
            try:
                sub = b[lo[1]:e].decode()
            except UnicodeDecodeError:
                return None
            return _some(CW.const(sub)) if nm.endswith("::get") else CW.const(sub)
        if re.search(r"Path::(file_name|extension|file_stem)$", nm):
            base = s.rsplit("/", 1)[-1]
            if nm.endswith("file_name"):
                return _some(CW.const(base)) if base else NONE
            if "." in base.lstrip("."):
                stem, ext = base.rsplit(".", 1)
                return _some(CW.const(ext if nm.endswith("extension") else stem))
            return NONE if nm.endswith("extension") else _some(CW.const(base))
        if re.search(r"<impl str>::parse$|str::FromStr>?::from_str$", nm) and re.search(r"usize|u64|u32|i64|i32|u16|u8", (t.get("dest_ty") or "") + " " + " ".join(t.get("targs") or [])):
            if re.fullmatch(r"\+?\d+", s):
                return CW.adt("std::result::Result", "Ok", 0, [("0", CW.const(int(s)))])
            return CW.adt("std::result::Result", "Err", 1, [("0", CW.sym("ParseIntError"))])
        if re.search(r"<impl str>::(trim_start|trim_end)$", nm):
            return CW.const(s.lstrip() if nm.endswith("start") else s.rstrip())
        if re.search(r"<impl str>::chars$", nm):
            return LM.itr(tuple(CW.const(ord(c)) for c in s))
        if re.search(r"<impl str>::lines$", nm):
            ls = s.split("\n")
            if ls and ls[-1] == "":
                ls = ls[:-1]
            return LM.itr(tuple(CW.const(x[:-1] if x.endswith("\r") else x) for x in ls))
        if re.search(r"<impl str>::split_inclusive$", nm) and p:
            parts = [x + p for x in s.split(p)]
            parts[-1] = parts[-1][:-len(p)]
            if parts[-1] == "":
                parts = parts[:-1]
            return LM.itr(tuple(CW.const(x) for x in parts))
        if re.search(r"<impl str>::(matches|rmatches)$", nm) and p:
            return LM.itr(tuple(CW.const(p) for _ in range(s.count(p))))
        if re.search(r"<impl str>::bytes$", nm):
            return LM.itr(tuple(CW.const(x) for x in s.encode()))
        if re.search(r"<impl str>::char_indices$", nm):
            return LM.itr(tuple(("tuple", (CW.const(len(s[:i].encode())), CW.const(ord(c)))) for i, c in enumerate(s)))
        if re.search(r"<impl str>::eq_ignore_ascii_case$|<impl \[u8\]>::eq_ignore_ascii_case$", nm):
            o = _s(a1)
            if o is not None:
                fold = lambda x: "".join(chr(ord(c) + 32) if "A" <= c <= "Z" else c for c in x)     # noqa: E731 - ASCII letters only
                return CW.const(1 if fold(s) == fold(o) else 0)
            return None
        if re.search(r"cmp::PartialEq.*>::(eq|ne)$", nm):
            o = _s(a1)
            if o is not None:
                r = s == o
                return CW.const(1 if (r != nm.endswith("::ne")) else 0)
        return None
    return h
