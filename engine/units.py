"""A14 — unit (dimension) analysis of `usize` values: character counts versus byte offsets.

Every position blockwatch reports, and every index it slices a `str` with, is a *byte* offset; Rust's
type system gives a character count the same type (`usize`). This pass assigns a unit to the usize-like
locals of one body (or normalised view) by a forward, flow-insensitive fixpoint:

  CHAR  <- Iterator::count / position / rposition over an adaptor chain rooted in `str::chars()`
           (decided by the receiver's *type*: `…Chars<'_>…` and not `CharIndices`), and the index half
           of the items of `Enumerate<…Chars…>` (ditto), including closure parameters of closures
           handed to a method of such an iterator;
  BYTE  <- str::len / String::len / find / rfind / char_indices indices / len_utf8 / pointer casts /
           byte_range & start_byte/end_byte of tree-sitter;
  units propagate through copies, casts, checked/saturating arithmetic, Option/tuple wrapping and
  std helpers whose result type is usize-like; a lookup in a table (`Index::index` on a slice/Vec, `nth`)
  is a conversion and stops the propagation.

Sinks (rules.shared.sh_units): a CHAR value used as a bound of a range that indexes a `str`
(`s[a..]`, `s.get(..)`, `split_at`), and `+`/`-` between a CHAR value and a BYTE value.
"""
import re

from .facts import callee_name, callee_matches

USIZEISH = re.compile(r"^(&(mut )?)?(\?|std::option::Option<\?>|usize|std::option::Option<usize>|\(usize, bool\)|std::ops::Range(From|To|Inclusive|ToInclusive)?<usize>)$")
CHARS_TY = re.compile(r"std::str::Chars<")
ENUM_CHARS_TY = re.compile(r"std::iter::Enumerate<[^;]*std::str::Chars<")
COUNTERS = re.compile(r"(?:^|::)iter::Iterator::(count|position|rposition)$|::Iterator>::(count|position|rposition)$")
NEXT = re.compile(r"Iterator>?::(next|next_back|last|nth)$")
BYTE_SRC = re.compile(r"<impl str>::(len|find|rfind)$|string::String::len$|<impl char>::len_utf8$|tree_sitter::Node::<'tree>::(start_byte|end_byte)$|<impl str>::(as_ptr)$")
CONVERT = re.compile(r"ops::Index<.*>>::index$|ops::Index::index$|Iterator::nth$|<impl \[T\]>::get$|Vec::<T, A>::get$")
ITEM_TY = re.compile(r"\(usize, char\)|^\?$|^std::option::Option<\?>$")
STR_INDEX = re.compile(r"str::traits::<impl (std|core)::ops::Index<I> for str>::index$|<impl str>::(get|get_unchecked|get_mut)$|string::String as (std|core)::ops::Index<.*>>::index$|<str as .*Index<.*>>::index$|for str>::index$")
STR_SPLIT = re.compile(r"<impl str>::(split_at|split_at_checked|is_char_boundary|floor_char_boundary)$|string::String::(truncate|insert|insert_str|split_off|remove|drain|replace_range)$")


def _m(t, rx):
    return rx.search(t.get("def") or "") is not None or rx.search(t.get("res") or "") is not None


def _op_local(op):
    pl = op.get("c") or op.get("m")
    return pl


class Units:
    def __init__(self, ctx, body, param_items=(), per_char=False):
        """param_items: parameter indices whose value is an item `(usize, char)` of an
        `Enumerate<Chars>` (closure handed to a method of such an iterator). per_char: the body is a
        closure that a `Chars` iterator calls once per character (`fold`, `for_each`, `map`, ...)."""
        self.ctx = ctx
        self.per_char = per_char
        self.b = body
        self.char = {}      # local -> reason (span of the seed)
        self.byte = {}
        self.items = set(param_items)   # locals holding an Enumerate<Chars> item (or Option of it)
        self.seeds = []
        self._run()

    # ------------------------------------------------------------------
    def _ty(self, l):
        return self.b.locals[l].get("ty") or ""

    def _usizeish(self, l):
        return bool(USIZEISH.match(self._ty(l)))

    def _mark(self, table, l, why):
        if l not in table:
            table[l] = why
            return True
        return False

    def unit_of(self, op):
        pl = _op_local(op)
        if pl is None:
            return None, None
        l = pl["l"]
        if l in self.char:
            return "char", self.char[l]
        if l in self.byte:
            return "byte", self.byte[l]
        return None, None

    def _run(self):
        b = self.b
        # seeds
        for bi, t in b.calls():
            name = t.get("def") or callee_name(t)
            dest = t["dest"]
            if dest["p"]:
                continue
            dl = dest["l"]
            a0 = _op_local(t["args"][0]) if t["args"] else None
            a0ty = self._ty(a0["l"]) if a0 is not None else ""
            if _m(t, COUNTERS) and CHARS_TY.search(a0ty) and "CharIndices" not in a0ty:
                self._mark(self.char, dl, (bi, t["span"], "%s() over chars()" % name.split("::")[-1]))
                self.seeds.append((bi, t["span"], name.split("::")[-1]))
            elif _m(t, NEXT) and ENUM_CHARS_TY.search(a0ty) and "CharIndices" not in a0ty and ITEM_TY.search(self._ty(dl)):
                self.items.add(dl)
                self.seeds.append((bi, t["span"], "enumerate"))
            elif _m(t, BYTE_SRC):
                self._mark(self.byte, dl, (bi, t["span"], name.split("::")[-1]))
        for i in list(self.items):
            if isinstance(i, int) and i <= b.argc:
                self.seeds.append((0, b.span, "closure item"))
        # a value stepped by a constant once per character - in a closure that a `Chars` iterator calls per item,
        # or in a loop driven by `Chars::next()` - counts characters (a byte quantity would step by `len_utf8()`)
        region = None
        if self.per_char:
            region = set(range(len(b.blocks)))
        else:
            from .cfg import cfg_of
            cfg = cfg_of(b)
            region = set()
            for bi, t in b.calls():
                a0 = _op_local(t["args"][0]) if t["args"] else None
                a0ty = self._ty(a0["l"]) if a0 is not None else ""
                if _m(t, NEXT) and CHARS_TY.search(a0ty) and "CharIndices" not in a0ty and "Enumerate" not in a0ty:
                    h = cfg.innermost_loop(bi)
                    if h is not None:
                        region |= set(cfg.loops()[h])
        if region:
            for bi, j, s2 in b.assigns():
                rv = s2["rv"]
                if bi in region and not s2["lhs"]["p"] and rv["k"] == "bin" and rv["op"] in ("Add", "AddWithOverflow", "AddUnchecked"):
                    for x, y in ((rv["a"], rv["b"]), (rv["b"], rv["a"])):
                        k = y.get("k") if isinstance(y, dict) else None
                        if isinstance(k, dict) and isinstance(k.get("int"), int) and k["int"] >= 1 and k.get("ty") in ("usize", None) and _op_local(x) is not None and self._usizeish(s2["lhs"]["l"]):
                            if self._mark(self.char, s2["lhs"]["l"], (bi, s2["span"], "a value stepped by %d once per character of a chars() iteration" % k["int"])):
                                self.seeds.append((bi, s2["span"], "per-char step"))
        # propagation
        changed = True
        rounds = 0
        while changed and rounds < 50:
            changed = False
            rounds += 1
            for bi, j, s in b.assigns():
                lhs = s["lhs"]
                if lhs["p"]:
                    continue
                dl = lhs["l"]
                rv = s["rv"]
                k = rv["k"]
                srcs = []
                if k == "use":
                    srcs = [rv["op"]]
                elif k == "cast":
                    srcs = [rv["op"]]
                    if re.search(r"^\*(const|mut) ", self._ty(_op_local(rv["op"])["l"]) if _op_local(rv["op"]) else "") and self._ty(dl) == "usize":
                        changed |= self._mark(self.byte, dl, (bi, s["span"], "pointer cast"))
                elif k == "bin" and rv["op"] in ("Add", "Sub", "AddWithOverflow", "SubWithOverflow", "AddUnchecked", "SubUnchecked"):
                    srcs = [rv["a"], rv["b"]]
                elif k == "agg" and rv.get("agg") == "adt" and rv.get("path", "").endswith("option::Option"):
                    srcs = list(rv["ops"])
                elif k == "ref":
                    srcs = [{"c": rv["place"]}]
                for op in srcs:
                    pl = _op_local(op)
                    if pl is None:
                        continue
                    sl = pl["l"]
                    if sl in self.items:
                        ty = self._ty(dl)
                        if ty == "usize" or ty == "&usize":
                            # the index half: projection ends in field 0 (tuple) — the char half has type char
                            changed |= self._mark(self.char, dl, (bi, s["span"], "index of enumerate() over chars()"))
                        elif ITEM_TY.search(ty) and dl not in self.items:
                            self.items.add(dl)
                            changed = True
                        continue
                    if not self._usizeish(dl):
                        continue
                    if sl in self.char:
                        changed |= self._mark(self.char, dl, self.char[sl])
                    elif sl in self.byte and k != "bin":
                        changed |= self._mark(self.byte, dl, self.byte[sl])
                    elif sl in self.byte and dl not in self.char:
                        changed |= self._mark(self.byte, dl, self.byte[sl])
            for bi, t in b.calls():
                dest = t["dest"]
                if dest["p"]:
                    continue
                dl = dest["l"]
                name = t.get("def") or callee_name(t)
                if self.ctx.facts.body(t.get("res") or "") is not None or self.ctx.facts.body(t.get("def") or "") is not None:
                    continue        # crate-local callee: not summarised here (the views inline them)
                if _m(t, CONVERT) or _m(t, COUNTERS):
                    continue
                for a in t["args"]:
                    pl = _op_local(a)
                    if pl is None:
                        continue
                    sl = pl["l"]
                    if sl in self.items and ITEM_TY.search(self._ty(dl)) and dl not in self.items:
                        self.items.add(dl)
                        changed = True
                    if not self._usizeish(dl):
                        continue
                    if sl in self.char and self._usizeish(sl):
                        changed |= self._mark(self.char, dl, self.char[sl])
                    elif sl in self.byte and self._usizeish(sl) and dl not in self.char:
                        changed |= self._mark(self.byte, dl, self.byte[sl])

    # ------------------------------------------------------------------ sinks
    def sinks(self):
        """[(kind, bb, span, detail)] — kind 'str-index' | 'mixed-arith'; also returns the number of
        str-index sites and +/- sites examined."""
        b = self.b
        found = []
        examined = 0
        # ranges reaching a str index
        range_locals = {}
        for bi, j, s in b.assigns():
            rv = s["rv"]
            if s["lhs"]["p"]:
                continue
            if rv["k"] == "agg" and rv.get("agg") == "adt" and re.search(r"ops::Range(From|To|Inclusive|ToInclusive)?$", rv.get("path", "")):
                chars = [self.unit_of(op) for op in rv["ops"]]
                why = [w for (u, w) in chars if u == "char"]
                range_locals[s["lhs"]["l"]] = (why[0] if why else None, s["span"], bi)
        # copies of range locals
        for _ in range(3):
            for bi, j, s in b.assigns():
                rv = s["rv"]
                if rv["k"] == "use" and not s["lhs"]["p"]:
                    pl = _op_local(rv["op"])
                    if pl is not None and not pl["p"] and pl["l"] in range_locals:
                        range_locals.setdefault(s["lhs"]["l"], range_locals[pl["l"]])
        for bi, t in b.calls():
            name = t.get("def") or callee_name(t)
            if _m(t, STR_INDEX) and len(t["args"]) >= 2:
                examined += 1
                pl = _op_local(t["args"][1])
                if pl is not None and pl["l"] in range_locals and range_locals[pl["l"]][0] is not None:
                    found.append(("str-index", bi, t["span"], range_locals[pl["l"]][0]))
            elif _m(t, STR_SPLIT) and len(t["args"]) >= 2:
                examined += 1
                u, w = self.unit_of(t["args"][1])
                if u == "char":
                    found.append(("str-index", bi, t["span"], w))
        # a column of a reported position
        for bi, t in b.calls():
            if re.search(r"^blockwatch::Position::new$", t.get("res") or t.get("def") or "") and len(t["args"]) == 2:
                examined += 1
                u, w = self.unit_of(t["args"][1])
                if u == "char":
                    found.append(("position-column", bi, t["span"], w))
        for bi, j, s in b.assigns():
            rv = s["rv"]
            if rv["k"] == "agg" and rv.get("agg") == "adt" and rv.get("path") == "blockwatch::Position" and "character" in (rv.get("fields") or []):
                u, w = self.unit_of(rv["ops"][(rv.get("fields") or []).index("character")])
                if u == "char":
                    found.append(("position-column", bi, s["span"], w))
        for bi, j, s in b.assigns():
            rv = s["rv"]
            if rv["k"] == "bin" and rv["op"] in ("Add", "Sub", "AddWithOverflow", "SubWithOverflow"):
                ua, wa = self._strict_unit(rv["a"])
                ub, wb = self._strict_unit(rv["b"])
                if ua or ub:
                    examined += 1
                if {ua, ub} == {"char", "byte"}:
                    found.append(("mixed-arith", bi, s["span"], wa if ua == "char" else wb))
        return found, examined

    def _strict_unit(self, op):
        return self.unit_of(op)
