"""A small abstract/partial evaluator for MIR bodies: evaluates a (crate-local) function on chosen
inputs with *external* calls replaced by models ("hooks"). Used where a property is a finite table
over configuration values (e.g. BLOCKWATCH_LUA_MODE -> interpreter constructor, library flags,
globals removed): the code is evaluated on one representative per equivalence class of the
configuration, never on files or diffs, and blockwatch itself is not run.

Values: int, bool, str, (), tuples, lists (arrays), dicts for ADTs ({"__variant": name, fields…}),
opaque model objects (dicts with "__obj").
"""
import re

from .facts import callee_name


class Unknown(Exception):
    pass


BUILTIN_VARIANTS = {
    "std::option::Option": ["None", "Some"],
    "std::result::Result": ["Ok", "Err"],
    "std::ops::ControlFlow": ["Continue", "Break"],
    "std::task::Poll": ["Ready", "Pending"],
}


def some(x):
    return {"__variant": "Some", "__path": "std::option::Option", "0": x}


NONE = {"__variant": "None", "__path": "std::option::Option"}


def ok(x):
    return {"__variant": "Ok", "__path": "std::result::Result", "0": x}


def err(x):
    return {"__variant": "Err", "__path": "std::result::Result", "0": x}


class Interp:
    def __init__(self, facts, hooks, max_steps=5000, depth=0):
        self.facts = facts
        self.hooks = hooks          # list of (regex, fn(interp, name, args, term) -> value)
        self.max_steps = max_steps
        self.depth = depth
        self.trace = []             # external calls made (name)

    # ------------------------------------------------------------------ values
    def variant_index(self, v, adt_path=None):
        if isinstance(v, dict) and "__variant" in v:
            path = v.get("__path") or adt_path
            names = BUILTIN_VARIANTS.get(path)
            if names is None and path in self.facts.adts:
                names = [x["name"] for x in self.facts.adts[path]["variants"]]
            if names and v["__variant"] in names:
                return names.index(v["__variant"])
        raise Unknown("discriminant of %r" % (v,))

    # ------------------------------------------------------------------ evaluation of one body
    def run(self, body, args):
        if self.depth > 12:
            raise Unknown("call depth")
        loc = {}
        for i, a in enumerate(args):
            loc[i + 1] = a
        bb = 0
        steps = 0
        while True:
            steps += 1
            if steps > self.max_steps:
                raise Unknown("step limit in %s" % body.id)
            b = body.blocks[bb]
            for s in b["stmts"]:
                if s["k"] == "assign":
                    self.write(body, loc, s["lhs"], self.rvalue(body, loc, s["rv"]))
            t = b["term"]
            k = t["k"]
            if k == "return":
                return loc.get(0, ())
            if k in ("goto", "falseedge", "falseunwind", "drop"):
                bb = t["t"]
            elif k == "assert":
                c = self.operand(body, loc, t["cond"])
                if c != t["expected"]:
                    raise Unknown("assertion failure (%s)" % t.get("msg"))
                bb = t["t"]
            elif k == "switch":
                v = self.operand(body, loc, t["op"])
                if isinstance(v, bool):
                    v = 1 if v else 0
                if not isinstance(v, int):
                    raise Unknown("switch on %r" % (v,))
                nxt = t["otherwise"]
                for val, tg in zip(t["vals"], t["targets"]):
                    if val == v:
                        nxt = tg
                bb = nxt
            elif k == "call":
                name = callee_name(t)
                argv = [self.operand(body, loc, a) for a in t["args"]]
                val = self.call(body, name, t, argv)
                self.write(body, loc, t["dest"], val)
                if t["t"] is None:
                    raise Unknown("diverging call %s" % name)
                bb = t["t"]
            elif k == "unreachable":
                raise Unknown("unreachable executed")
            else:
                raise Unknown("terminator %s" % k)

    def call(self, body, name, t, argv):
        gen = t.get("def") or name
        for rx, fn in self.hooks:
            if rx.search(name) or rx.search(gen):
                self.trace.append(name)
                return fn(self, name, argv, t)
        cb = self.facts.body(t.get("res") or "") or self.facts.body(t.get("def") or "")
        if cb is not None:
            sub = Interp(self.facts, self.hooks, self.max_steps, self.depth + 1)
            sub.trace = self.trace
            return sub.run(cb, argv)
        raise Unknown("no model for external call `%s`" % name)

    # ------------------------------------------------------------------ places
    def read(self, body, loc, pl):
        l = pl["l"]
        if l not in loc:
            raise Unknown("read of uninitialised _%d in %s" % (l, body.id))
        v = loc[l]
        for e in pl["p"]:
            if e == "deref":
                continue
            if isinstance(e, dict):
                if "dc" in e:
                    continue
                if "f" in e:
                    f = e["f"]
                    if isinstance(v, dict):
                        if f not in v:
                            raise Unknown("field %s of %r" % (f, v))
                        v = v[f]
                    elif isinstance(v, (tuple, list)) and f.isdigit():
                        v = v[int(f)]
                    else:
                        raise Unknown("field %s of %r" % (f, v))
                elif "cidx" in e:
                    v = v[e["cidx"]]
                elif "idx" in e:
                    v = v[loc[e["idx"]]]
                else:
                    raise Unknown("projection %r" % (e,))
        return v

    def write(self, body, loc, pl, val):
        fields = [e for e in pl["p"] if isinstance(e, dict) and ("f" in e)]
        if not fields:
            if any(e == "deref" for e in pl["p"]) and pl["l"] in loc and isinstance(loc[pl["l"]], dict) and isinstance(val, dict):
                # write through a reference: mutate in place
                tgt = loc[pl["l"]]
                tgt.clear()
                tgt.update(val)
            else:
                loc[pl["l"]] = val
            return
        v = loc.get(pl["l"])
        for e in fields[:-1]:
            v = v[e["f"]]
        if isinstance(v, dict):
            v[fields[-1]["f"]] = val
        else:
            raise Unknown("partial write into %r" % (v,))

    def operand(self, body, loc, op):
        if "k" in op:
            k = op["k"]
            s = self.facts.const_str(k)
            if s is not None:
                return s
            if k.get("ty") == "bool" and "int" in k:
                return bool(k["int"])
            if k.get("ty") == "char" and "int" in k:
                return chr(k["int"])
            if "int" in k:
                return k.get("sint", k["int"])
            i = self.facts.const_int(k)
            if i is not None:
                return i
            if k.get("zst") or k.get("ty") == "()":
                return ()
            if "fn" in k:
                return {"__obj": "fn", "def": k["fn"]}
            if "promoted" in k and k.get("uneval"):
                pb = self.facts.bodies.get("%s::{promoted#%d}" % (k["uneval"], k["promoted"]))
                if pb is not None:
                    return Interp(self.facts, self.hooks, self.max_steps, self.depth + 1).run(pb, [])
            raise Unknown("constant %s" % k.get("text"))
        return self.read(body, loc, op.get("c") or op.get("m"))

    def rvalue(self, body, loc, rv):
        k = rv["k"]
        if k == "use":
            return self.operand(body, loc, rv["op"])
        if k in ("ref", "rawptr"):
            return self.read(body, loc, rv["place"])
        if k == "cast":
            return self.operand(body, loc, rv["op"])
        if k == "bin":
            a = self.operand(body, loc, rv["a"])
            b = self.operand(body, loc, rv["b"])
            op = rv["op"]
            if op in ("Eq", "Ne"):
                return (a == b) if op == "Eq" else (a != b)
            if not isinstance(a, (int, bool)) or not isinstance(b, (int, bool)):
                raise Unknown("binop %s on %r, %r" % (op, a, b))
            if op in ("Lt", "Le", "Gt", "Ge"):
                return {"Lt": a < b, "Le": a <= b, "Gt": a > b, "Ge": a >= b}[op]
            base = op.replace("WithOverflow", "").replace("Unchecked", "")
            r = {"Add": a + b, "Sub": a - b, "Mul": a * b, "BitAnd": a & b, "BitOr": a | b, "BitXor": a ^ b,
                 "Shl": a << b if b < 128 else 0, "Shr": a >> b}.get(base)
            if r is None:
                raise Unknown("binop %s" % op)
            if op.endswith("WithOverflow"):
                return (r, r < 0 or r > (1 << 64) - 1)
            return r
        if k == "un":
            a = self.operand(body, loc, rv["a"])
            if rv["op"] == "Not":
                return (not a) if isinstance(a, bool) else (~a & 0xFFFFFFFF)
            if rv["op"] == "Neg":
                return -a
            raise Unknown("unop %s" % rv["op"])
        if k == "discr":
            v = self.read(body, loc, rv["place"])
            return self.variant_index(v, rv.get("adt"))
        if k == "agg":
            agg = rv.get("agg")
            ops = [self.operand(body, loc, o) for o in rv["ops"]]
            if agg == "tuple":
                return tuple(ops)
            if agg == "array":
                return list(ops)
            if agg == "adt":
                d = {"__variant": rv["variant"], "__path": rv["path"]}
                for nm, o in zip(rv.get("fields") or [], ops):
                    d[nm] = o
                return d
            if agg in ("closure", "coroutine"):
                d = {"__obj": "closure", "def": rv.get("path")}
                for nm, o in zip(rv.get("fields") or [], ops):
                    d["upvar:" + nm] = o
                return d
            raise Unknown("aggregate %s" % agg)
        if k == "repeat":
            raise Unknown("array repeat")
        raise Unknown("rvalue %s" % k)


# ---------------------------------------------------------------------------------------------
# generic models of std APIs that configuration-reading code uses
# ---------------------------------------------------------------------------------------------
def _payload(v):
    if isinstance(v, dict) and v.get("__variant") in ("Ok", "Some"):
        return True, v.get("0")
    return False, None


def std_hooks():
    H = []

    def add(rx, fn):
        H.append((re.compile(rx), fn))

    ident = lambda it, n, a, t: a[0]
    add(r"Result::<T, E>::(as_deref|as_ref|as_mut)$|Option::<T>::(as_deref|as_ref|as_mut|cloned|copied)$|Option::<&T>::(cloned|copied)$", ident)
    add(r"Deref>?::deref$|DerefMut>?::deref_mut$|String::as_str$|AsRef<.*>>?::as_ref$|Borrow<.*>>?::borrow$|Clone>?::clone$|ToOwned>?::to_owned$|ToString>?::to_string$|Into<.*>>?::into$|From<.*>>?::from$|String::into_boxed_str$|str>::to_string$", ident)

    def unwrap_or(it, n, a, t):
        okp, p = _payload(a[0])
        return p if okp else a[1]
    add(r"(Result::<T, E>|Option::<T>)::unwrap_or$", unwrap_or)

    def unwrap_or_default(it, n, a, t):
        okp, p = _payload(a[0])
        return p if okp else ""
    add(r"(Result::<T, E>|Option::<T>)::unwrap_or_default$", unwrap_or_default)

    def unwrap(it, n, a, t):
        okp, p = _payload(a[0])
        if not okp:
            raise Unknown("`%s` on %s panics" % (n.split("::")[-1], a[0].get("__variant") if isinstance(a[0], dict) else a[0]))
        return p
    add(r"(Result::<T, E>|Option::<T>)::(unwrap|expect)$", unwrap)

    def is_ok(it, n, a, t):
        return _payload(a[0])[0]
    add(r"Result::<T, E>::is_ok$|Option::<T>::is_some$", is_ok)
    add(r"Result::<T, E>::is_err$|Option::<T>::is_none$", lambda it, n, a, t: not _payload(a[0])[0])
    add(r"Result::<T, E>::ok$", lambda it, n, a, t: some(a[0]["0"]) if a[0].get("__variant") == "Ok" else dict(NONE))

    def call_closure(it, clo, args):
        cb = it.facts.body(clo.get("def")) if isinstance(clo, dict) else None
        if cb is None:
            raise Unknown("closure body")
        sub = Interp(it.facts, it.hooks, it.max_steps, it.depth + 1)
        sub.trace = it.trace
        env = dict(clo)
        return sub.run(cb, [env] + list(args))

    def opt_map(it, n, a, t):
        okp, p = _payload(a[0])
        if not okp:
            return a[0]
        r = call_closure(it, a[1], [p])
        return {"__variant": a[0]["__variant"], "__path": a[0]["__path"], "0": r}
    add(r"(Option::<T>|Result::<T, E>)::map$", opt_map)

    def unwrap_or_else(it, n, a, t):
        okp, p = _payload(a[0])
        if okp:
            return p
        return call_closure(it, a[1], [] if a[0].get("__variant") == "None" else [a[0].get("0")])
    add(r"(Option::<T>|Result::<T, E>)::unwrap_or_else$", unwrap_or_else)

    def map_or(it, n, a, t):
        okp, p = _payload(a[0])
        if not okp:
            return a[1]
        return call_closure(it, a[2], [p])
    add(r"(Option::<T>|Result::<T, E>)::map_or$", map_or)

    # strings
    def s2(fn):
        def h(it, n, a, t):
            if not all(isinstance(x, str) for x in a[:2]):
                raise Unknown("string op on %r" % (a[:2],))
            return fn(*a[:2])
        return h
    add(r"PartialEq.*>::eq$|<impl str>::eq$", lambda it, n, a, t: a[0] == a[1])
    add(r"PartialEq.*>::ne$", lambda it, n, a, t: a[0] != a[1])
    add(r"<impl str>::eq_ignore_ascii_case$", s2(lambda x, y: x.lower() == y.lower()))
    add(r"<impl str>::starts_with$", s2(lambda x, y: x.startswith(y)))
    add(r"<impl str>::ends_with$", s2(lambda x, y: x.endswith(y)))
    add(r"<impl str>::contains$", s2(lambda x, y: y in x))
    add(r"<impl str>::(to_lowercase|to_ascii_lowercase)$", lambda it, n, a, t: a[0].lower())
    add(r"<impl str>::(to_uppercase|to_ascii_uppercase)$", lambda it, n, a, t: a[0].upper())
    add(r"<impl str>::trim$", lambda it, n, a, t: a[0].strip())
    add(r"<impl str>::trim_start$", lambda it, n, a, t: a[0].lstrip())
    add(r"<impl str>::trim_end$", lambda it, n, a, t: a[0].rstrip())
    add(r"<impl str>::is_empty$|String::is_empty$", lambda it, n, a, t: len(a[0]) == 0)
    add(r"<impl str>::len$|String::len$", lambda it, n, a, t: len(a[0].encode()))

    # iteration over arrays / vectors
    def into_iter(it, n, a, t):
        v = a[0]
        if isinstance(v, (list, tuple)):
            return {"__obj": "iter", "items": list(v), "pos": 0}
        if isinstance(v, dict) and v.get("__obj") == "iter":
            return v
        raise Unknown("into_iter on %r" % (v,))
    add(r"IntoIterator.*>::into_iter$|IntoIterator::into_iter$|<impl \[T\]>::iter$|Vec::<T, A>::iter$", into_iter)

    def nxt(it, n, a, t):
        v = a[0]
        if isinstance(v, dict) and v.get("__obj") == "iter":
            if v["pos"] < len(v["items"]):
                x = v["items"][v["pos"]]
                v["pos"] += 1
                return some(x)
            return dict(NONE)
        raise Unknown("next on %r" % (v,))
    add(r"Iterator>::next$|Iterator::next$", nxt)
    add(r"Default>?::default$", lambda it, n, a, t: {"__obj": "default", "ty": t.get("dest_ty")})
    add(r"ops::Try>?::branch$", lambda it, n, a, t: {"__variant": "Continue", "__path": "std::ops::ControlFlow", "0": a[0]["0"]} if a[0].get("__variant") in ("Ok", "Some") else {"__variant": "Break", "__path": "std::ops::ControlFlow", "0": a[0]})
    add(r"ops::FromResidual.*::from_residual$", lambda it, n, a, t: a[0])
    return H
