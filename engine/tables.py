"""A4 — decision tables: enumerate all paths of a loop-free body (or region) with the branch
predicates left uninterpreted and report, per path, the predicate valuation and the effect
(expression finally assigned to the return place, or the marker blocks passed)."""
from .cfg import cfg_of
from .expr import Expr, render


def _last_def_expr(facts, body, path, local=0):
    """Expression of the last whole assignment to `local` along `path`."""
    E = Expr(facts, body)
    last = None
    for bb in path:
        b = body.blocks[bb]
        for s in b["stmts"]:
            if s["k"] == "assign" and s["lhs"]["l"] == local and not s["lhs"]["p"]:
                last = E.rvalue(s["rv"])
        t = b["term"]
        if t and t["k"] == "call" and t["dest"]["l"] == local and not t["dest"]["p"]:
            last = E.call(t, bb)
    return last


def decision_table(facts, body, start=0, stop=None, limit=512):
    """Rows: {"preds": [(operand_text, value)], "ret": expr or None, "path": [...]}.
    Raises ValueError on a cycle (A4 refuses loops)."""
    cfg = cfg_of(body)
    E = Expr(facts, body)
    stop = stop or (lambda x: False)
    paths, complete = cfg.paths(start, stop, limit=limit)
    rows = []
    for p in paths:
        preds = []
        for i, bb in enumerate(p[:-1]):
            t = body.blocks[bb]["term"]
            if t and t["k"] == "switch":
                nxt = p[i + 1]
                vals = [v for v, tg in zip(t["vals"], t["targets"]) if tg == nxt]
                if t["otherwise"] == nxt and not vals:
                    # "otherwise" of a bool switch on [0] is "true"
                    if t["vals"] == [0]:
                        val = "true"
                    else:
                        val = "otherwise(not %s)" % ",".join(map(str, t["vals"]))
                else:
                    val = ",".join(map(str, vals))
                    if t.get("op_ty") == "bool":
                        val = {"0": "false", "1": "true"}.get(val, val)
                preds.append((render(E.operand(t["op"]), 400), val))
        last = body.blocks[p[-1]]["term"]
        end = last["k"] if last else "?"
        rows.append({"preds": preds, "ret": _last_def_expr(facts, body, p), "path": p, "end": end})
    return rows, complete
