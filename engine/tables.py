"""A4 — decision tables: enumerate all paths of a loop-free body (or region) with the branch
predicates left uninterpreted and report, per path, the predicate valuation and the effect
(expression finally assigned to the return place, or the marker blocks passed)."""
from .cfg import cfg_of
from .expr import Expr, render


def _last_def_expr(facts, body, path, local=0, upto=None, depth=0):
    """Expression of the last whole assignment to `local` along `path` (up to position `upto` =
    (index in path, statement index)). A plain copy of a local that is assigned on several paths (the
    return slot of an inlined helper / closure) is followed along this very path."""
    E = Expr(facts, body)
    last = None
    where = None
    for pi, bb in enumerate(path):
        b = body.blocks[bb]
        for si, s in enumerate(b["stmts"]):
            if upto is not None and (pi, si) >= upto:
                break
            if s["k"] == "assign" and s["lhs"]["l"] == local and not s["lhs"]["p"]:
                last = ("stmt", s)
                where = (pi, si)
        if upto is not None and pi >= upto[0]:
            break
        t = b["term"]
        if t and t["k"] == "call" and t["dest"]["l"] == local and not t["dest"]["p"]:
            last = ("call", t, bb)
            where = (pi, 1 << 30)
    if last is None:
        return None
    if last[0] == "call":
        return E.call(last[1], last[2])
    rv = last[1]["rv"]
    if rv["k"] == "use" and depth < 6:
        pl = rv["op"].get("c") or rv["op"].get("m")
        if pl is not None and not pl["p"] and body.single_def(pl["l"]) is None and len(body.defs().get(pl["l"], [])) > 1:
            sub = _last_def_expr(facts, body, path, pl["l"], upto=where, depth=depth + 1)
            if sub is not None:
                return sub
    return E.rvalue(rv)


def decision_table(facts, body, start=0, stop=None, limit=512):
    """Rows: {"preds": [(operand_text, value)], "ret": expr or None, "path": [...]}.
    Raises ValueError on a cycle (A4 refuses loops)."""
    cfg = cfg_of(body)
    E = Expr(facts, body)
    stop = stop or (lambda x: False)
    paths, complete = cfg.paths(start, stop, limit=limit)
    rows = []
    for p in paths:
        preds = []
        for i, bb in enumerate(p[:-1]):
            t = body.blocks[bb]["term"]
            if t and t["k"] == "switch":
                nxt = p[i + 1]
                vals = [v for v, tg in zip(t["vals"], t["targets"]) if tg == nxt]
                if t["otherwise"] == nxt and not vals:
                    # "otherwise" of a bool switch on [0] is "true"
                    if t["vals"] == [0] and t.get("op_ty", "bool") == "bool":
                        val = "true"
                    else:
                        val = "otherwise(not %s)" % ",".join(map(str, t["vals"]))
                else:
                    val = ",".join(map(str, vals))
                    if t.get("op_ty") == "bool":
                        val = {"0": "false", "1": "true"}.get(val, val)
                preds.append((render(E.operand(t["op"]), 400), val))
        last = body.blocks[p[-1]]["term"]
        end = last["k"] if last else "?"
        rows.append({"preds": preds, "ret": _last_def_expr(facts, body, p), "path": p, "end": end})
    return rows, complete
