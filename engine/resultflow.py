"""A5 — result-flow: every `Result` produced at a call site is followed to its consumers.

Verdict per producer site, from the set of consumer classes found:
  returned      flows into the body's return place (incl. the return value of a closure / async block)
  try           consumed by `?` (Try::branch)
  adaptor       handed to an adaptor that keeps the Err (map, map_err, and_then, context, …) or to a
                wrapper (as_ref, Pin::new, into_future, poll …) whose own result is tracked separately
  match-ok      matched; every path from the Err arm to a return assigns an Err to the return place
  match-swallow matched; some path from the Err arm reaches a return (or loops on) without returning Err
  swallow:<fn>  handed to a consumer that discards the Err (ok, unwrap_or*, is_ok, is_err, map_or*, …)
  panic:<fn>    unwrap / expect (C04's business, not a silent pass)
  local:<fn>#i  handed to a crate-local function parameter; classified by that function's own flow
  escape:<fn>   handed to anything else
  unused        never read
"""
import re
from .cfg import cfg_of
from .facts import callee_name

KEEP_ERR = re.compile(
    r"::(map|map_err|and_then|context|with_context|as_ref|as_mut|as_deref|as_deref_mut|inspect|inspect_err|copied|cloned|transpose)$")
WRAPPERS = re.compile(
    r"(::Try>?::branch$|::IntoFuture>?::into_future$|::Pin::<.*>::(new|new_unchecked|as_mut|get_mut)$|::Future>?::poll$"
    r"|::Option::<.*>::(as_ref|as_mut|as_deref|take)$|::Deref>?::deref$|::DerefMut>?::deref_mut$|::Box::<.*>::new$|::Box::<.*>::pin$|::convert::Into>?::into$|::convert::From<.*>>?::from$)")
SWALLOW = re.compile(
    r"::Result::<T, E>::(ok|err|unwrap_or|unwrap_or_else|unwrap_or_default|is_ok|is_err|is_ok_and|is_err_and|map_or|map_or_else|or|or_else|iter|iter_mut|into_iter|and)$"
    r"|::Option::<.*>::(unwrap_or|unwrap_or_else|unwrap_or_default|is_some|is_none|flatten)$|::IntoIterator>?::into_iter$")
PANIC = re.compile(r"::Result::<T, E>::(unwrap|expect|unwrap_err|expect_err|unwrap_unchecked)$|::Option::<.*>::(unwrap|expect)$")
TRY = re.compile(r"::Try>?::branch$")


def _shared_ref(ty):
    """`&T`, `Option<&T>` … (not `&mut`): the callee can look at the value but cannot consume it."""
    ty = ty.strip()
    for pre in ("std::option::Option<", "std::pin::Pin<"):
        if ty.startswith(pre):
            ty = ty[len(pre):]
    return ty.startswith("&") and not ty.startswith("&mut")


def split_generic(ty):
    """'a::B<X, Y<Z>>' -> ('a::B', ['X', 'Y<Z>'])"""
    i = ty.find("<")
    if i < 0 or not ty.endswith(">"):
        return ty, []
    name = ty[:i]
    inner = ty[i + 1:-1]
    args = []
    depth = 0
    cur = ""
    for ch in inner:
        if ch in "<([":
            depth += 1
        elif ch in ">)]":
            depth -= 1
        if ch == "," and depth == 0:
            args.append(cur.strip())
            cur = ""
        else:
            cur += ch
    if cur.strip():
        args.append(cur.strip())
    return name, args


def result_paths(ty):
    """Paths (tuples of 'Variant.field') inside a value of type `ty` at which a Result lives,
    looking through Option / Poll / Result-Ok payloads and references."""
    out = []

    def rec(t, path, depth):
        t = t.strip()
        while t.startswith("&"):
            t = t[1:].strip()
            if t.startswith("mut "):
                t = t[4:].strip()
            if t.startswith("'"):
                t = t.split(" ", 1)[1] if " " in t else t
        name, args = split_generic(t)
        if depth > 4:
            return
        if name == "std::result::Result" and args:
            out.append(tuple(path))
            rec(args[0], path + ["Ok.0"], depth + 1)
        elif name == "std::option::Option" and args:
            rec(args[0], path + ["Some.0"], depth + 1)
        elif name == "std::task::Poll" and args:
            rec(args[0], path + ["Ready.0"], depth + 1)

    rec(ty, [], 0)
    return out


def place_path(place):
    """(local, tuple(path elements)); a Field right after a Downcast becomes 'Variant.field'."""
    out = []
    pending = None
    for e in place["p"]:
        if e == "deref":
            continue
        if isinstance(e, dict):
            if "dc" in e:
                pending = str(e["dc"])
            elif "f" in e:
                if pending is not None:
                    out.append("%s.%s" % (pending, e["f"]))
                    pending = None
                else:
                    out.append(e["f"])
            elif "idx" in e or "cidx" in e or "sub_from" in e:
                out.append("[]")
    return place["l"], tuple(out)


def op_place(op):
    return op.get("c") or op.get("m")


class ResultFlow:
    def __init__(self, facts):
        self.facts = facts
        self._param_cache = {}

    # ------------------------------------------------------------------ producers
    def producers(self, body):
        """[(bb, term, [paths])] for every call whose destination type contains a Result."""
        out = []
        for bi, t in body.calls():
            paths = result_paths(t.get("dest_ty", ""))
            if paths and not t["dest"]["p"]:
                out.append((bi, t, paths))
        return out

    # ------------------------------------------------------------------ flow of one tracked value
    def flow(self, body, seeds, _depth=0):
        """seeds: iterable of (local, path). Returns list of consumer records
        {class, where(bb), detail}."""
        tracked = set(seeds)
        consumers = []
        seen_cons = set()
        cfg = cfg_of(body)

        def add_cons(cls, bb, detail=""):
            key = (cls, bb, detail)
            if key not in seen_cons:
                seen_cons.add(key)
                consumers.append({"class": cls, "bb": bb, "detail": detail})

        changed = True
        rounds = 0
        while changed and rounds < 30:
            changed = False
            rounds += 1
            for bi, b in enumerate(body.blocks):
                if b["cleanup"]:
                    continue
                for s in b["stmts"]:
                    if s["k"] != "assign":
                        continue
                    ll, lp = place_path(s["lhs"])
                    rv = s["rv"]
                    k = rv["k"]
                    srcs = []
                    if k in ("use", "cast", "repeat"):
                        pl = op_place(rv["op"])
                        if pl:
                            srcs.append((pl, ()))
                    elif k in ("ref", "rawptr"):
                        srcs.append((rv["place"], ()))
                    elif k == "agg":
                        names = rv.get("fields")
                        agg = rv.get("agg")
                        for idx, op in enumerate(rv["ops"]):
                            pl = op_place(op)
                            if not pl:
                                continue
                            fname = names[idx] if names and idx < len(names) else str(idx)
                            if agg == "adt" and rv.get("path") and self._is_enum(rv["path"]):
                                elem = "%s.%s" % (rv["variant"], fname)
                            else:
                                elem = fname
                            srcs.append((pl, (elem,)))
                    for pl, extra in srcs:
                        sl, sp = place_path(pl)
                        for (tl, tp) in list(tracked):
                            if tl != sl:
                                continue
                            if sp == tp[:len(sp)]:
                                new = (ll, lp + extra + tp[len(sp):])
                                if new not in tracked:
                                    tracked.add(new)
                                    changed = True
                t = b["term"]
                if not t:
                    continue
                if t["k"] == "call":
                    for ai, a in enumerate(t["args"]):
                        pl = op_place(a)
                        if not pl:
                            continue
                        sl, sp = place_path(pl)
                        for (tl, tp) in list(tracked):
                            if tl != sl or sp != tp[:len(sp)]:
                                continue
                            rest = tp[len(sp):]
                            name = callee_name(t)
                            gen = t.get("def") or name
                            cb = self.facts.body(t.get("res") or "") or self.facts.body(t.get("def") or "")
                            if cb is not None and ai < cb.argc:
                                add_cons("local:%s#%d" % (cb.id, ai + 1), bi, "/".join(rest))
                                continue
                            if rest:
                                # the Result is inside the argument (Option<Result>, …)
                                if WRAPPERS.search(gen) or WRAPPERS.search(name) or KEEP_ERR.search(gen):
                                    dl, dp = place_path(t["dest"])
                                    extra = ()
                                    if TRY.search(gen):
                                        extra = ("Continue.0",)
                                        rest2 = rest[1:] if rest and rest[0] in ("Ok.0", "Some.0") else rest
                                    else:
                                        rest2 = rest
                                    new = (dl, dp + extra + rest2)
                                    if new not in tracked:
                                        tracked.add(new)
                                        changed = True
                                    add_cons("adaptor", bi, name)
                                elif SWALLOW.search(gen):
                                    add_cons("swallow:%s" % gen.split("::")[-1], bi, name)
                                elif PANIC.search(gen):
                                    # Option<Result>::unwrap -> the Result is the destination
                                    dl, dp = place_path(t["dest"])
                                    new = (dl, dp + rest[1:])
                                    if new not in tracked:
                                        tracked.add(new)
                                        changed = True
                                    add_cons("adaptor", bi, name)
                                else:
                                    aty = (t.get("arg_tys") or [""] * (ai + 1))[ai] if ai < len(t.get("arg_tys") or []) else ""
                                    if _shared_ref(aty):
                                        # handed out by shared reference: it can be looked at but not
                                        # consumed; the owner still has to deal with it
                                        add_cons("borrowed:%s" % name.split("::")[-1], bi, "/".join(rest))
                                    else:
                                        add_cons("escape:%s" % name, bi, "/".join(rest))
                                continue
                            if TRY.search(gen):
                                add_cons("try", bi, name)
                            elif KEEP_ERR.search(gen) or WRAPPERS.search(gen) or WRAPPERS.search(name):
                                add_cons("adaptor", bi, name)
                            elif SWALLOW.search(gen):
                                add_cons("swallow:%s" % gen.split("::")[-1], bi, name)
                            elif PANIC.search(gen):
                                add_cons("panic:%s" % gen.split("::")[-1], bi, name)
                            else:
                                aty = (t.get("arg_tys") or [])[ai] if ai < len(t.get("arg_tys") or []) else ""
                                if _shared_ref(aty):
                                    add_cons("borrowed:%s" % name.split("::")[-1], bi, "")
                                else:
                                    add_cons("escape:%s" % name, bi, "")
            # whole-value flows into the return place
            for (tl, tp) in tracked:
                if tl == 0:
                    add_cons("returned", -1, "/".join(tp))
        # matches on the discriminant
        for bi, j, s in body.assigns():
            rv = s["rv"]
            if rv["k"] != "discr":
                continue
            sl, sp = place_path(rv["place"])
            if (sl, sp) not in tracked:
                continue
            # find the switch that uses this discriminant local
            dl = s["lhs"]["l"]
            for bj, t in body.terms():
                if t["k"] != "switch":
                    continue
                pl = op_place(t["op"])
                if not pl or pl["l"] != dl or pl["p"]:
                    continue
                # which type is it? Result: Err = 1. Option/Poll wrappers are looked through
                # by the tracked path; a discr on a tracked place is the Result itself.
                err_target = None
                for v, tg in zip(t["vals"], t["targets"]):
                    if v == 1:
                        err_target = tg
                if err_target is None:
                    if 0 in t["vals"]:
                        err_target = t["otherwise"]
                    else:
                        err_target = None
                if err_target is None:
                    add_cons("match-swallow", bj, "no Err arm")
                    continue
                ok = self._err_arm_returns_err(body, cfg, err_target, bj)
                add_cons("match-ok" if ok else "match-swallow", bj, "err arm bb%d" % err_target)
        if not [c for c in consumers if not c["class"].startswith("borrowed:")]:
            consumers.append({"class": "unused", "bb": -1, "detail": "only borrowed, never consumed" if consumers else ""})
        return consumers

    def _is_enum(self, path):
        a = self.facts.adts.get(path)
        if a is not None:
            return a["kind"] == "enum"
        return path in ("std::option::Option", "std::result::Result", "std::task::Poll", "std::ops::ControlFlow")

    def _err_blocks(self, body):
        """Blocks that build an Err (`Err(e)`, `Some(Err(e))`, `return Err(..)`) or re-raise one
        (`?`): inside an Err arm this is the propagation idiom."""
        out = set()
        for bi, j, s in body.assigns():
            rv = s["rv"]
            if rv["k"] == "agg" and rv.get("agg") == "adt" and rv.get("variant") == "Err" and rv.get("path") == "std::result::Result":
                out.add(bi)
        for bi, t in body.calls():
            if re.search(r"FromResidual.*::from_residual$|::from_residual$", t.get("def") or ""):
                out.add(bi)
        return out

    def _err_arm_returns_err(self, body, cfg, err_target, switch_bb, depth=0):
        errb = self._err_blocks(body)
        reach = cfg.reach(err_target, avoid=errb)
        for x in reach:
            if x in cfg.exits:
                if depth == 0 and self._err_kept_in_variant(body, cfg, reach):
                    return True
                return False
        # no path to a normal return without an Err; diverging ends (panic) are not silent passes
        return True

    def _err_kept_in_variant(self, body, cfg, reach):
        """The Err arm does not return Err but *keeps* the error: its payload is stored in a variant of
        a crate enum that is returned (`Err(e) => Self::InvalidPattern(e)`). That is not a swallow
        provided every place in the crate that matches on this variant fails in turn (its arm returns
        Err on every path); the obligation moves there."""
        tainted = set()
        stored = None
        for _ in range(6):
            grew = False
            for x in sorted(reach):
                for s in body.blocks[x]["stmts"]:
                    if s["k"] != "assign" or s["lhs"]["p"]:
                        continue
                    rv = s["rv"]
                    ops = []
                    if rv["k"] in ("use", "cast"):
                        ops = [rv["op"]]
                    elif rv["k"] == "agg":
                        ops = rv["ops"]
                    hit = False
                    for o in ops:
                        pl = op_place(o)
                        if pl is None:
                            continue
                        if pl["l"] in tainted or any(isinstance(e, dict) and str(e.get("dc")) == "Err" for e in pl["p"]):
                            hit = True
                    if hit and s["lhs"]["l"] not in tainted:
                        tainted.add(s["lhs"]["l"])
                        grew = True
                        if rv["k"] == "agg" and rv.get("agg") == "adt" and (rv.get("path") or "").startswith("blockwatch::"):
                            stored = (rv["path"], rv.get("vi"), str(rv.get("variant")))
            if not grew:
                break
        if 0 not in tainted or stored is None:
            return False
        adt, vi, vname = stored
        found = 0
        for b2 in self.facts.bodies.values():
            if b2.promoted is not None:
                continue
            for bi, j, s in b2.assigns():
                rv = s["rv"]
                if rv["k"] != "discr" or rv.get("adt") != adt:
                    continue
                dl = s["lhs"]["l"]
                for bj, t in b2.terms():
                    if t["k"] != "switch":
                        continue
                    pl = op_place(t["op"])
                    if not pl or pl["l"] != dl or pl["p"]:
                        continue
                    arm = None
                    for v, tg in zip(t["vals"], t["targets"]):
                        if v == vi:
                            arm = tg
                    if arm is None:
                        arm = t["otherwise"]
                    from .cfg import cfg_of
                    found += 1
                    if not self._err_arm_returns_err(b2, cfg_of(b2), arm, bj, depth=1):
                        return False
        return found > 0

    # ------------------------------------------------------------------ parameter flows
    def param_flow(self, body, param, rest=()):
        key = (body.id, param, tuple(rest))
        if key in self._param_cache:
            return self._param_cache[key]
        self._param_cache[key] = [{"class": "recursive", "bb": -1, "detail": ""}]
        res = self.flow(body, [(param, tuple(rest))])
        self._param_cache[key] = res
        return res

    # ------------------------------------------------------------------ verdicts
    def classify(self, body, bi, t, paths):
        """All consumer records for one producer site, following crate-local parameters."""
        dl = t["dest"]["l"]
        out = []
        for p in paths:
            recs = self.flow(body, [(dl, p)])
            final = []
            stack = list(recs)
            guard = 0
            while stack and guard < 200:
                guard += 1
                r = stack.pop()
                if r["class"].startswith("local:"):
                    m = re.match(r"local:(.*)#(\d+)$", r["class"])
                    cb = self.facts.bodies.get(m.group(1))
                    if cb is None:
                        final.append(r)
                        continue
                    rest = tuple(x for x in r["detail"].split("/") if x)
                    sub = self.param_flow(cb, int(m.group(2)), rest)
                    for srec in sub:
                        if srec["class"] == "returned":
                            # returned by the callee: the callee's own call site is a producer
                            final.append({"class": "adaptor", "bb": r["bb"], "detail": "via " + cb.id})
                        elif srec["class"] == "recursive":
                            continue
                        else:
                            final.append({"class": srec["class"], "bb": r["bb"], "detail": "in %s: %s" % (cb.id, srec["detail"])})
                else:
                    final.append(r)
            out.append((p, final))
        return out


BAD = ("swallow:", "match-swallow", "escape:", "unused")


def is_bad(cls):
    return cls.startswith(BAD)
