"""Fact base: loads the JSON produced by /verif/driver (bwfacts) and offers indexed access.

Nothing here runs blockwatch; it only reads the MIR facts of /repo's current working tree.
"""
import json
import os
import re


class Body:
    """One MIR body (fn, assoc fn, closure, coroutine, const or promoted)."""

    def __init__(self, d, unit):
        self.d = d
        self.unit = unit
        self.id = d["id"]
        self.cache_id = d["id"]      # analyses cache by this; the inlined view of a body has its own
        self.defpath = d["def"]
        self.kind = d["kind"]
        self.root = d.get("root")
        self.parent = d.get("parent")
        self.promoted = d.get("promoted")
        self.span = d["span"]
        self.argc = d["argc"]
        self.locals = d["locals"]
        self.blocks = d["blocks"]
        self.coroutine = d.get("coroutine", False)
        self.name = d.get("name")
        self.impl_self = d.get("impl_self")
        self.impl_self_adt = d.get("impl_self_adt")
        self.impl_trait = d.get("impl_trait")
        self._cfg = None
        self._defs = None

    # ---------------------------------------------------------------- basic iteration
    @property
    def file(self):
        return self.span["file"]

    def is_derive(self):
        """True for bodies that come from a derive / proc-macro expansion (not hand written)."""
        e = self.span.get("exp")
        return e is not None and not e.startswith("desugar")

    def loc(self, span=None):
        sp = span or self.span
        return "%s:%s" % (sp.get("file"), sp.get("line"))

    def terms(self):
        for i, b in enumerate(self.blocks):
            if b["cleanup"]:
                continue
            t = b["term"]
            if t:
                yield i, t

    def calls(self):
        for i, t in self.terms():
            if t["k"] == "call":
                yield i, t

    def stmts(self):
        for i, b in enumerate(self.blocks):
            if b["cleanup"]:
                continue
            for j, s in enumerate(b["stmts"]):
                yield i, j, s

    def assigns(self):
        for i, j, s in self.stmts():
            if s["k"] == "assign":
                yield i, j, s

    def local_name(self, l):
        n = self.locals[l].get("name")
        return n if n else "_%d" % l

    def local_ty(self, l):
        return self.locals[l]["ty"]

    def local_by_name(self, name):
        return [i for i, l in enumerate(self.locals) if l.get("name") == name]

    # ---------------------------------------------------------------- definitions of locals
    def defs(self):
        """local -> list of ('stmt', bb, idx, stmt) | ('call', bb, term) | ('yield', bb, term)
        for whole-local assignments (projection-free lhs) plus partial writes marked 'part'."""
        if self._defs is not None:
            return self._defs
        d = {}
        for i, j, s in self.assigns():
            lhs = s["lhs"]
            kind = "stmt" if not lhs["p"] else "part"
            d.setdefault(lhs["l"], []).append((kind, i, j, s))
        for i, t in self.terms():
            if t["k"] == "call":
                dst = t["dest"]
                kind = "call" if not dst["p"] else "partcall"
                d.setdefault(dst["l"], []).append((kind, i, None, t))
            elif t["k"] == "yield":
                dst = t["resume_arg"]
                d.setdefault(dst["l"], []).append(("yield", i, None, t))
        self._defs = d
        return d

    def single_def(self, l):
        ds = self.defs().get(l, [])
        whole = [x for x in ds if x[0] in ("stmt", "call", "yield")]
        part = [x for x in ds if x[0] in ("part", "partcall")]
        if len(whole) == 1 and not part:
            return whole[0]
        return None


def callee_name(t):
    """Short, stable name of a call terminator's callee (definition path without generics)."""
    return t.get("res") or t.get("def") or ("<indirect:%s>" % t.get("indirect_ty"))


def callee_def(t):
    return t.get("def") or ""


def callee_matches(t, pattern):
    """pattern is a regex searched in the generic def path and in the resolved def path."""
    d = t.get("def") or ""
    r = t.get("res") or ""
    return re.search(pattern, d) is not None or re.search(pattern, r) is not None


class Facts:
    def __init__(self, prefix):
        self.prefix = prefix
        self.bodies = {}
        self.heads = {}
        self.units = {}
        for unit in ("lib", "bin"):
            path = "%s.blockwatch.%s.json" % (prefix, unit)
            with open(path) as f:
                d = json.load(f)
            self.heads[unit] = d["head"]
            for b in d["bodies"]:
                body = Body(b, unit)
                self.bodies[body.id] = body
        self.nonce = self.heads["lib"].get("nonce")
        self.impls = []
        self.adts = {}
        self.consts = {}
        for unit, h in self.heads.items():
            self.impls.extend(h["impls"])
            for a in h["adts"]:
                self.adts[a["path"]] = a
            for c in h["consts"]:
                self.consts[c["path"]] = c
        self.by_def = {}
        for b in self.bodies.values():
            if b.promoted is None:
                self.by_def[b.defpath] = b
        self._children = {}
        for b in self.bodies.values():
            if b.parent and b.promoted is None:
                self._children.setdefault(b.parent, []).append(b)
        self._disambiguate_upvars()

    def _disambiguate_upvars(self):
        """Edition-2021 closures capture disjoint fields (`p.row` and `p.column` are two captures of
        the variable `p`): upvars named after the root variable then collide. Colliding names get
        their capture index appended (`p#0`, `p#1`) in the closure aggregate and in the closure body's
        projections alike."""
        for b in self.bodies.values():
            for blk in b.blocks:
                for s in blk["stmts"]:
                    if s["k"] != "assign":
                        continue
                    rv = s["rv"]
                    if rv["k"] == "agg" and rv.get("agg") in ("closure", "coroutine", "coroutine_closure"):
                        names = rv.get("fields") or []
                        if len(set(names)) == len(names):
                            continue
                        dup = {n for n in names if names.count(n) > 1}
                        rv["fields"] = ["%s#%d" % (n, i) if n in dup else n for i, n in enumerate(names)]
                        cb = self.by_def.get(rv["path"])
                        if cb is not None and not getattr(cb, "_upvars_renamed", False):
                            cb._upvars_renamed = True
                            self._rename_upvars(cb, dup)

    def _rename_upvars(self, cb, dup):
        def fix(place):
            for e in place.get("p", []):
                if isinstance(e, dict) and str(e.get("f", "")).startswith("upvar:") and e["f"][6:] in dup and place["l"] == 1:
                    e["f"] = "%s#%d" % (e["f"], e.get("i", 0))

        def fix_op(op):
            pl = op.get("c") or op.get("m") if isinstance(op, dict) else None
            if pl:
                fix(pl)
        for blk in cb.blocks:
            for s in blk["stmts"]:
                if s["k"] == "assign":
                    fix(s["lhs"])
                    rv = s["rv"]
                    for k in ("op", "a", "b"):
                        if isinstance(rv.get(k), dict):
                            fix_op(rv[k])
                    if "place" in rv:
                        fix(rv["place"])
                    for o in rv.get("ops", []) or []:
                        fix_op(o)
            t = blk["term"]
            if t:
                for k in ("op", "cond", "a", "b", "val"):
                    if isinstance(t.get(k), dict):
                        fix_op(t[k])
                for a in t.get("args", []) or []:
                    fix_op(a)
                for k in ("place", "dest"):
                    if isinstance(t.get(k), dict):
                        fix(t[k])

    # ---------------------------------------------------------------- lookups
    def body(self, defpath):
        return self.by_def.get(defpath)

    def children(self, defpath):
        return self._children.get(defpath, [])

    def descendants(self, defpath):
        out = []
        stack = [defpath]
        while stack:
            d = stack.pop()
            for c in self.children(d):
                out.append(c)
                stack.append(c.defpath)
        return out

    def with_descendants(self, body):
        return [body] + self.descendants(body.defpath)

    def promoteds_of(self, defpath):
        return [b for b in self.bodies.values() if b.defpath == defpath and b.promoted is not None]

    def impls_of_trait(self, trait_regex):
        return [i for i in self.impls if re.search(trait_regex, i["trait"])]

    def impl_method(self, trait_regex, self_adt, method):
        for i in self.impls_of_trait(trait_regex):
            if i.get("self_adt") == self_adt or i.get("self_ty") == self_adt:
                for m in i["methods"]:
                    if m["name"] == method:
                        return self.body(m["def"])
        return None

    def hand_written(self):
        """All non-derive, non-promoted bodies."""
        return [b for b in self.bodies.values() if not b.is_derive()]

    def find_fns(self, regex):
        return [b for b in self.bodies.values() if b.promoted is None and re.search(regex, b.id)]

    def const_str(self, k):
        """String value of a constant operand dict ('k' payload) if known."""
        if k is None:
            return None
        if "str" in k:
            return k["str"]
        u = k.get("uneval")
        if u and "promoted" in k:
            return self.promoted_str(u, k["promoted"])
        if u and u in self.consts and "str" in self.consts[u]:
            return self.consts[u]["str"]
        return None

    def promoted_str(self, defpath, idx):
        """String literal behind a promoted constant such as `&"asc"` (if it is one)."""
        b = self.bodies.get("%s::{promoted#%d}" % (defpath, idx))
        if b is None:
            return None
        vals = []
        for i, j, s in b.assigns():
            rv = s["rv"]
            if rv["k"] == "use" and "k" in rv["op"] and "str" in rv["op"]["k"]:
                vals.append(rv["op"]["k"]["str"])
        return vals[0] if len(vals) == 1 else None

    def const_int(self, k):
        if k is None:
            return None
        if "int" in k:
            return k["int"]
        u = k.get("uneval")
        if u and u in self.consts and "int" in self.consts[u]:
            return self.consts[u]["int"]
        return None


def load(prefix=None):
    prefix = prefix or os.environ.get("BW_FACTS", "/verif/.cache/facts/cur")
    return Facts(prefix)
