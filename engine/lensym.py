"""A13 — symbolic length accounting for comment normalisers (DESIGN §4.C03, rule C03.blank).

A comment visitor may rewrite the comment's text (blank its delimiters) but must keep every byte
offset: tag positions are later computed from offsets *inside the rewritten text* and mapped back to
the source. The necessary condition decided here: on every path on which the normaliser returns a
rewritten string, the lengths of the pieces pushed onto the result add up to the length of the input
text — as a symbolic identity over the indices the function computes (`find` / `rfind` results stay
uninterpreted symbols). Nothing is executed.

Handled: `push_str(&s[a..b] | &s[..b] | &s[a..] | "const" | &" ".repeat(n))`, `push(' ')`, an early
`s.to_string()`, one `for piece in s[a..b].split_inclusive(..)` loop whose every iteration pushes exactly
`len(piece)`, boolean flags set to constants inside the loop, `x.unwrap_or(len)` resolved by the
`Some` / `None` arm the path later takes, and a guarded tail (`if i + 1 < s.len() { push(&s[i+1..]) }`).
"""
import re

from .cfg import cfg_of
from .expr import render, walk
from .facts import callee_name


class Undecidable(Exception):
    pass


# ---------------------------------------------------------------------------------------- linear forms
def lin(c=0, **syms):
    d = {k: v for k, v in syms.items() if v}
    if c:
        d[""] = c
    return d


def ladd(a, b, k=1):
    out = dict(a)
    for s, v in b.items():
        nv = out.get(s, 0) + k * v
        if nv:
            out[s] = nv
        else:
            out.pop(s, None)
    return out


def lshow(a):
    if not a:
        return "0"
    parts = []
    for s, v in sorted(a.items()):
        if s == "":
            parts.append(str(v))
        else:
            parts.append(("%d*" % v if v != 1 else "") + s)
    return " + ".join(parts)


STR_WRAP = re.compile(r"Deref>?::deref$|String::as_str$|AsRef<str>>::as_ref$|Borrow<str>>::borrow$|String::as_mut_str$")


def strip(e):
    """Look through reference-preserving wrappers (deref, as_str, casts, field-less projections)."""
    for _ in range(12):
        if e[0] == "call" and STR_WRAP.search(e[1]) and e[2]:
            e = e[2][0]
        elif e[0] == "cast":
            e = e[2]
        elif e[0] == "proj" and all(f.startswith("as:") is False and f == "" for f in e[2]):
            e = e[1]
        else:
            return e
    return e


class Acct:
    """Resolution is by *locals* (after following copies), so that one quantity has one symbol however
    deeply the expression printer would have resolved it."""

    def __init__(self, ctx, body):
        self.ctx = ctx
        self.b = body
        self.E = ctx.expr(body)
        self.cfg = cfg_of(body)
        self.uo = {}            # symbol -> (root local of the Option, linear form of the default)
        self.bounded = set()    # symbols known to satisfy sym + 1 <= len(text): find / rfind results
        self.path_pos = None    # block -> last position on the path being evaluated (run_path)
        self.cur = 0

    # ------------------------------------------------------------------ locals
    def root(self, l):
        from rules import util
        return util.copy_root(self.b, l)

    def whole_def(self, l):
        ds = [d for d in self.b.defs().get(l, []) if d[0] == "call" or (d[0] == "stmt" and not d[3]["lhs"]["p"])]
        if len(ds) > 1 and self.path_pos is not None:
            # path-sensitive: along the path being summed, the definition in force is the last one
            # executed before the current position
            on = [(self.path_pos[d[1]], d) for d in ds if d[1] in self.path_pos and self.path_pos[d[1]] <= self.cur]
            if on:
                on.sort(key=lambda x: x[0])
                if len(on) == 1 or on[-1][0] != on[-2][0]:
                    return on[-1][1]
            return None
        return ds[0] if len(ds) == 1 else None

    def follow_ref(self, l, depth=10):
        """local holding a reference / reborrow / wrapper of a string -> the local that is the string"""
        for _ in range(depth):
            l = self.root(l)
            d = self.whole_def(l)
            if d is None:
                return l
            if d[0] == "stmt":
                rv = d[3]["rv"]
                if rv["k"] in ("ref", "rawptr") and all(x == "deref" for x in rv["place"]["p"]):
                    l = rv["place"]["l"]
                    continue
                if rv["k"] == "cast" and (rv["op"].get("c") or rv["op"].get("m")) and not (rv["op"].get("c") or rv["op"].get("m"))["p"]:
                    l = (rv["op"].get("c") or rv["op"].get("m"))["l"]
                    continue
                return l
            t = d[3]
            if STR_WRAP.search(callee_name(t)) and t["args"]:
                pl = t["args"][0].get("c") or t["args"][0].get("m")
                if pl and all(x == "deref" for x in pl["p"]):
                    l = pl["l"]
                    continue
            return l
        return l

    def resolve_place(self, pl, depth=14):
        """A place with field / downcast projections -> the operand that was stored there, following the
        definitions in force on the current path: aggregates (struct, tuple, enum variant), copies,
        references and `?` on an Option / Result. Returns an operand with as few projections as could
        be resolved (the place itself if nothing applies)."""
        def is_f(e):
            return isinstance(e, dict) and "f" in e

        def is_dc(e):
            return isinstance(e, dict) and "dc" in e
        for _ in range(depth):
            p = list(pl["p"])
            if not any(isinstance(x, dict) for x in p):
                break
            d = self.whole_def(pl["l"])
            if d is None:
                break
            if d[0] == "call":
                t = d[3]
                if re.search(r"Try>::branch$|ops::Try::branch$", callee_name(t)) and len(p) >= 2 and is_dc(p[0]) and str(p[0]["dc"]) == "Continue" and is_f(p[1]) and t.get("args"):
                    apl = t["args"][0].get("c") or t["args"][0].get("m")
                    ty = (self.b.locals[apl["l"]].get("ty") or "") if apl is not None and not apl["p"] else ""
                    v = "Some" if ty.startswith("std::option::Option<") else "Ok" if ty.startswith("std::result::Result<") else None
                    if v is None:
                        break
                    pl = {"l": apl["l"], "p": [{"dc": v}, {"f": "0"}] + p[2:]}
                    continue
                break
            rv = d[3]["rv"]
            if rv["k"] in ("ref", "rawptr") and p and p[0] == "deref":
                pl = {"l": rv["place"]["l"], "p": list(rv["place"]["p"]) + p[1:]}
                continue
            if rv["k"] == "use":
                src = rv["op"].get("c") or rv["op"].get("m")
                if src is None:
                    break
                pl = {"l": src["l"], "p": list(src["p"]) + p}
                continue
            if rv["k"] == "agg" and rv.get("agg") in ("adt", "tuple"):
                q = p
                if is_dc(q[0]):
                    if rv.get("agg") != "adt" or str(rv.get("variant")) != str(q[0]["dc"]):
                        break
                    q = q[1:]
                if not q or not is_f(q[0]):
                    break
                f = str(q[0]["f"])
                names = [str(n) for n in (rv.get("fields") or [])]
                if names and f in names:
                    k = names.index(f)
                elif not names and f.isdigit():
                    k = int(f)
                else:
                    break
                if k >= len(rv["ops"]):
                    break
                op = rv["ops"][k]
                opl = op.get("c") or op.get("m")
                if opl is None:
                    return op if not q[1:] else {"c": pl}
                pl = {"l": opl["l"], "p": list(opl["p"]) + q[1:]}
                continue
            break
        return {"c": pl}

    def op_const(self, op):
        k = op.get("k")
        if isinstance(k, dict):
            v = self.ctx.facts.const_str(k)
            if v is not None:
                return v
            if "int" in k:
                return k["int"]
        return None

    # ------------------------------------------------------------------ strings
    def str_len_op(self, op, roots):
        c = self.op_const(op)
        if isinstance(c, str):
            return lin(len(c.encode()))
        pl = op.get("c") or op.get("m")
        if pl is None:
            raise Undecidable("string operand is not a place")
        if any(isinstance(x, dict) for x in pl["p"]) and self.place_key(pl) not in roots:
            op2 = self.resolve_place(pl)
            c = self.op_const(op2)
            if isinstance(c, str):
                return lin(len(c.encode()))
            pl = op2.get("c") or op2.get("m")
        if any(isinstance(x, dict) for x in pl["p"]):
            return self.place_sym_len(pl, roots)
        return self.str_len_local(pl["l"], roots)

    def place_sym_len(self, pl, roots):
        key = self.place_key(pl)
        if key in roots:
            return lin(**{roots[key]: 1})
        sp = self.stripped(pl)
        if sp is not None:
            s_op, n = sp
            return ladd(self.str_len_op(s_op, roots), n if isinstance(n, dict) else lin(n), -1)
        so = self.split_piece(pl)
        if so is not None:
            # `s.split_once(P)` = Some((a, b)) with len(a) + len(P) + len(b) = len(s): a has a length of its own
            # (one symbol per split), b the rest
            s_op, n, which, l0 = so
            a = lin(**{"sp#%d" % l0: 1})
            if which == 0:
                return a
            return ladd(ladd(self.str_len_op(s_op, roots), lin(n), -1), a, -1)
        if getattr(self, "_sym_roots", None) is not None:
            return lin(**{"s#%s" % key: 1})
        raise Undecidable("length of %s" % key)

    def stripped(self, pl):
        """`(x as Some).0` with x = s.strip_prefix(P) / s.strip_suffix(P), P a constant char or string:
        (operand of s, byte length of P) - the payload is s without exactly that many bytes"""
        p = [x for x in pl["p"] if x != "deref"]
        if len(p) != 2 or not (isinstance(p[0], dict) and p[0].get("dc") == "Some" and isinstance(p[1], dict) and str(p[1].get("f")) == "0"):
            return None
        d = self.whole_def(self.root(pl["l"]))
        if d is None or d[0] != "call":
            return None
        t = d[3]
        if not re.search(r"<impl str>::strip_(prefix|suffix)$", callee_name(t)) or len(t["args"]) != 2:
            return None
        c = self.op_const(t["args"][1])
        if isinstance(c, str):
            n = len(c.encode())
        elif isinstance(c, int) and 0 <= c < 0x110000:
            n = len(chr(c).encode())
        elif getattr(self, "_sym_roots", None) is not None:
            # a pattern that is itself a string of unknown length (`comment.strip_prefix(prefix)`): the
            # payload is shorter by exactly len(pattern)
            try:
                n = self.str_len_op(t["args"][1], self._sym_roots)
            except Undecidable:
                return None
        else:
            return None
        return t["args"][0], n

    def split_piece(self, pl):
        """`(x as Some).0.k` with x = s.split_once(P) / s.rsplit_once(P), P a constant char or string:
        (operand of s, byte length of P, k, the local x)"""
        p = [x for x in pl["p"] if x != "deref"]
        if len(p) != 3 or not (isinstance(p[0], dict) and p[0].get("dc") == "Some" and all(isinstance(x, dict) and "f" in x for x in p[1:])
                               and str(p[1]["f"]) == "0" and str(p[2]["f"]) in ("0", "1")):
            return None
        l0 = self.root(pl["l"])
        d = self.whole_def(l0)
        if d is None or d[0] != "call":
            return None
        t = d[3]
        if not re.search(r"<impl str>::r?split_once$", callee_name(t)) or len(t["args"]) != 2:
            return None
        c = self.op_const(t["args"][1])
        if isinstance(c, str):
            n = len(c.encode())
        elif isinstance(c, int) and 0 <= c < 0x110000:
            n = len(chr(c).encode())
        else:
            return None
        return t["args"][0], n, int(str(p[2]["f"])), l0

    def place_key(self, pl):
        base = self.follow_ref(pl["l"]) if all(not isinstance(x, dict) for x in pl["p"]) else self.root(pl["l"])
        proj = []
        for x in pl["p"]:
            if isinstance(x, dict):
                proj.append(str(x.get("f", x.get("dc", "?"))))
        return "%d:%s" % (base, ".".join(proj))

    def str_key_local(self, l):
        l = self.follow_ref(l)
        d = self.whole_def(l)
        if d is not None and d[0] == "stmt" and d[3]["rv"]["k"] == "use":
            pl = d[3]["rv"]["op"].get("c") or d[3]["rv"]["op"].get("m")
            if pl and any(isinstance(x, dict) for x in pl["p"]):
                return self.place_key(pl)
        return "%d:" % l

    def str_len_local(self, l, roots):
        l = self.follow_ref(l)
        key = self.str_key_local(l)
        if key in roots:
            return lin(**{roots[key]: 1})
        d = self.whole_def(l)
        if d is None:
            if getattr(self, "_sym_roots", None) is not None:
                return lin(**{"s#%s" % key: 1})         # some string of unknown (but fixed) length
            raise Undecidable("string _%d has no single definition" % l)
        if d[0] == "stmt":
            rv = d[3]["rv"]
            if rv["k"] == "use":
                c = self.op_const(rv["op"])
                if isinstance(c, str):
                    return lin(len(c.encode()))
                pl = rv["op"].get("c") or rv["op"].get("m")
                if pl:
                    return self.str_len_op(rv["op"], roots)
            raise Undecidable("string _%d is built by %s" % (l, rv["k"]))
        t = d[3]
        nm = callee_name(t)
        if re.search(r"ops::Index<.*>::index$|ops::Index::index$|Index<I> for str>::index$|Index<I> for std::string::String>::index$", nm) and len(t["args"]) == 2:
            lr = self.str_len_op(t["args"][0], roots)
            kind, ops = self.range_of(t["args"][1])
            if kind == "RangeTo":
                return self.num_op(ops[0], roots)
            if kind == "RangeFrom":
                return ladd(lr, self.num_op(ops[0], roots), -1)
            if kind == "Range":
                return ladd(self.num_op(ops[1], roots), self.num_op(ops[0], roots), -1)
            if kind == "RangeFull":
                return lr
            raise Undecidable("slice by %s" % kind)
        if re.search(r"<impl str>::repeat$", nm) and len(t["args"]) == 2:
            unit = self.str_len_op(t["args"][0], roots)
            if set(unit) - {""}:
                raise Undecidable("repeat of a non-constant string")
            n = self.num_op(t["args"][1], roots)
            return {k: v * unit.get("", 0) for k, v in n.items()}
        if re.search(r"ToString>::to_string$|From<&str>>::from$|to_owned$|Clone>::clone$", nm) and t["args"]:
            return self.str_len_op(t["args"][0], roots)
        if re.search(r"string::String as std::ops::Add<&str>>::add$|ops::Add<&str>>::add$", nm) and len(t["args"]) == 2:
            # `a + b`
            return ladd(self.str_len_op(t["args"][0], roots), self.str_len_op(t["args"][1], roots))
        if re.search(r"slice::<impl \[T\]>::concat$|Concat<str>>::concat$", nm) and t["args"]:
            # `[p1, p2, ..].concat()`: the pieces of an array built in place
            ops = self.array_ops(t["args"][0])
            if ops is None:
                raise Undecidable("`concat` of something other than an array built in place")
            tot = {}
            for o in ops:
                tot = ladd(tot, self.str_len_op(o, roots))
            return tot
        if re.search(r"<impl str>::(trim|trim_start|trim_end)$", nm) and t["args"] and getattr(self, "_sym_roots", None) is not None:
            # a trimmed string has some length of its own (one symbol per local): `line.len() - t.len()`
            # pieces cancel against it
            return lin(**{"t#%d" % l: 1})
        raise Undecidable("string produced by `%s`" % nm.split("::")[-1])

    def array_ops(self, op, depth=6):
        """operands of the array aggregate a slice / array reference operand was built from"""
        for _ in range(depth):
            pl = op.get("c") or op.get("m")
            if pl is None or any(isinstance(x, dict) for x in pl["p"]):
                return None
            d = self.whole_def(self.root(pl["l"]))
            if d is None or d[0] != "stmt":
                return None
            rv = d[3]["rv"]
            if rv["k"] == "agg" and rv.get("agg") == "array":
                return rv["ops"]
            if rv["k"] in ("ref", "rawptr"):
                op = {"c": rv["place"]}
                continue
            if rv["k"] in ("use", "cast") and "op" in rv:
                op = rv["op"]
                continue
            return None
        return None

    def range_of(self, op):
        pl = op.get("c") or op.get("m")
        if pl is None or pl["p"]:
            raise Undecidable("range operand")
        d = self.whole_def(self.root(pl["l"]))
        if d and d[0] == "stmt" and d[3]["rv"]["k"] == "agg":
            rv = d[3]["rv"]
            return (rv.get("path") or rv.get("agg") or "").split("::")[-1], rv["ops"]
        raise Undecidable("range that is not built in place")

    # ------------------------------------------------------------------ numbers
    def num_op(self, op, roots):
        c = self.op_const(op)
        if isinstance(c, int):
            return lin(c)
        pl = op.get("c") or op.get("m")
        if pl is None:
            raise Undecidable("numeric operand")
        if any(isinstance(x, dict) for x in pl["p"]):
            op2 = self.resolve_place(pl)
            c = self.op_const(op2)
            if isinstance(c, int):
                return lin(c)
            pl = op2.get("c") or op2.get("m")
        if any(isinstance(x, dict) for x in pl["p"]):
            # `_34.0` of a checked operation, `(_8 as Some).0`, a field
            base = self.root(pl["l"])
            d = self.whole_def(base)
            fields = [x for x in pl["p"] if isinstance(x, dict)]
            if d and d[0] == "stmt" and d[3]["rv"]["k"] == "bin" and d[3]["rv"]["op"].endswith("WithOverflow") and len(fields) == 1 and str(fields[0].get("f")) == "0":
                return self.num_rv(d[3]["rv"], roots)
            if d and d[0] == "stmt" and d[3]["rv"]["k"] == "agg" and d[3]["rv"].get("agg") == "tuple" and len(fields) == 1 and str(fields[0].get("f", "")).isdigit() \
                    and int(fields[0]["f"]) < len(d[3]["rv"]["ops"]):
                return self.num_op(d[3]["rv"]["ops"][int(fields[0]["f"])], roots)
            sym = "p#%s" % self.place_key({"l": base, "p": pl["p"]})
            if self.searchy_local(base):
                self.bounded.add(sym)
            return lin(**{sym: 1})
        return self.num_local(pl["l"], roots)

    def num_rv(self, rv, roots):
        if rv["k"] == "bin" and rv["op"].replace("WithOverflow", "") in ("Add", "Sub"):
            k = 1 if rv["op"].startswith("Add") else -1
            return ladd(self.num_op(rv["a"], roots), self.num_op(rv["b"], roots), k)
        if rv["k"] == "use":
            return self.num_op(rv["op"], roots)
        if rv["k"] == "cast":
            return self.num_op(rv["op"], roots)
        raise Undecidable("arithmetic %s" % rv.get("op", rv["k"]))

    def num_local(self, l, roots):
        l = self.root(l)
        d = self.whole_def(l)
        if d is None:
            return lin(**{"v#%d" % l: 1})
        if d[0] == "stmt":
            try:
                return self.num_rv(d[3]["rv"], roots)
            except Undecidable:
                return lin(**{"v#%d" % l: 1})
        t = d[3]
        nm = callee_name(t)
        if re.search(r"<impl str>::len$|String::len$", nm) and t["args"]:
            return self.str_len_op(t["args"][0], roots)
        if re.search(r"Option::<T>::unwrap_or$", nm) and len(t["args"]) == 2:
            pl = t["args"][0].get("c") or t["args"][0].get("m")
            if pl and not pl["p"]:
                oroot = self.root(pl["l"])
                sym = "uo#%d" % oroot
                self.uo[sym] = (oroot, self.num_op(t["args"][1], roots))
                return lin(**{sym: 1})
        return lin(**{"v#%d" % l: 1})

    def searchy_local(self, l, depth=6):
        """the local holds (an Option / ControlFlow of) the index of a non-empty match: find / rfind,
        possibly filtered or passed through `?`"""
        for _ in range(depth):
            d = self.whole_def(self.root(l))
            if d is None or d[0] != "call":
                return False
            nm = callee_name(d[3])
            if re.search(r"<impl str>::(find|rfind)$", nm):
                return True
            if re.search(r"Option::<T>::filter$|Try>::branch$", nm) and d[3]["args"]:
                pl = d[3]["args"][0].get("c") or d[3]["args"][0].get("m")
                if pl and not pl["p"]:
                    l = pl["l"]
                    continue
            return False
        return False

    def known_variant(self, l, depth=8):
        """variant index of the enum value in `l`, if the definition in force on the current path is
        an aggregate (followed through copies and tuple fields)"""
        for _ in range(depth):
            d = self.whole_def(l)
            if d is not None and d[0] == "call" and re.search(r"FromResidual<.*>>::from_residual$|FromResidual::from_residual$", callee_name(d[3])):
                # `?` on a None / Err: the value built from the residual is None / Err again
                ty = self.b.locals[l].get("ty") or ""
                return 0 if ty.startswith("std::option::Option<") else 1 if ty.startswith("std::result::Result<") else None
            if d is None or d[0] != "stmt":
                return None
            rv = d[3]["rv"]
            if rv["k"] == "agg" and rv.get("agg") == "adt" and isinstance(rv.get("vi"), int):
                return rv["vi"]
            if rv["k"] != "use":
                return None
            pl = rv["op"].get("c") or rv["op"].get("m")
            if pl is None:
                return None
            fields = [x for x in pl["p"] if isinstance(x, dict)]
            if not fields:
                l = pl["l"]
                continue
            if len(fields) == 1 and str(fields[0].get("f", "")).isdigit():
                dd = self.whole_def(pl["l"])
                if dd and dd[0] == "stmt" and dd[3]["rv"]["k"] == "agg" and dd[3]["rv"].get("agg") == "tuple" and int(fields[0]["f"]) < len(dd[3]["rv"]["ops"]):
                    op = dd[3]["rv"]["ops"][int(fields[0]["f"])]
                    p2 = op.get("c") or op.get("m")
                    if p2 is not None and not p2["p"]:
                        l = p2["l"]
                        continue
            return None
        return None

    def some_sym(self, oroot):
        return "p#%d:Some.0" % oroot

    # ------------------------------------------------------------------ paths
    def run_path(self, path, roots, result_local):
        """Sum of the lengths pushed onto `result_local` along `path`; None if the path is infeasible.
        Returns (linear form, facts, variants)."""
        from rules import util
        b = self.b
        consts = {}
        variants = {}       # root local of an Option -> 0 (None) / 1 (Some)
        ge_len = []         # (X, Y) with the fact X >= Y on this path
        total = {}
        self.path_pos = {}
        for i, bb in enumerate(path):
            self.path_pos[bb] = i
        try:
            return self._run_path(path, roots, result_local, consts, variants, ge_len, total)
        finally:
            self.path_pos = None

    def _run_path(self, path, roots, result_local, consts, variants, ge_len, total):
        from rules import util
        b = self.b
        for i, bb in enumerate(path):
            self.cur = i
            blk = b.blocks[bb]
            for s in blk["stmts"]:
                if s["k"] != "assign" or s["lhs"]["p"]:
                    continue
                l = s["lhs"]["l"]
                rv = s["rv"]
                v = None
                if rv["k"] == "use":
                    k = rv["op"].get("k")
                    if isinstance(k, dict) and "int" in k and k.get("ty") in ("bool",):
                        v = k["int"]
                    else:
                        pl = rv["op"].get("c") or rv["op"].get("m")
                        if pl and not pl["p"] and pl["l"] in consts:
                            v = consts[pl["l"]]
                if v is None:
                    consts.pop(l, None)
                else:
                    consts[l] = v
            t = blk["term"]
            nxt = path[i + 1] if i + 1 < len(path) else None
            if not t:
                continue
            if t["k"] == "call":
                nm = callee_name(t)
                if re.search(r"std::string::String as std::iter::Extend<.*>>::extend$", nm) and len(t["args"]) == 2 and util.base_local(b, t["args"][0]) == result_local:
                    # `s.extend(repeat_n(' ', n))`: n copies of a constant char
                    pl = t["args"][1].get("c") or t["args"][1].get("m")
                    d = self.whole_def(self.root(pl["l"])) if pl is not None and not pl["p"] else None
                    if d is None or d[0] != "call" or not re.search(r"iter::repeat_n$", callee_name(d[3])) or len(d[3]["args"]) != 2:
                        raise Undecidable("`extend` by something other than `repeat_n(<char>, n)`")
                    c = self.op_const(d[3]["args"][0])
                    if isinstance(c, str) and len(c) == 1:
                        c = ord(c)
                    if not isinstance(c, int):
                        raise Undecidable("`extend` by copies of a non-constant char")
                    w = len(chr(c).encode())
                    cnt = self.num_op(d[3]["args"][1], roots)
                    total = ladd(total, {k: v * w for k, v in cnt.items()})
                if re.search(r"std::string::String::(push_str|push)$", nm) and t["args"]:
                    if util.base_local(b, t["args"][0]) == result_local:
                        if nm.endswith("::push"):
                            c = self.op_const(t["args"][1])
                            if isinstance(c, int):
                                total = ladd(total, lin(len(chr(c).encode())))
                            elif isinstance(c, str) and len(c) == 1:
                                total = ladd(total, lin(len(c.encode())))
                            else:
                                raise Undecidable("push of a non-constant char")
                        else:
                            total = ladd(total, self.str_len_op(t["args"][1], roots))
            elif t["k"] == "switch" and nxt is not None:
                pl = t["op"].get("c") or t["op"].get("m")
                taken = [v for v, tg in zip(t["vals"], t["targets"]) if tg == nxt]
                is_other = t["otherwise"] == nxt and not taken
                if pl is None or pl["p"]:
                    continue
                src = pl["l"]
                # a flag set to a constant on this path (possibly copied)
                probe = src
                d = self.whole_def(probe)
                if probe not in consts and d and d[0] == "stmt" and d[3]["rv"]["k"] == "use":
                    p2 = d[3]["rv"]["op"].get("c") or d[3]["rv"]["op"].get("m")
                    if p2 and not p2["p"]:
                        probe = p2["l"]
                if probe in consts or src in consts:
                    cv = consts.get(src, consts.get(probe))
                    if taken and cv not in taken:
                        return None
                    if is_other and cv in t["vals"]:
                        return None
                    continue
                d = self.whole_def(src)
                if d and d[0] == "stmt" and d[3]["rv"]["k"] == "discr":
                    dp = d[3]["rv"]["place"]
                    if any(isinstance(x, dict) for x in dp["p"]):
                        dp = self.resolve_place(dp)["c"]
                    if not any(isinstance(x, dict) for x in dp["p"]):
                        kv = self.known_variant(dp["l"])
                        if kv is not None:
                            # the value tested was built as this variant earlier on the path
                            if taken and kv not in taken:
                                return None
                            if is_other and kv in t["vals"]:
                                return None
                        key = self.root(dp["l"])
                        if taken:
                            variants[key] = taken[0]
                        elif is_other and len(t["vals"]) == 1 and t["vals"][0] in (0, 1):
                            variants[key] = 1 - t["vals"][0]
                    continue
                # comparisons: keep `X >= Y` facts
                neg = False
                cur = src
                for _ in range(4):
                    d = self.whole_def(self.root(cur))
                    if d and d[0] == "stmt" and d[3]["rv"]["k"] == "un" and d[3]["rv"]["op"] == "Not":
                        p2 = d[3]["rv"]["a"].get("c") or d[3]["rv"]["a"].get("m")
                        if p2 and not p2["p"]:
                            cur = p2["l"]
                            neg = not neg
                            continue
                    break
                d = self.whole_def(self.root(cur))
                if d and d[0] == "stmt" and d[3]["rv"]["k"] == "bin" and d[3]["rv"]["op"] in ("Lt", "Ge", "Le", "Gt"):
                    rv = d[3]["rv"]
                    truth = (taken[0] != 0) if taken else True
                    if neg:
                        truth = not truth
                    try:
                        la, lc = self.num_op(rv["a"], roots), self.num_op(rv["b"], roots)
                    except Undecidable:
                        continue
                    op = rv["op"]
                    if (op == "Lt" and not truth) or (op == "Ge" and truth):
                        ge_len.append((la, lc))
                    elif (op == "Gt" and not truth) or (op == "Le" and truth):
                        ge_len.append((lc, la))
        return self.resolve(total, variants), ge_len, variants

    def resolve(self, total, variants):
        """unwrap_or symbols are replaced according to the Some / None arm the path established"""
        total = dict(total)
        for sym, (oroot, dflt) in self.uo.items():
            if sym in total and oroot in variants:
                k = total.pop(sym)
                if variants[oroot] == 0:
                    total = ladd(total, dflt, k)
                else:
                    s2 = self.some_sym(oroot)
                    if self.searchy_local(oroot):
                        self.bounded.add(s2)
                    total = ladd(total, lin(**{s2: 1}), k)
        return total

    def equal_len(self, total, want, ge_facts):
        d = ladd(total, want, -1)
        if not d:
            return True
        # a guarded tail: the path knows X >= len, and X is (index of a non-empty match) + 1 <= len
        for x, y in ge_facts:
            if y == want and ladd(total, x, -1) == {}:
                syms = [s for s in x if s]
                if len(syms) == 1 and x.get("", 0) == 1 and x[syms[0]] == 1 and syms[0] in self.bounded:
                    return True
        return False


def normaliser_report(ctx, body):
    """[(ok, message)] for one normaliser body (already in the view the caller wants)."""
    from rules import util
    A = Acct(ctx, body)
    b = body
    cfg = A.cfg
    out = []
    pushes = [(bi, t) for bi, t in b.calls() if re.search(r"std::string::String::(push_str|push)$", callee_name(t)) and bi in cfg.reachable]
    if not pushes:
        return out
    results = {util.base_local(b, t["args"][0]) for bi, t in pushes}
    if len(results) != 1:
        return [(False, "pieces are pushed onto %d different strings" % len(results))]
    result_local = results.pop()
    # ---- the strings the pieces are cut from
    cut_from = []
    for bi, t in pushes:
        if not callee_name(t).endswith("::push_str"):
            continue
        pl = t["args"][1].get("c") or t["args"][1].get("m")
        if pl is None or pl["p"]:
            continue
        l = A.follow_ref(pl["l"])
        d = A.whole_def(l)
        if d and d[0] == "call" and re.search(r"Index", callee_name(d[3])) and len(d[3]["args"]) == 2:
            rp = d[3]["args"][0].get("c") or d[3]["args"][0].get("m")
            if rp is not None:
                key = A.place_key(rp) if any(isinstance(x, dict) for x in rp["p"]) else A.str_key_local(rp["l"])
                if key not in cut_from:
                    cut_from.append(key)
        else:
            # a whole string pushed unchanged (`push_str(line)`)
            key = A.str_key_local(pl["l"])
            dd0 = A.whole_def(A.follow_ref(pl["l"]))
            if dd0 is not None and dd0[0] == "stmt" and dd0[3]["rv"]["k"] == "use":
                spl = dd0[3]["rv"]["op"].get("c") or dd0[3]["rv"]["op"].get("m")
                sp = A.stripped(spl) if spl else None
                if sp is not None:
                    rp = sp[0].get("c") or sp[0].get("m")
                    if rp is not None:
                        # the stripped string itself may be a slice of the text
                        for _ in range(3):
                            rl = A.follow_ref(rp["l"])
                            rd = A.whole_def(rl)
                            if rd and rd[0] == "call" and rd[3]["args"] and (
                                    (re.search(r"Index", callee_name(rd[3])) and len(rd[3]["args"]) == 2) or re.search(r"<impl str>::(trim|trim_start|trim_end)$", callee_name(rd[3]))):
                                # a slice / a trimmed view of the text is still (part of) the text
                                nrp = rd[3]["args"][0].get("c") or rd[3]["args"][0].get("m")
                                if nrp is None:
                                    break
                                rp = nrp
                                continue
                            break
                        key = A.place_key(rp) if any(isinstance(x, dict) for x in rp["p"]) else A.str_key_local(rp["l"])
            c = A.op_const(t["args"][1])
            dd = A.whole_def(A.follow_ref(pl["l"]))
            is_const = dd is not None and dd[0] == "stmt" and dd[3]["rv"]["k"] == "use" and isinstance(A.op_const(dd[3]["rv"]["op"]), str)
            is_built = dd is not None and dd[0] == "call" and re.search(r"repeat$|to_string$|format$", callee_name(dd[3]))
            if not is_const and not is_built and c is None and key not in cut_from:
                cut_from.append(key)
    # ---- the piece loop (at most one): `for piece in text[a..b].split_inclusive(..)`
    loop_info = []
    for h, blocks in cfg.loops().items():
        if not any(bi in blocks for bi, t in pushes):
            continue
        nb = [x for x in blocks if b.blocks[x]["term"] and b.blocks[x]["term"]["k"] == "call" and re.search(r"Iterator>?::next$", callee_name(b.blocks[x]["term"])) and cfg.innermost_loop(x) == h]
        if len(nb) != 1:
            return [(False, "pieces are pushed inside a loop that is not driven by one iterator")]
        nt = b.blocks[nb[0]]["term"]
        src = A.E.operand(nt["args"][0])
        split = [c for c in walk(src) if c[0] == "call" and re.search(r"<impl str>::split_inclusive$", c[1])]
        if not split:
            return [(False, "pieces are pushed in a loop over `%s`, which does not partition the text (only split_inclusive keeps every byte)" % render(src, 80))]
        sb = split[0][3] if len(split[0]) > 3 and isinstance(split[0][3], int) else None
        if sb is None:
            return [(False, "the partitioned string of the piece loop could not be located")]
        item_key = A.place_key({"l": nt["dest"]["l"], "p": [{"dc": "Some"}, {"f": "0"}]})
        loop_info.append((h, blocks, nb[0], b.blocks[sb]["term"]["args"][0], item_key))
    if len(loop_info) > 1:
        return [(False, "more than one piece-pushing loop")]
    roots = {}
    item_name = None
    if loop_info:
        item_name = "len(piece)"
        roots[loop_info[0][4]] = item_name
    inputs = [k for k in cut_from if k not in roots]
    if len(inputs) != 1:
        # pieces that are not slices of one string by index (`split_once` halves, ...): a function with a single
        # `&str` parameter rewrites that parameter; what the pieces add up to is decided below in its terms
        sp = [i for i in range(1, b.argc + 1) if re.match(r"&('\w+ )?str$", b.local_ty(i))]
        if len(sp) == 1 and b.kind in ("Fn", "AssocFn"):
            inputs = [A.str_key_local(sp[0])]
    if len(inputs) != 1:
        return [(False, "pieces are cut from %d different strings (%s)" % (len(inputs), inputs))]
    roots[inputs[0]] = "len(text)"
    A._sym_roots = roots
    L = lin(**{"len(text)": 1})
    try:
        loop_len = None
        if loop_info:
            h, blocks, nbb, S_op, item_key = loop_info[0]
            some = util.switch_arms(b, cfg.succ[nbb][0]).get(1)
            paths, complete = cfg.paths(some, lambda x: x == h)
            n_ok = 0
            for p in paths:
                if p[-1] != h:
                    continue
                r = A.run_path(p, roots, result_local)
                if r is None:
                    continue
                total, ge, _ = r
                if A.equal_len(total, lin(**{item_name: 1}), ge):
                    n_ok += 1
                else:
                    out.append((False, "one iteration of the piece loop pushes %s bytes for a piece of len(piece) bytes" % lshow(total)))
            if n_ok:
                out.append((True, "every iteration pushes len(piece) (%d feasible path(s))" % n_ok))
        rets = [x for x in cfg.reachable if b.blocks[x]["term"] and b.blocks[x]["term"]["k"] == "return"]

        def full_paths():
            if not loop_info:
                ps, _ = cfg.paths(0, lambda x: x in rets)
                for p in ps:
                    yield p, False
                return
            h, blocks, nbb, S_op, item_key = loop_info[0]
            none_arm = util.switch_arms(b, cfg.succ[nbb][0]).get(0)
            pre, _ = cfg.paths(0, lambda x: x == h or x in rets)
            post, _ = cfg.paths(none_arm, lambda x: x in rets)
            for p in pre:
                if p[-1] == h:
                    for q in post:
                        yield p + [nbb, cfg.succ[nbb][0]] + q, True
                else:
                    yield p, False
        n_paths = 0
        for p, through_loop in full_paths():
            if not _returns_local(b, p, result_local):
                continue
            r = A.run_path(p, roots, result_local)
            if r is None:
                continue
            total, ge, variants = r
            if through_loop:
                # the partitioned slice's length, with the definitions in force on this path
                A.path_pos = {bb: i for i, bb in enumerate(p)}
                A.cur = len(p)
                try:
                    ll = A.str_len_op(loop_info[0][3], roots)
                finally:
                    A.path_pos = None
                total = A.resolve(ladd(total, ll), variants)
            n_paths += 1
            if A.equal_len(total, L, ge):
                out.append((True, "a returning path pushes exactly len(text)"))
            else:
                out.append((False, "on a path that returns the rewritten text the pushed pieces add up to %s, not to len(text): byte offsets after the difference no longer map to the source" % lshow(total)))
        if not n_paths:
            out.append((False, "no path returning the rewritten string was found"))
    except Undecidable as e:
        out.append((False, "length accounting stopped: %s" % e))
    except ValueError as e:
        out.append((False, "length accounting stopped: %s" % e))
    return out


def expr_len_report(ctx, body):
    """[(ok, message)] for a normaliser that *computes* the rewritten text as an expression instead of
    pushing pieces: `" ".repeat(prefix.len()) + rest`, `[a, "  ", b].concat()`, `s.to_string()`. Every
    String that reaches the return value (directly or as the payload of `Some`) must have the length of
    the function's text parameter, as a symbolic identity."""
    from rules import util
    b = body
    A = Acct(ctx, b)
    rty = b.local_ty(0)
    if not re.match(r"(std::option::Option<)?std::string::String>?$", rty):
        return []
    texts = [i for i in range(1, b.argc + 1) if re.match(r"&'?\w* ?str$", b.local_ty(i))]
    if len(texts) != 1:
        return []
    roots = {"%d:" % texts[0]: "len(text)"}
    A._sym_roots = roots
    L = lin(**{"len(text)": 1})
    out = []
    slots = util.return_slots(b)
    seen = 0
    for bi, j, s in b.assigns():
        if bi not in A.cfg.reachable or s["lhs"]["l"] not in slots or s["lhs"]["p"]:
            continue
        rv = s["rv"]
        op = None
        if rv["k"] == "agg" and rv.get("variant") == "Some" and rv["ops"]:
            op = rv["ops"][0]
        elif rv["k"] == "agg" and rv.get("variant") == "None":
            continue
        elif rv["k"] == "use" and rty.endswith("String"):
            op = rv["op"]
        elif rv["k"] == "use":
            continue            # an Option moved on: its construction is visited where it is built
        if op is None:
            continue
        seen += 1
        try:
            A.path_pos = None
            tot = A.str_len_op(op, roots)
        except Undecidable as e:
            out.append((False, "length accounting stopped: %s" % e))
            continue
        if tot == L:
            out.append((True, "the returned text has len(text)"))
        else:
            out.append((False, "the returned text has %s bytes, not len(text): byte offsets after the difference no longer map to the source" % lshow(tot)))
    for bi, t in b.calls():
        if bi in A.cfg.reachable and t["dest"]["l"] in slots and not t["dest"]["p"] and rty.endswith("String") and not rty.startswith("std::option"):
            seen += 1
            try:
                tot = A.str_len_local(t["dest"]["l"], roots)
            except Undecidable as e:
                out.append((False, "length accounting stopped: %s" % e))
                continue
            out.append((True, "the returned text has len(text)") if tot == L else
                       (False, "the returned text has %s bytes, not len(text): byte offsets after the difference no longer map to the source" % lshow(tot)))
    return out


def _returns_local(b, path, result_local):
    """The value returned at the end of `path` is (or wraps) the result string."""
    want = {result_local}
    for bb in path:
        for s in b.blocks[bb]["stmts"]:
            if s["k"] != "assign" or s["lhs"]["p"]:
                continue
            rv = s["rv"]
            ops = []
            if rv["k"] == "use":
                ops = [rv["op"]]
            elif rv["k"] == "agg":
                ops = rv["ops"]
            for o in ops:
                pl = o.get("c") or o.get("m")
                if pl and not pl["p"] and pl["l"] in want:
                    want.add(s["lhs"]["l"])
    return 0 in want
