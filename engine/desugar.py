"""Combinator desugaring (DESIGN §3.2b): part of the virtual-inlining view of a body.

Calls to the closure-taking combinators of Option / Result / bool and to iterator consumers over
lazily adapted iterators are replaced by the control flow they stand for, with the closure bodies
inlined:

    opt.map(f)            =>  match opt { Some(v) => Some(f(v)), None => None }
    opt.ok_or_else(f)?    =>  match opt { Some(v) => Ok(v), None => Err(f()) } ...
    it.map(g).find(p)     =>  loop { match base.next() { None => break None,
                                                          Some(x) => { let v = g(x); if p(&v) { break Some(v) } } } }

so that a rule sees the same branches, guards and calls whether a step is written as a `for` loop with
`continue` / `break`, as an `if let` chain, or as an iterator / Option pipeline. The base iterator
(`lines()`, `enumerate()`, `iter()`, ...) stays an opaque `Iterator::next` call. A jump-threading pass
then forwards `dest = Some(..); goto C` where C only switches on `discr(dest)` to the matching arm, so
that code guarded by `let Some(x) = pipeline else { .. }` is control-dependent on the predicate.

Everything here works on the JSON shape of the facts (see driver); nothing is executed.
"""
import copy
import re


# ------------------------------------------------------------------------------------------------
# type strings
# ------------------------------------------------------------------------------------------------
def split_generics(ty):
    """'A<B, C<D>>' -> ('A', ['B', 'C<D>'])"""
    i = ty.find("<")
    if i < 0 or not ty.endswith(">"):
        return ty, []
    head, inner = ty[:i], ty[i + 1:-1]
    parts, depth, cur = [], 0, ""
    for ch in inner:
        if ch in "<([":
            depth += 1
        elif ch in ">)]":
            depth -= 1
        if ch == "," and depth == 0:
            parts.append(cur.strip())
            cur = ""
        else:
            cur += ch
    if cur.strip():
        parts.append(cur.strip())
    return head, parts


def strip_ref(ty):
    ty = ty.strip()
    m = re.match(r"^&('?\w+ )?(mut )?(.*)$", ty)
    return m.group(3) if m else ty


# ------------------------------------------------------------------------------------------------
# generic traversal of places
# ------------------------------------------------------------------------------------------------
def map_operand(op, fp):
    if "c" in op:
        return {"c": fp(op["c"])}
    if "m" in op:
        return {"m": fp(op["m"])}
    return op


def map_rvalue(rv, fp):
    rv = dict(rv)
    for k in ("op", "a", "b"):
        if isinstance(rv.get(k), dict) and ("c" in rv[k] or "m" in rv[k] or "k" in rv[k]):
            rv[k] = map_operand(rv[k], fp)
    if "place" in rv:
        rv["place"] = fp(rv["place"])
    if "ops" in rv:
        rv["ops"] = [map_operand(o, fp) for o in rv["ops"]]
    return rv


def map_block(b, fp):
    for s in b["stmts"]:
        if s["k"] == "assign":
            s["lhs"] = fp(s["lhs"])
            s["rv"] = map_rvalue(s["rv"], fp)
        elif s["k"] == "setdiscr":
            s["lhs"] = fp(s["lhs"])
    t = b["term"]
    if t:
        if "op" in t and isinstance(t["op"], dict):
            t["op"] = map_operand(t["op"], fp)
        if "cond" in t:
            t["cond"] = map_operand(t["cond"], fp)
        for k in ("a", "b", "val"):
            if isinstance(t.get(k), dict):
                t[k] = map_operand(t[k], fp)
        for k in ("place", "dest", "resume_arg"):
            if k in t and isinstance(t[k], dict):
                t[k] = fp(t[k])
        if "args" in t:
            t["args"] = [map_operand(a, fp) for a in t["args"]]


# ------------------------------------------------------------------------------------------------
class Builder:
    """Appends synthetic locals and blocks to the body under construction."""

    def __init__(self, facts, locals_, blocks, origin, span):
        self.facts = facts
        self.locals = locals_
        self.blocks = blocks
        self.origin = origin
        self.span = span

    # -- locals / blocks
    def local(self, ty, name=None):
        self.locals.append({"ty": ty or "?", "adt": None, "name": name, "user": False, "mut": True, "synthetic": True})
        return len(self.locals) - 1

    def block(self, stmts=None, term=None):
        self.blocks.append({"cleanup": False, "stmts": stmts or [], "term": term, "synthetic": True})
        self.origin.append(("<sugar>", len(self.blocks) - 1))
        return len(self.blocks) - 1

    # -- statements
    def assign(self, lhs, rv):
        return {"k": "assign", "lhs": lhs if isinstance(lhs, dict) else P(lhs), "rv": rv, "span": self.span, "sugar": True}

    def use(self, op):
        return {"k": "use", "op": op}

    def ref(self, place, mut=False):
        return {"k": "ref", "mut": mut, "fake": False, "place": place}

    def discr(self, place, adt, ty):
        return {"k": "discr", "place": place, "adt": adt, "ty": ty}

    def agg(self, path, variant, vi, ops):
        return {"k": "agg", "agg": "adt", "path": path, "variant": variant, "vi": vi, "fields": [str(i) for i in range(len(ops))], "ops": ops}

    def const_bool(self, v):
        return {"k": {"ty": "bool", "int": 1 if v else 0, "text": "true" if v else "false"}}

    def const_unit(self):
        return {"k": {"ty": "()", "text": "()"}}

    # -- terminators
    def goto(self, t):
        return {"k": "goto", "t": t, "span": self.span}

    def switch(self, op, vals, targets, otherwise, op_ty="isize"):
        return {"k": "switch", "op": op, "op_ty": op_ty, "vals": vals, "targets": targets, "otherwise": otherwise, "span": self.span}

    def unreachable(self):
        return self.block([], {"k": "unreachable", "span": self.span})


def P(l, *proj):
    return {"l": l, "p": list(proj)}


def M(l, *proj):
    return {"m": P(l, *proj)}


def C(l, *proj):
    return {"c": P(l, *proj)}


def variant_payload(base_place, enum, variant, vi, ty):
    return {"l": base_place["l"], "p": list(base_place["p"]) + [{"dc": variant, "vi": vi}, {"f": "0", "i": 0, "adt": "%s::%s" % (enum, variant), "ty": ty}]}


OPTION = "std::option::Option"
RESULT = "std::result::Result"


# ------------------------------------------------------------------------------------------------
# definitions of locals in the body under construction
# ------------------------------------------------------------------------------------------------
def defs_of(blocks, l):
    out = []
    for bi, b in enumerate(blocks):
        for s in b["stmts"]:
            if s["k"] == "assign" and s["lhs"]["l"] == l and not s["lhs"]["p"]:
                out.append(("stmt", bi, s))
        t = b["term"]
        if t and t["k"] == "call" and t.get("dest") and t["dest"]["l"] == l and not t["dest"]["p"]:
            out.append(("call", bi, t))
        if t and t["k"] == "goto" and t.get("sugar_site") and t["sugar_site"].get("dest") and t["sugar_site"]["dest"]["l"] == l and not t["sugar_site"]["dest"]["p"]:
            out.append(("sugar", bi, t["sugar_site"]))
    return out


def operand_place(op):
    return op.get("c") or op.get("m")


def resolve_closure(facts, blocks, op, depth=8, outer=None, new_local=None):
    """(closure body, {upvar name: captured operand}) for an operand that holds a closure value (or a
    reference to one); (fn body id, None) for a function item; else (None, None).
    `outer` (the body being expanded) and `new_local` allow resolving a closure that the expanded
    closure itself captured (`let f = |x| ..; it.filter(|y| f(y))`): it is looked up in the parent
    body; what *it* captured is represented by stand-in locals named after its upvars."""
    for _ in range(depth):
        pl0 = operand_place(op) if "k" not in op else None
        if pl0 is not None and outer is not None and outer.kind == "Closure" and pl0["l"] == 1 and outer.parent:
            p = pl0["p"]
            i = 1 if p and p[0] == "deref" else 0
            if i < len(p) and isinstance(p[i], dict) and str(p[i].get("f", "")).startswith("upvar:") and all(x == "deref" for x in p[i + 1:]):
                name = p[i]["f"][6:]
                parent = facts.body(outer.parent)
                if parent is None:
                    return None, None
                for bi, j, s in parent.assigns():
                    rv = s["rv"]
                    if rv["k"] == "agg" and rv.get("agg") == "closure" and rv.get("path") == outer.defpath and name in (rv.get("fields") or []):
                        cop = rv["ops"][rv["fields"].index(name)]
                        tgt, cap = resolve_closure(facts, parent.blocks, cop, depth - 1)
                        if tgt is None or isinstance(tgt, tuple) or new_local is None:
                            return tgt, cap
                        stand = {}
                        for nm in (cap or {}):
                            stand[nm] = {"c": {"l": new_local(nm), "p": []}}
                        return tgt, stand
                return None, None
        if "k" in op:
            k = op["k"]
            if isinstance(k, dict) and k.get("fn"):
                return ("fn", k["fn"]), None
            return None, None
        pl = operand_place(op)
        if pl is None:
            return None, None
        if any(isinstance(e, dict) for e in pl["p"]):
            return None, None
        ds = defs_of(blocks, pl["l"])
        if len(ds) != 1 or ds[0][0] != "stmt":
            return None, None
        rv = ds[0][2]["rv"]
        if rv["k"] == "agg" and rv.get("agg") == "closure":
            cb = facts.body(rv["path"])
            if cb is None:
                return None, None
            return cb, dict(zip(rv.get("fields", []), rv["ops"]))
        if rv["k"] == "use":
            op = rv["op"]
            continue
        if rv["k"] == "ref":
            op = {"c": rv["place"]}
            continue
        if rv["k"] == "cast" and "op" in rv:
            op = rv["op"]
            continue
        return None, None
    return None, None


def closure_mono(blocks, op, depth=8):
    """the type-argument substitution remembered on the aggregate that built this closure value (closures of a
    generic function that was inlined with known type arguments), or None"""
    for _ in range(depth):
        if "k" in op:
            return None
        pl = operand_place(op)
        if pl is None or any(isinstance(e, dict) for e in pl["p"]):
            return None
        ds = defs_of(blocks, pl["l"])
        if len(ds) != 1 or ds[0][0] != "stmt":
            return None
        rv = ds[0][2]["rv"]
        if rv["k"] == "agg" and rv.get("agg") == "closure":
            return rv.get("mono")
        if rv["k"] == "use":
            op = rv["op"]
        elif rv["k"] == "ref":
            op = {"c": rv["place"]}
        elif rv["k"] == "cast" and "op" in rv:
            op = rv["op"]
        else:
            return None
    return None


class _Unsupported(Exception):
    pass


class _LazyHead:
    """Hands out a fresh landing block (`goto loop head`) for every jump back to a synthetic loop."""

    def __init__(self, make):
        self.new = make


class Sugar:
    """Expansion state shared with engine.inline.inlined()."""

    def __init__(self, facts, locals_, blocks, origin, work, outer=None):
        self.outer = outer
        self.facts = facts
        self.locals = locals_
        self.blocks = blocks
        self.origin = origin
        self.work = work            # inliner's work list: (block, depth, stack)
        self.expanded = []

    def _stand_in(self, name):
        self.locals.append({"ty": "?", "adt": None, "name": name, "user": True, "mut": False, "synthetic": True, "as_upvar": name})
        return len(self.locals) - 1

    def _resolve(self, op):
        return resolve_closure(self.facts, self.blocks, op, outer=self.outer, new_local=self._stand_in)

    # -------------------------------------------------------------------------------- closure call
    def call_closure(self, B, closure_op, args, dest_place, cont, dep, stack, by_ref_args=()):
        """Returns the entry block of code that computes `dest = closure(args...)` and goes to cont.
        args: operands; the closure body is inlined when statically known, otherwise an opaque
        `FnOnce::call_once` call is emitted."""
        target, captured = self._resolve(closure_op)
        if target is None:
            return self._opaque_call(B, closure_op, args, dest_place, cont)
        if isinstance(target, tuple):
            # function item: an ordinary call (the inliner may inline it afterwards)
            fb = self.facts.body(target[1])
            t = {"k": "call", "def": target[1], "path": target[1], "name": target[1].split("::")[-1], "res": target[1] if fb is not None else None,
                 "args": list(args), "arg_tys": ["?"] * len(args), "dest": dest_place, "dest_ty": "?", "t": cont, "span": B.span, "fn_span": B.span, "synthetic": True}
            bi = B.block([], t)
            self.work.append((bi, dep, stack))
            return bi
        cb = target
        if cb.coroutine or cb.id in stack or len(args) != cb.argc - 1:
            return self._opaque_call(B, closure_op, args, dest_place, cont)
        off_l = len(self.locals)
        off_b = len(self.blocks)
        for l in cb.locals:
            l2 = dict(l)
            l2["inl_from"] = cb.id
            self.locals.append(l2)
        from .inline import _shift_block
        pre = []
        # captured constants need a home
        cap_place = {}
        for name, op in (captured or {}).items():
            pl = operand_place(op)
            if pl is None:
                tl = B.local("?", name)
                pre.append(B.assign(P(tl), B.use(op)))
                pl = P(tl)
            cap_place[name] = pl
        env = off_l + 1

        def fp(place):
            if place["l"] != env:
                # indices inside projections
                return place
            p = place["p"]
            i = 0
            if p and p[0] == "deref":
                i = 1
            if i < len(p) and isinstance(p[i], dict) and str(p[i].get("f", "")).startswith("upvar:"):
                name = p[i]["f"][6:]
                cp = cap_place.get(name)
                if cp is not None:
                    return {"l": cp["l"], "p": list(cp["p"]) + list(p[i + 1:])}
            return place

        mono = closure_mono(self.blocks, closure_op)
        if mono:
            from .inline import _mono_block
        for ci, cblk in enumerate(cb.blocks):
            nb = _shift_block(cblk, off_l, off_b)
            map_block(nb, fp)
            if mono:
                _mono_block(self.facts, nb, mono)
            tt = nb["term"]
            if tt and tt["k"] == "return" and not nb["cleanup"]:
                nb["stmts"].append({"k": "assign", "lhs": dest_place, "rv": {"k": "use", "op": M(off_l)}, "span": B.span, "inl_ret": cb.id})
                nb["term"] = B.goto(cont)
            nb["closure_of"] = cb.id
            self.blocks.append(nb)
            self.origin.append((cb.id, ci))
            self.work.append((off_b + ci, dep + 1, stack + (cb.id,)))
        # env local := the closure value (kept for completeness), parameters := arguments
        pl = operand_place(closure_op)
        if pl is not None:
            pre.append({"k": "assign", "lhs": P(env), "rv": {"k": "use", "op": {"c": pl}}, "span": B.span, "inl_arg": cb.id})
        for ai, a in enumerate(args):
            pre.append({"k": "assign", "lhs": P(off_l + 2 + ai), "rv": {"k": "use", "op": a}, "span": B.span, "inl_arg": cb.id})
        entry = B.block(pre, {"k": "goto", "t": off_b, "span": B.span, "inl_call": cb.id})
        return entry

    def _opaque_call(self, B, closure_op, args, dest_place, cont):
        t = {"k": "call", "def": "std::ops::FnOnce::call_once", "path": "std::ops::FnOnce::call_once", "name": "call_once", "trait": "std::ops::FnOnce",
             "args": [closure_op] + list(args), "arg_tys": ["?"] * (len(args) + 1), "dest": dest_place, "dest_ty": "?", "t": cont, "span": B.span, "fn_span": B.span, "synthetic": True}
        return B.block([], t)

    # -------------------------------------------------------------------------------- helpers
    def _as_local(self, B, op, ty, stmts):
        """A local (place without projection) holding the operand's value."""
        pl = operand_place(op)
        if pl is not None and not pl["p"]:
            return pl["l"]
        l = B.local(ty)
        stmts.append(B.assign(P(l), B.use(op)))
        return l

    def _switch_enum(self, B, stmts, local, adt, ty, arms):
        """Ends a block (given its stmts) with `switch discr(local)`; arms: {variant index: block}."""
        d = B.local("isize")
        stmts.append(B.assign(P(d), B.discr(P(local), adt, ty)))
        vals = sorted(arms)
        return B.switch(M(d), vals, [arms[v] for v in vals], B.unreachable())

    # -------------------------------------------------------------------------------- Option / Result / bool
    def expand_simple(self, bi, dep, stack):
        """Expands the combinator call ending block bi (if it is one). True when expanded."""
        b = self.blocks[bi]
        t = b["term"]
        d = t.get("def") or ""
        m = re.match(r"^std::(option::Option::<&?T>|result::Result::<T, E>)::(\w+)$", d)
        mb = re.match(r"^core::bool::<impl bool>::(then|then_some)$", d)
        if not (m or mb) or t.get("t") is None:
            return False
        name = (m or mb).group(2 if m else 1)
        span = t.get("span")
        B = Builder(self.facts, self.locals, self.blocks, self.origin, span)
        cont = t["t"]
        dest = t["dest"]
        args = t["args"]
        atys = t.get("arg_tys") or []
        dest_ty = t.get("dest_ty") or "?"
        self_ty = atys[0] if atys else "?"
        is_opt = bool(m) and "Option" in m.group(1)
        stmts = []

        def done(entry_stmts, term):
            b["stmts"].extend(entry_stmts)
            b["term"] = term
            b["term"]["sugar_site"] = t
            self.expanded.append((bi, d))
            return True

        def set_dest(rv_stmts, nxt=cont):
            return B.block(rv_stmts, B.goto(nxt))

        if mb:
            flag = args[0]
            if name == "then":
                tmp = B.local(split_generics(dest_ty)[1][0] if split_generics(dest_ty)[1] else "?")
                some_bb = set_dest([B.assign(dest, B.agg(OPTION, "Some", 1, [M(tmp)]))])
                call_bb = self.call_closure(B, args[1], [], P(tmp), some_bb, dep, stack)
            else:
                call_bb = set_dest([B.assign(dest, B.agg(OPTION, "Some", 1, [args[1]]))])
            none_bb = set_dest([B.assign(dest, B.agg(OPTION, "None", 0, []))])
            return done([], B.switch(flag, [0], [none_bb], call_bb, op_ty="bool"))

        if is_opt:
            T = (split_generics(self_ty)[1] or ["?"])[0]
            adt, v_none, v_some = OPTION, 0, 1
            o = self._as_local(B, args[0], self_ty, stmts)
            payload = variant_payload(P(o), OPTION, "Some", 1, T)

            def two(none_bb, some_bb):
                return done(stmts, self._switch_enum(B, stmts, o, OPTION, self_ty, {0: none_bb, 1: some_bb}))

            def none_to(rv):
                return set_dest([B.assign(dest, rv)])

            U = (split_generics(dest_ty)[1] or ["?"])[0]
            if name == "map":
                r = B.local(U)
                fin = set_dest([B.assign(dest, B.agg(OPTION, "Some", 1, [M(r)]))])
                some_bb = self.call_closure(B, args[1], [{"m": payload}], P(r), fin, dep, stack)
                return two(none_to(B.agg(OPTION, "None", 0, [])), some_bb)
            if name == "and_then":
                some_bb = self.call_closure(B, args[1], [{"m": payload}], dest, cont, dep, stack)
                return two(none_to(B.agg(OPTION, "None", 0, [])), some_bb)
            if name == "map_or":
                some_bb = self.call_closure(B, args[2], [{"m": payload}], dest, cont, dep, stack)
                return two(none_to(B.use(args[1])), some_bb)
            if name == "map_or_else":
                some_bb = self.call_closure(B, args[2], [{"m": payload}], dest, cont, dep, stack)
                none_bb = self.call_closure(B, args[1], [], dest, cont, dep, stack)
                return two(none_bb, some_bb)
            if name == "unwrap_or_else":
                none_bb = self.call_closure(B, args[1], [], dest, cont, dep, stack)
                return two(none_bb, none_to(B.use({"m": payload})))
            if name == "unwrap_or":
                return two(none_to(B.use(args[1])), none_to(B.use({"m": payload})))
            if name == "ok_or_else":
                e = B.local((split_generics(dest_ty)[1] or ["?", "?"])[-1])
                fin = set_dest([B.assign(dest, B.agg(RESULT, "Err", 1, [M(e)]))])
                none_bb = self.call_closure(B, args[1], [], P(e), fin, dep, stack)
                return two(none_bb, none_to(B.agg(RESULT, "Ok", 0, [{"m": payload}])))
            if name == "ok_or":
                return two(none_to(B.agg(RESULT, "Err", 1, [args[1]])), none_to(B.agg(RESULT, "Ok", 0, [{"m": payload}])))
            if name == "or_else":
                none_bb = self.call_closure(B, args[1], [], dest, cont, dep, stack)
                return two(none_bb, none_to(B.agg(OPTION, "Some", 1, [{"m": payload}])))
            if name == "or":
                return two(none_to(B.use(args[1])), none_to(B.agg(OPTION, "Some", 1, [{"m": payload}])))
            if name in ("filter", "is_some_and", "is_none_or"):
                c = B.local("bool")
                if name == "filter":
                    r = B.local("&" + T)
                    yes = none_to(B.agg(OPTION, "Some", 1, [{"m": payload}]))
                    no = none_to(B.agg(OPTION, "None", 0, []))
                    test = B.block([], B.switch(M(c), [0], [no], yes, op_ty="bool"))
                    call = self.call_closure(B, args[1], [M(r)], P(c), test, dep, stack)
                    some_bb = B.block([B.assign(P(r), B.ref(payload))], B.goto(call))
                    return two(none_to(B.agg(OPTION, "None", 0, [])), some_bb)
                some_bb = self.call_closure(B, args[1], [{"m": payload}], dest, cont, dep, stack)
                return two(none_to(B.use(B.const_bool(name == "is_none_or"))), some_bb)
            return False

        # Result
        gs = split_generics(self_ty)[1]
        T = gs[0] if gs else "?"
        Ety = gs[1] if len(gs) > 1 else "?"
        o = self._as_local(B, args[0], self_ty, stmts)
        okp = variant_payload(P(o), RESULT, "Ok", 0, T)
        errp = variant_payload(P(o), RESULT, "Err", 1, Ety)

        def two(ok_bb, err_bb):
            return done(stmts, self._switch_enum(B, stmts, o, RESULT, self_ty, {0: ok_bb, 1: err_bb}))

        def to(rv):
            return set_dest([B.assign(dest, rv)])

        dg = split_generics(dest_ty)[1]
        if name == "map":
            r = B.local(dg[0] if dg else "?")
            fin = to(B.agg(RESULT, "Ok", 0, [M(r)]))
            ok_bb = self.call_closure(B, args[1], [{"m": okp}], P(r), fin, dep, stack)
            return two(ok_bb, to(B.agg(RESULT, "Err", 1, [{"m": errp}])))
        if name == "map_err":
            r = B.local(dg[1] if len(dg) > 1 else "?")
            fin = to(B.agg(RESULT, "Err", 1, [M(r)]))
            err_bb = self.call_closure(B, args[1], [{"m": errp}], P(r), fin, dep, stack)
            return two(to(B.agg(RESULT, "Ok", 0, [{"m": okp}])), err_bb)
        if name == "and_then":
            ok_bb = self.call_closure(B, args[1], [{"m": okp}], dest, cont, dep, stack)
            return two(ok_bb, to(B.agg(RESULT, "Err", 1, [{"m": errp}])))
        if name == "or_else":
            err_bb = self.call_closure(B, args[1], [{"m": errp}], dest, cont, dep, stack)
            return two(to(B.agg(RESULT, "Ok", 0, [{"m": okp}])), err_bb)
        if name == "unwrap_or_else":
            err_bb = self.call_closure(B, args[1], [{"m": errp}], dest, cont, dep, stack)
            return two(to(B.use({"m": okp})), err_bb)
        if name == "map_or":
            ok_bb = self.call_closure(B, args[2], [{"m": okp}], dest, cont, dep, stack)
            return two(ok_bb, to(B.use(args[1])))
        if name == "map_or_else":
            ok_bb = self.call_closure(B, args[2], [{"m": okp}], dest, cont, dep, stack)
            err_bb = self.call_closure(B, args[1], [{"m": errp}], dest, cont, dep, stack)
            return two(ok_bb, err_bb)
        if name in ("is_ok_and", "is_err_and"):
            if name == "is_ok_and":
                ok_bb = self.call_closure(B, args[1], [{"m": okp}], dest, cont, dep, stack)
                return two(ok_bb, to(B.use(B.const_bool(False))))
            err_bb = self.call_closure(B, args[1], [{"m": errp}], dest, cont, dep, stack)
            return two(to(B.use(B.const_bool(False))), err_bb)
        return False

    # -------------------------------------------------------------------------------- direct closure calls
    def expand_closure_call(self, bi, dep, stack):
        """`let f = |x| ..; f(a)`: the call is resolved to the closure body; its arguments arrive as
        one tuple."""
        b = self.blocks[bi]
        t = b["term"]
        cb = self.facts.body(t.get("res") or "") if not t.get("virtual") else None
        is_fn_trait = re.match(r"^std::ops::(Fn|FnMut|FnOnce)::(call|call_mut|call_once)$", t.get("def") or "") is not None
        if not ((cb is not None and cb.kind == "Closure") or is_fn_trait) or len(t["args"]) != 2 or t.get("t") is None:
            return False
        target, captured = self._resolve(t["args"][0])
        if target is None or isinstance(target, tuple):
            return False
        # the argument tuple
        pl = operand_place(t["args"][1])
        if pl is None or pl["p"]:
            return False
        ds = defs_of(self.blocks, pl["l"])
        if len(ds) != 1 or ds[0][0] != "stmt" or ds[0][2]["rv"]["k"] != "agg" or ds[0][2]["rv"].get("agg") != "tuple":
            return False
        args = list(ds[0][2]["rv"]["ops"])
        if len(args) != target.argc - 1 or target.id in stack or target.coroutine:
            return False
        B = Builder(self.facts, self.locals, self.blocks, self.origin, t.get("span"))
        entry = self.call_closure(B, t["args"][0], args, t["dest"], t["t"], dep, stack)
        b["term"] = {"k": "goto", "t": entry, "span": t.get("span"), "sugar_site": t}
        self.expanded.append((bi, "closure-call"))
        return True

    # -------------------------------------------------------------------------------- await
    def expand_await(self, bi, dep, stack):
        """`fut.await` is lowered to `loop { match poll(pin(&mut fut), cx) { Ready(v) => break v, Pending =>
        yield } }`. Sequentially (what the rules reason about) that is `v = fut's result`: the Pending arm
        is cut, which removes the poll loop; and when the future is the coroutine of a crate-local
        `async fn` / async block whose construction is visible, its body is inlined in place of the poll
        call, like a closure call."""
        b = self.blocks[bi]
        t = b["term"]
        if (t.get("def") or "") != "std::future::Future::poll" or len(t["args"]) != 2 or t.get("t") is None or t.get("awaited") is True:
            return False
        dest = t["dest"]
        if dest["p"]:
            return False
        if t.get("awaited") != "retry" and not self._cut_pending(bi, t, dest):
            return False
        t["awaited"] = True
        # ---- the awaited coroutine, when its construction is visible
        cb = self.facts.body(t.get("res") or "")
        if cb is None or not cb.coroutine or cb.id in stack:
            return True
        fut = self._pinned_future(t["args"][0])
        if fut is None:
            return True
        target, captured = self._resolve_coroutine(fut)
        if target is None or target.id != cb.id:
            t["awaited"] = "pending-construction"
            return True
        B = Builder(self.facts, self.locals, self.blocks, self.origin, t.get("span"))
        tmp = B.local("?")
        wrap = B.block([B.assign(dest, B.agg("std::task::Poll", "Ready", 0, [M(tmp)]))], B.goto(t["t"]))
        entry = self._inline_coroutine(B, cb, captured, fut, t["args"][1], P(tmp), wrap, dep, stack)
        b["term"] = {"k": "goto", "t": entry, "span": t.get("span"), "sugar_site": t}
        self.expanded.append((bi, "await-inline"))
        return True

    def _cut_pending(self, bi, t, dest):
        sb = self.blocks[t["t"]]
        st = sb["term"]
        if not st or st["k"] != "switch":
            return False
        spl = operand_place(st["op"])
        dl = None
        for s in sb["stmts"]:
            if s["k"] == "assign" and spl is not None and s["lhs"] == {"l": spl["l"], "p": []} and s["rv"]["k"] == "discr" and s["rv"]["place"] == {"l": dest["l"], "p": []}:
                dl = s
        if dl is None or 0 not in st["vals"] or 1 not in st["vals"]:
            return False
        ready = st["targets"][st["vals"].index(0)]
        pending = st["targets"][st["vals"].index(1)]
        # the Pending arm reaches a `yield` within a few straight blocks
        chain = []
        cur = pending
        for _ in range(6):
            ct = self.blocks[cur]["term"]
            chain.append(cur)
            if not ct:
                return False
            if ct["k"] == "yield":
                break
            if ct["k"] in ("goto", "drop", "falseedge") and ct.get("t") is not None:
                cur = ct["t"]
                continue
            return False
        else:
            return False
        resume = self.blocks[chain[-1]]["term"].get("t")
        sb["term"] = {"k": "goto", "t": ready, "span": st.get("span"), "sugar_site": t}
        for x in chain + ([resume] if resume is not None else []):
            preds = [i for i, blk in enumerate(self.blocks) if blk["term"] and x in _succs(blk["term"]) and i not in chain]
            if x == pending or not preds or preds == [chain[-1]] and x == resume:
                self.blocks[x] = {"stmts": [], "term": {"k": "unreachable", "span": st.get("span")}, "cleanup": self.blocks[x].get("cleanup", False)}
        self.expanded.append((bi, "await"))
        return True

    def _pinned_future(self, op, depth=8):
        """operand of poll's `Pin<&mut F>` argument -> operand naming the future value F"""
        for _ in range(depth):
            pl = operand_place(op)
            if pl is None or any(isinstance(e, dict) for e in pl["p"]):
                return None
            ds = defs_of(self.blocks, pl["l"])
            if len(ds) != 1:
                return {"c": P(pl["l"])}
            kind, bi, x = ds[0]
            if kind == "stmt":
                rv = x["rv"]
                if rv["k"] == "ref" and not any(isinstance(e, dict) for e in rv["place"]["p"]):
                    op = {"c": {"l": rv["place"]["l"], "p": []}}
                    if not rv["place"]["p"]:
                        # `&mut fut`: fut is the value
                        d2 = defs_of(self.blocks, rv["place"]["l"])
                        if not (len(d2) == 1 and d2[0][0] == "stmt" and d2[0][2]["rv"]["k"] in ("ref",)):
                            return op
                    continue
                if rv["k"] == "use" and operand_place(rv["op"]):
                    op = rv["op"]
                    continue
                return {"c": P(pl["l"])}
            nm = x.get("def") or ""
            if re.search(r"Pin::<Ptr>::new_unchecked$|Pin::<Ptr>::new$|Pin::<&'a mut T>::as_mut$|pin::Pin::<Ptr>::as_mut$", nm) and x["args"]:
                op = x["args"][0]
                continue
            return {"c": P(pl["l"])}
        return None

    def _resolve_coroutine(self, op, depth=10):
        """(coroutine body, {upvar: operand}) for an operand holding a future built in view: a coroutine
        aggregate, moved / passed through `into_future`."""
        for _ in range(depth):
            pl = operand_place(op)
            if pl is None or pl["p"]:
                return None, None
            ds = defs_of(self.blocks, pl["l"])
            if len(ds) != 1:
                return None, None
            kind, bi, x = ds[0]
            if kind == "stmt":
                rv = x["rv"]
                if rv["k"] == "agg" and rv.get("agg") in ("coroutine", "closure"):
                    cb = self.facts.body(rv["path"])
                    if cb is None:
                        return None, None
                    return cb, dict(zip(rv.get("fields", []), rv["ops"]))
                if rv["k"] == "use" and operand_place(rv["op"]):
                    op = rv["op"]
                    continue
                return None, None
            if (x.get("def") or "") == "std::future::IntoFuture::into_future" and x["args"]:
                op = x["args"][0]
                continue
            return None, None
        return None, None

    def _inline_coroutine(self, B, cb, captured, fut_op, cx_op, dest_place, cont, dep, stack):
        off_l = len(self.locals)
        off_b = len(self.blocks)
        for l in cb.locals:
            l2 = dict(l)
            l2["inl_from"] = cb.id
            self.locals.append(l2)
        from .inline import _shift_block
        pre = []
        cap_place = {}
        for name, op in (captured or {}).items():
            pl = operand_place(op)
            if pl is None:
                tl = B.local("?", name)
                pre.append(B.assign(P(tl), B.use(op)))
                pl = P(tl)
            else:
                # the constructor's parameter may be reassigned by a later inlined call of the same
                # function: keep the value the coroutine was built with
                tl = B.local(self.locals[pl["l"]].get("ty") or "?", name)
                pre.append(B.assign(P(tl), B.use({"c": pl})))
                pl = P(tl)
            cap_place[name] = pl
        env = off_l + 1

        def fp(place):
            if place["l"] != env:
                return place
            p = place["p"]
            i = 1 if p and p[0] == "deref" else 0
            if i < len(p) and isinstance(p[i], dict) and str(p[i].get("f", "")).startswith("upvar:"):
                cp = cap_place.get(p[i]["f"][6:])
                if cp is not None:
                    return {"l": cp["l"], "p": list(cp["p"]) + list(p[i + 1:])}
            return place
        for ci, cblk in enumerate(cb.blocks):
            nb = _shift_block(cblk, off_l, off_b)
            map_block(nb, fp)
            tt = nb["term"]
            if tt and tt["k"] == "return" and not nb["cleanup"]:
                nb["stmts"].append({"k": "assign", "lhs": dest_place, "rv": {"k": "use", "op": M(off_l)}, "span": B.span, "inl_ret": cb.id})
                nb["term"] = B.goto(cont)
            nb["closure_of"] = cb.id
            self.blocks.append(nb)
            self.origin.append((cb.id, ci))
            self.work.append((off_b + ci, dep + 1, stack + (cb.id,)))
        pre.append({"k": "assign", "lhs": P(off_l + 2), "rv": {"k": "use", "op": cx_op}, "span": B.span, "inl_arg": cb.id})
        return B.block(pre, {"k": "goto", "t": off_b, "span": B.span, "inl_call": cb.id})

    # -------------------------------------------------------------------------------- iterator pipelines
    LAZY = {"map": "val", "filter": "ref", "filter_map": "val", "take_while": "ref", "map_while": "val", "inspect": "ref", "skip_while": "ref", "flat_map": "val", "flatten": "val"}
    CONSUMERS = {"find": "ref", "find_map": "val", "any": "val", "all": "val", "for_each": "val", "position": "val", "try_for_each": "val"}

    def chain_of(self, op, depth=12):
        """Walks back from an iterator operand through `&mut it`, moves, `into_iter`, `by_ref` and the
        lazy adaptors. Returns (base place, [(adaptor, closure operand, call terminator)]) with the
        adaptors innermost first, or None."""
        adaptors = []
        base = None
        for _ in range(depth):
            pl = operand_place(op)
            if pl is None or any(isinstance(e, dict) for e in pl["p"]):
                break
            if pl["p"] and pl["p"] != ["deref"]:
                break
            ds = defs_of(self.blocks, pl["l"])
            if len(ds) != 1:
                base = P(pl["l"])
                break
            kind, bi, x = ds[0]
            if kind == "stmt":
                rv = x["rv"]
                if rv["k"] == "use" and operand_place(rv["op"]):
                    op = rv["op"]
                    continue
                if rv["k"] == "ref" and not any(isinstance(e, dict) for e in rv["place"]["p"]):
                    op = {"c": rv["place"]}
                    continue
                base = P(pl["l"])
                break
            t = x
            dd = t.get("def") or ""
            nm = dd.split("::")[-1]
            if dd.startswith("std::iter::Iterator::") and nm in self.LAZY and len(t["args"]) == 2:
                adaptors.append((nm, t["args"][1], t))
                op = t["args"][0]
                continue
            if dd == "std::iter::Iterator::flatten" and len(t["args"]) == 1:
                adaptors.append(("flatten", None, t))
                op = t["args"][0]
                continue
            if dd in ("std::iter::IntoIterator::into_iter", "std::iter::Iterator::by_ref") and t["args"]:
                # only when what is converted is itself one of our adaptors (else it is the base)
                inner = self.chain_of(t["args"][0], depth - 1)
                if inner is not None and inner[1]:
                    base, more = inner
                    adaptors.extend(more[::-1])
                    return base, adaptors[::-1]
                base = P(pl["l"])
                break
            base = P(pl["l"])
            break
        if base is None:
            return None
        return base, adaptors[::-1]

    def _pull(self, B, base, adaptors, on_item, on_end, dep, stack, base_ty, item_hint="?"):
        """Emits `loop { match base.next() { None => on_end, Some(x) => adaptors...; on_item(v, head) } }`.
        on_item(value local, loop head) -> entry block; on_end() -> block. Returns the loop head."""
        r = B.local("&mut " + base_ty)
        n = B.local("std::option::Option<%s>" % item_hint)
        real_head = B.block([B.assign(P(r), B.ref(base, mut=True))], None)
        # every "next item" jump goes through its own landing block, so that the branch deciding it
        # keeps two forward successors (the back edge is the landing block's)
        def _landing():
            return B.block([], B.goto(real_head))
        head = _LazyHead(_landing)
        outer_head = head
        lazy_fm = []
        end_bb = on_end()
        x = B.local(item_hint)
        # the chain of adaptor steps, built back to front
        steps = list(adaptors)
        v_final = B.local("?") if steps else x

        def build(i, cur, head=head):
            """entry block for steps[i:] given the current item in local `cur`; `head`: where "next
            item" continues (the innermost enclosing pull loop)"""
            if i == len(steps):
                return on_item(cur, head)
            nm, clo, ct = steps[i]
            if nm == "map":
                nxt_l = B.local("?")
                nxt = build(i + 1, nxt_l, head)
                return self.call_closure(B, clo, [M(cur)], P(nxt_l), nxt, dep, stack)
            if nm == "flatten":
                # each outer item is itself iterated (`IntoIterator::into_iter(item)`); its items flow on
                if (head is not outer_head) or getattr(self, "_lazy_pull", False):
                    raise _Unsupported("flatten below another flattening adaptor / in a lazily pulled pipeline")
                it_l = B.local("?")
                ph = B.block([], None)
                call = {"k": "call", "def": "std::iter::IntoIterator::into_iter", "path": "std::iter::IntoIterator::into_iter", "name": "into_iter",
                        "res": None, "args": [M(cur)], "arg_tys": ["?"], "dest": P(it_l), "dest_ty": "?", "t": ph, "span": B.span, "fn_span": B.span, "synthetic": True}
                entry = B.block([], call)
                ih = self._pull(B, P(it_l), [], lambda v, h2: build(i + 1, v, h2), lambda: head.new(), dep, stack, "?")
                self.blocks[ph]["term"] = B.goto(ih)
                return entry
            if nm == "flat_map":
                # for each outer item the closure yields an iterator; its items flow on downstream and its
                # end continues with the next outer item: a nested pull loop
                if head is not outer_head:
                    raise _Unsupported("flat_map below another flat_map")
                lazy = getattr(self, "_lazy_pull", False)
                if lazy and (i != 0 or lazy_fm):
                    raise _Unsupported("lazily pulled flat_map that is not the first adaptor")
                it_l = B.local("?")
                ph = B.block([], None)
                entry = self.call_closure(B, clo, [M(cur)], P(it_l), ph, dep, stack)
                # the closure's own blocks must be expanded first so that its pipeline is visible
                inner = self.chain_of({"m": P(it_l)})
                if inner is None:
                    raise _Unsupported("the iterator produced by a flat_map closure is not a recognisable pipeline")
                base2, adaptors2 = inner
                if any(a[0] == "flat_map" for a in adaptors2):
                    raise _Unsupported("nested flat_map")
                bt2 = strip_ref(self.locals[base2["l"]].get("ty") or "?")
                if not lazy:
                    ih = self._pull(B, base2, adaptors2, lambda v, h2: build(i + 1, v, h2), lambda: head.new(), dep, stack, bt2)
                    self.blocks[ph]["term"] = B.goto(ih)
                    return entry
                # pulled lazily (`for x in it.flat_map(f)`): the inner iterator lives across pulls. A flag
                # says whether one is active; the pull resumes there, else takes the next outer item.
                act = B.local("bool")
                self.locals[act]["synthetic"] = True
                # the flag starts false where the adaptor is created (executed once, before the loop)
                for blk in self.blocks:
                    if blk.get("term") is ct:
                        blk["stmts"].append(B.assign(P(act), B.use(B.const_bool(False))))
                self._lazy_pull = False
                try:
                    ih = self._pull(B, base2, adaptors2, lambda v, h2: build(i + 1, v, h2),
                                    lambda: B.block([B.assign(P(act), B.use(B.const_bool(False)))], B.goto(head.new())), dep, stack, bt2)
                finally:
                    self._lazy_pull = True
                self.blocks[ph]["stmts"].append(B.assign(P(act), B.use(B.const_bool(True))))
                self.blocks[ph]["term"] = B.goto(ih)
                self.blocks[ih]["lazy_inner"] = True
                lazy_fm.append((act, ih))
                return entry
            if nm in ("filter", "take_while", "skip_while", "inspect"):
                rr = B.local("&?")
                c = B.local("bool" if nm != "inspect" else "()")
                nxt = build(i + 1, cur, head)
                if nm == "inspect":
                    test = nxt
                elif nm == "filter":
                    test = B.block([], B.switch(M(c), [0], [head.new()], nxt, op_ty="bool"))
                elif nm == "take_while":
                    test = B.block([], B.switch(M(c), [0], [end_bb], nxt, op_ty="bool"))
                else:
                    test = B.block([], B.switch(M(c), [0], [nxt], head.new(), op_ty="bool"))
                call = self.call_closure(B, clo, [M(rr)], P(c), test, dep, stack)
                return B.block([B.assign(P(rr), B.ref(P(cur)))], B.goto(call))
            if nm in ("filter_map", "map_while"):
                o = B.local("std::option::Option<?>")
                nxt_l = B.local("?")
                nxt = build(i + 1, nxt_l, head)
                take = B.block([B.assign(P(nxt_l), B.use({"m": variant_payload(P(o), OPTION, "Some", 1, "?")}))], B.goto(nxt))
                st = []
                term = self._switch_enum(B, st, o, OPTION, "std::option::Option<?>", {0: head.new() if nm == "filter_map" else end_bb, 1: take})
                sw = B.block(st, term)
                return self.call_closure(B, clo, [M(cur)], P(o), sw, dep, stack)
            return on_item(cur, head)

        body_entry = build(0, x)
        some_bb = B.block([B.assign(P(x), B.use({"m": variant_payload(P(n), OPTION, "Some", 1, item_hint)}))], B.goto(body_entry))
        st = []
        term = self._switch_enum(B, st, n, OPTION, "std::option::Option<%s>" % item_hint, {0: end_bb, 1: some_bb})
        sw = B.block(st, term)
        self.blocks[real_head]["term"] = {
            "k": "call", "def": "std::iter::Iterator::next", "path": "<%s as std::iter::Iterator>::next" % base_ty, "name": "next",
            "trait": "std::iter::Iterator", "self_ty": base_ty, "targs": [base_ty], "res": "std::iter::Iterator::next",
            "args": [M(r)], "arg_tys": ["&mut " + base_ty], "dest": P(n), "dest_ty": "std::option::Option<%s>" % item_hint,
            "t": sw, "span": B.span, "fn_span": B.span, "synthetic": True}
        if lazy_fm:
            act, ih = lazy_fm[0]
            return B.block([], B.switch(C(act), [0], [real_head], ih, op_ty="bool"))
        return real_head

    def expand_iter(self, bi, dep, stack):
        nb, nl, nw, no = len(self.blocks), len(self.locals), len(self.work), len(self.origin)
        term0 = self.blocks[bi]["term"]
        try:
            return self._expand_iter(bi, dep, stack)
        except _Unsupported:
            del self.blocks[nb:]
            del self.locals[nl:]
            del self.work[nw:]
            del self.origin[no:]
            self.blocks[bi]["term"] = term0
            self._lazy_pull = False
            return False

    def _expand_iter(self, bi, dep, stack):
        b = self.blocks[bi]
        t = b["term"]
        d = t.get("def") or ""
        if not d.startswith("std::iter::Iterator::") or t.get("t") is None:
            return False
        nm = d.split("::")[-1]
        span = t.get("span")
        B = Builder(self.facts, self.locals, self.blocks, self.origin, span)
        cont = t["t"]
        dest = t["dest"]

        def base_type(base):
            return strip_ref(self.locals[base["l"]].get("ty") or "?")

        if nm in self.CONSUMERS and len(t["args"]) == 2:
            ch = self.chain_of(t["args"][0])
            if ch is None:
                return False
            base, adaptors = ch
            clo = t["args"][1]
            if resolve_closure(self.facts, self.blocks, clo)[0] is None:
                return False
            bt = base_type(base)

            def to(rv, nxt=cont):
                return B.block([B.assign(dest, rv)], B.goto(nxt))

            if nm == "find":
                def on_item(v, head):
                    rr = B.local("&?")
                    c = B.local("bool")
                    hit = to(B.agg(OPTION, "Some", 1, [M(v)]))
                    test = B.block([], B.switch(M(c), [0], [head.new()], hit, op_ty="bool"))
                    call = self.call_closure(B, clo, [M(rr)], P(c), test, dep, stack)
                    return B.block([B.assign(P(rr), B.ref(P(v)))], B.goto(call))
                end = lambda: to(B.agg(OPTION, "None", 0, []))
            elif nm == "find_map":
                def on_item(v, head):
                    o = B.local(t.get("dest_ty") or "?")
                    hit = to(B.use(M(o)))
                    st = []
                    term = self._switch_enum(B, st, o, OPTION, t.get("dest_ty") or "?", {0: head.new(), 1: hit})
                    sw = B.block(st, term)
                    return self.call_closure(B, clo, [M(v)], P(o), sw, dep, stack)
                end = lambda: to(B.agg(OPTION, "None", 0, []))
            elif nm in ("any", "all"):
                def on_item(v, head):
                    c = B.local("bool")
                    hit = to(B.use(B.const_bool(nm == "any")))
                    test = B.block([], B.switch(M(c), [0], [head.new() if nm == "any" else hit], hit if nm == "any" else head.new(), op_ty="bool"))
                    return self.call_closure(B, clo, [M(v)], P(c), test, dep, stack)
                end = lambda: to(B.use(B.const_bool(nm == "all")))
            elif nm == "try_for_each":
                # loop { r = f(x); match r { Ok(()) / Some(()) => continue, Err(e) / None => break r } } ; Ok(())
                dty = t.get("dest_ty") or "?"
                is_res = dty.startswith("std::result::Result")
                adt = RESULT if is_res else OPTION

                def on_item(v, head):
                    rloc = B.local(dty)
                    stop = to(B.use(M(rloc)))
                    st = []
                    # Result: Ok = 0, Err = 1 ; Option: None = 0, Some = 1
                    arms = {0: head.new(), 1: stop} if is_res else {0: stop, 1: head.new()}
                    term = self._switch_enum(B, st, rloc, adt, dty, arms)
                    sw = B.block(st, term)
                    return self.call_closure(B, clo, [M(v)], P(rloc), sw, dep, stack)
                if is_res:
                    end = lambda: to(B.agg(RESULT, "Ok", 0, [B.const_unit()]))
                else:
                    end = lambda: to(B.agg(OPTION, "Some", 1, [B.const_unit()]))
            elif nm == "for_each":
                def on_item(v, head):
                    u = B.local("()")
                    return self.call_closure(B, clo, [M(v)], P(u), head.new(), dep, stack)
                end = lambda: to(B.use(B.const_unit()))
            else:
                return False
            head = self._pull(B, base, adaptors, on_item, end, dep, stack, bt)
            b["term"] = {"k": "goto", "t": head, "span": span, "sugar_site": t}
            self.expanded.append((bi, d))
            return True

        if nm in ("fold", "try_fold") and len(t["args"]) == 3:
            # acc = init; loop { acc = f(acc, x) }  /  loop { match f(acc, x) { Ok(a) | Some(a) => acc = a, bad => break bad } }
            ch = self.chain_of(t["args"][0])
            if ch is None:
                return False
            base, adaptors = ch
            clo = t["args"][2]
            if resolve_closure(self.facts, self.blocks, clo)[0] is None:
                return False
            if any(a[1] is not None and resolve_closure(self.facts, self.blocks, a[1])[0] is None for a in adaptors):
                return False
            bt = base_type(base)
            dty = t.get("dest_ty") or "?"
            acc = B.local((t.get("arg_tys") or ["?", "?"])[1] if len(t.get("arg_tys") or []) > 1 else "?", "acc")

            def to(rv, nxt=cont):
                return B.block([B.assign(dest, rv)], B.goto(nxt))
            if nm == "fold":
                def on_item(v, head):
                    tmp = B.local("?")
                    back = B.block([B.assign(P(acc), B.use(M(tmp)))], B.goto(head.new()))
                    return self.call_closure(B, clo, [M(acc), M(v)], P(tmp), back, dep, stack)
                end = lambda: to(B.use(M(acc)))
            else:
                is_res = dty.startswith("std::result::Result")
                if not is_res and not dty.startswith("std::option::Option"):
                    return False
                adt = RESULT if is_res else OPTION
                good_vi, good_nm = (0, "Ok") if is_res else (1, "Some")

                def on_item(v, head):
                    rloc = B.local(dty)
                    stop = to(B.use(M(rloc)))
                    keep = B.block([B.assign(P(acc), B.use({"m": variant_payload(P(rloc), adt, good_nm, good_vi, "?")}))], B.goto(head.new()))
                    st = []
                    arms = {0: keep, 1: stop} if is_res else {0: stop, 1: keep}
                    term = self._switch_enum(B, st, rloc, adt, dty, arms)
                    sw = B.block(st, term)
                    return self.call_closure(B, clo, [M(acc), M(v)], P(rloc), sw, dep, stack)
                end = lambda: to(B.agg(adt, good_nm, good_vi, [M(acc)]))
            head = self._pull(B, base, adaptors, on_item, end, dep, stack, bt)
            b["stmts"].append(B.assign(P(acc), B.use(t["args"][1])))
            b["term"] = {"k": "goto", "t": head, "span": span, "sugar_site": t}
            self.expanded.append((bi, d))
            return True

        if nm == "collect" and len(t["args"]) == 1:
            # `chain.collect::<Vec<_> | HashSet<_> | HashMap<_, _>>()` (optionally inside Result / Option)
            # over recognised lazy adaptors: an explicit loop that pushes / inserts each item
            ch = self.chain_of(t["args"][0])
            if ch is None or not ch[1]:
                return False
            base, adaptors = ch
            if any(a[1] is not None and resolve_closure(self.facts, self.blocks, a[1])[0] is None for a in adaptors):
                return False
            dty = t.get("dest_ty") or ""
            wrap = None
            inner = dty
            if dty.startswith("std::result::Result<"):
                wrap = RESULT
                inner = (split_generics(dty)[1] or ["?"])[0]
            elif dty.startswith("std::option::Option<"):
                wrap = OPTION
                inner = (split_generics(dty)[1] or ["?"])[0]
            if inner.startswith("std::vec::Vec<"):
                kind, meth, path = "vec", "push", "std::vec::Vec::<T, A>::push"
                ctor = "std::vec::Vec::<T>::new"
            elif inner.startswith("std::collections::HashSet<"):
                kind, meth, path = "set", "insert", "std::collections::HashSet::<T, S, A>::insert"
                ctor = "std::collections::HashSet::<T>::new"
            elif inner.startswith("std::collections::HashMap<"):
                kind, meth, path = "map", "insert", "std::collections::HashMap::<K, V, S, A>::insert"
                ctor = "std::collections::HashMap::<K, V>::new"
            else:
                return False
            bt = base_type(base)
            acc = B.local(inner, "collected")
            accref = B.local("&mut " + inner)
            item_ty = (split_generics(inner)[1] or ["?"])

            def add_call(v_ops, nxt):
                u = B.local("?")
                tt = {"k": "call", "def": path, "path": path, "name": meth, "res": path, "args": [M(accref)] + v_ops,
                      "arg_tys": ["&mut " + inner] + (item_ty if len(v_ops) == len(item_ty) else ["?"] * len(v_ops)), "dest": P(u), "dest_ty": "?",
                      "t": nxt, "span": span, "fn_span": span, "synthetic": True}
                return B.block([B.assign(P(accref), B.ref(P(acc), mut=True))], tt)

            def on_item(v, head):
                if wrap is None:
                    if kind == "map":
                        return add_call([{"m": P(v, {"f": "0", "i": 0, "ty": "?"})}, {"m": P(v, {"f": "1", "i": 1, "ty": "?"})}], head.new())
                    return add_call([M(v)], head.new())
                # items are Result<T, E> / Option<T>: the first Err / None ends the collection with it
                good_vi, bad_vi, good_nm, bad_nm = (0, 1, "Ok", "Err") if wrap == RESULT else (1, 0, "Some", "None")
                payload = variant_payload(P(v), wrap, good_nm, good_vi, "?")
                inner_v = B.local("?")
                if kind == "map":
                    ops = [{"m": P(inner_v, {"f": "0", "i": 0, "ty": "?"})}, {"m": P(inner_v, {"f": "1", "i": 1, "ty": "?"})}]
                else:
                    ops = [M(inner_v)]
                addb = add_call(ops, head.new())
                take = B.block([B.assign(P(inner_v), B.use({"m": payload}))], B.goto(addb))
                if wrap == RESULT:
                    fail = B.block([B.assign(dest, B.agg(RESULT, "Err", 1, [{"m": variant_payload(P(v), RESULT, "Err", 1, "?")}]))], B.goto(cont))
                else:
                    fail = B.block([B.assign(dest, B.agg(OPTION, "None", 0, []))], B.goto(cont))
                st = []
                term = self._switch_enum(B, st, v, wrap, "?", {good_vi: take, bad_vi: fail})
                return B.block(st, term)

            def end():
                if wrap is None:
                    return B.block([B.assign(dest, B.use(M(acc)))], B.goto(cont))
                if wrap == RESULT:
                    return B.block([B.assign(dest, B.agg(RESULT, "Ok", 0, [M(acc)]))], B.goto(cont))
                return B.block([B.assign(dest, B.agg(OPTION, "Some", 1, [M(acc)]))], B.goto(cont))
            head = self._pull(B, base, adaptors, on_item, end, dep, stack, bt)
            init = {"k": "call", "def": ctor, "path": ctor, "name": "new", "res": ctor, "args": [], "arg_tys": [], "dest": P(acc), "dest_ty": inner,
                    "t": head, "span": span, "fn_span": span, "synthetic": True}
            ib = B.block([], init)
            b["term"] = {"k": "goto", "t": ib, "span": span, "sugar_site": t}
            self.expanded.append((bi, d))
            return True

        if nm == "next" and len(t["args"]) == 1:
            # `for x in pipeline`: next() on an adapted iterator
            ch = self.chain_of(t["args"][0])
            if ch is None or not ch[1]:
                return False
            base, adaptors = ch
            if any(a[1] is not None and resolve_closure(self.facts, self.blocks, a[1])[0] is None for a in adaptors):
                return False
            bt = base_type(base)

            def on_item(v, head):
                return B.block([B.assign(dest, B.agg(OPTION, "Some", 1, [M(v)]))], B.goto(cont))
            end = lambda: B.block([B.assign(dest, B.agg(OPTION, "None", 0, []))], B.goto(cont))
            self._lazy_pull = True
            try:
                head = self._pull(B, base, adaptors, on_item, end, dep, stack, bt)
            finally:
                self._lazy_pull = False
            b["term"] = {"k": "goto", "t": head, "span": span, "sugar_site": t}
            self.expanded.append((bi, d))
            return True
        return False


# ------------------------------------------------------------------------------------------------
# jump threading
# ------------------------------------------------------------------------------------------------
def thread_jumps(blocks):
    """B: `X = Variant(..)` (last write to X) ; goto C   with   C: `d = discr(X)` ; switch d
    =>  B goes to the arm of the known variant (the statements on the way are repeated in B).
    Blocks between B and the switch that only copy X on (`Y = move X; goto ..`, the return slot of an
    inlined closure) are looked through. Likewise for a boolean X set to a constant and a switch on X
    itself."""
    changed = 0
    for b in blocks:
        t = b["term"]
        if t and t["k"] == "switch" and not b.get("cleanup") and t.get("op_ty") == "bool":
            # a switch on a flag that this very block sets to a constant (left by switch splitting)
            pl = operand_place(t["op"])
            if pl is not None and not pl["p"]:
                val = None
                for s in b["stmts"]:
                    if s["k"] == "assign" and s["lhs"]["l"] == pl["l"] and not s["lhs"]["p"]:
                        rv = s["rv"]
                        k = rv["op"].get("k") if rv["k"] == "use" else None
                        val = k["int"] if isinstance(k, dict) and k.get("ty") == "bool" and "int" in k else None
                if val is not None:
                    tgt = t["otherwise"]
                    for v, tg in zip(t["vals"], t["targets"]):
                        if v == val:
                            tgt = tg
                    b["term"] = {"k": "goto", "t": tgt, "span": t.get("span"), "folded": True}
                    changed += 1
            continue
        if not t or t["k"] != "goto" or b.get("cleanup"):
            continue
        # what B knows: local -> variant index / bool
        known = {}
        for s in b["stmts"]:
            if s["k"] != "assign" or s["lhs"]["p"]:
                if s["k"] == "assign":
                    known.pop(s["lhs"]["l"], None)
                continue
            rv = s["rv"]
            l = s["lhs"]["l"]
            if rv["k"] == "agg" and rv.get("agg") == "adt" and rv.get("vi") is not None:
                known[l] = ("v", rv["vi"])
            elif rv["k"] == "use" and isinstance(rv["op"].get("k"), dict) and rv["op"]["k"].get("ty") == "bool" and "int" in rv["op"]["k"]:
                known[l] = ("b", rv["op"]["k"]["int"])
            elif rv["k"] == "use" and operand_place(rv["op"]) and not operand_place(rv["op"])["p"] and operand_place(rv["op"])["l"] in known:
                known[l] = known[operand_place(rv["op"])["l"]]
            else:
                known.pop(l, None)
        if not known:
            continue
        carried = []
        cur = t["t"]
        tgt = None
        for _ in range(4):
            c = blocks[cur]
            if c is b or c.get("cleanup"):
                break
            ct = c["term"]
            assigns = [s for s in c["stmts"] if s["k"] == "assign"]
            if ct and ct["k"] == "switch":
                sw_pl = operand_place(ct["op"])
                if sw_pl is None or sw_pl["p"]:
                    break
                val = None
                last = assigns[-1] if assigns else None
                if last is not None and last["rv"]["k"] == "discr" and last["lhs"]["l"] == sw_pl["l"] and not last["rv"]["place"]["p"] \
                        and not any(s["lhs"]["l"] == last["rv"]["place"]["l"] for s in assigns[:-1]):
                    k = known.get(last["rv"]["place"]["l"])
                    if k and k[0] == "v":
                        val = k[1]
                elif not any(s["lhs"]["l"] == sw_pl["l"] for s in assigns):
                    k = known.get(sw_pl["l"])
                    if k and k[0] == "b":
                        val = k[1]
                if val is None:
                    break
                tgt = ct["otherwise"]
                for v, tg in zip(ct["vals"], ct["targets"]):
                    if v == val:
                        tgt = tg
                carried.extend(copy.deepcopy(assigns))
                break
            if ct and ct["k"] in ("goto", "drop", "falseedge") and isinstance(ct.get("t"), int) and all(s["rv"]["k"] == "use" and not s["lhs"]["p"] for s in assigns) and len(assigns) <= 2:
                ok = True
                for s in assigns:
                    pl = operand_place(s["rv"]["op"])
                    if pl and not pl["p"] and pl["l"] in known:
                        known[s["lhs"]["l"]] = known[pl["l"]]
                    else:
                        known.pop(s["lhs"]["l"], None)
                carried.extend(copy.deepcopy(assigns))
                cur = ct["t"]
                continue
            break
        if tgt is None:
            continue
        b["stmts"].extend(carried)
        b["term"] = dict(t)
        b["term"]["t"] = tgt
        b["term"]["threaded"] = True
        changed += 1
    return changed


def _uses_of(blocks, l):
    """Number of reads of local l (as operand base, in projections' index, in places read)."""
    n = 0

    def fp(place):
        nonlocal n
        if place["l"] == l:
            n += 1
        for e in place["p"]:
            if isinstance(e, dict) and e.get("idx") == l:
                n += 1
        return place
    for b in blocks:
        for s in b["stmts"]:
            if s["k"] == "assign":
                map_rvalue(s["rv"], fp)
                if s["lhs"]["p"]:
                    fp(s["lhs"])
        t = b["term"]
        if t:
            t2 = copy.copy(t)
            if "op" in t2 and isinstance(t2["op"], dict):
                map_operand(t2["op"], fp)
            if "cond" in t2:
                map_operand(t2["cond"], fp)
            for a in t2.get("args", []) or []:
                map_operand(a, fp)
            if t2["k"] == "drop" and "place" in t2:
                fp(t2["place"])
    return n


def split_switch_joins(blocks, locals_):
    """S: `switch X` where X is a temporary that is only read by this switch and is written in the
    blocks that jump to S (possibly through one block R that only copies `X = move Y`, Y read nowhere
    else): every such predecessor gets its own copy of the switch on a fresh local. The merged flag of
    a short-circuit `a && b` / of an inlined predicate closure becomes one branch per way of computing
    it, so that code behind it is control-dependent on the test that was actually made."""
    changed = 0
    preds = {}
    for i, b in enumerate(blocks):
        t = b["term"]
        if t and t["k"] == "goto" and not b.get("cleanup"):
            preds.setdefault(t["t"], []).append(i)
        elif t:
            for k in ("t", "otherwise", "imag", "drop"):
                if isinstance(t.get(k), int):
                    preds.setdefault(t[k], []).append(-1)
            for x in t.get("targets", []) or []:
                preds.setdefault(x, []).append(-1)
    for si, s in enumerate(blocks):
        st = s["term"]
        if not st or st["k"] != "switch" or s.get("cleanup"):
            continue
        pl = operand_place(st["op"])
        if pl is None or pl["p"] or st.get("op_ty") != "bool":
            continue
        x = pl["l"]
        # S may first copy the flag (`_51 = _37; switch _51`): find the local the predecessors write
        s_assigns = [a for a in s["stmts"] if a["k"] == "assign"]
        chain_ok = True
        copies = []
        cur = x
        for a in reversed(s_assigns):
            if a["lhs"]["l"] == cur and not a["lhs"]["p"] and a["rv"]["k"] == "use" and operand_place(a["rv"]["op"]) and not operand_place(a["rv"]["op"])["p"]:
                if _uses_of(blocks, cur) != 1:
                    chain_ok = False
                copies.append(a)
                cur = operand_place(a["rv"]["op"])["l"]
            else:
                chain_ok = False
        if not chain_ok or len(copies) != len(s_assigns):
            continue
        x = cur
        if _uses_of(blocks, x) != 1:        # (a named `let ok = a && b;` used once is split like a temporary)
            continue
        # direct predecessors, or through one pure copy block
        routes = []       # (pred block index, [copy stmts on the way])
        ok = True
        for p in preds.get(si, []):
            if p < 0:
                ok = False
                break
            pb = blocks[p]
            assigns = [a for a in pb["stmts"] if a["k"] == "assign"]
            if len(assigns) == 1 and assigns[0]["lhs"]["l"] == x and assigns[0]["rv"]["k"] == "use" and operand_place(assigns[0]["rv"]["op"]) \
                    and not operand_place(assigns[0]["rv"]["op"])["p"] and all(q >= 0 for q in preds.get(p, [])) and len(preds.get(p, [])) > 1:
                y = operand_place(assigns[0]["rv"]["op"])["l"]
                if _uses_of(blocks, y) != 1:
                    ok = False
                    break
                for q in preds.get(p, []):
                    routes.append((q, y, True))
            else:
                routes.append((p, x, False))
        if not ok or len(routes) < 2:
            continue
        for q, var, via_copy in routes:
            qb = blocks[q]
            # the last write of `var` in q
            idx = None
            for k in range(len(qb["stmts"]) - 1, -1, -1):
                a = qb["stmts"][k]
                if a["k"] == "assign" and a["lhs"]["l"] == var and not a["lhs"]["p"]:
                    idx = k
                    break
            if idx is None:
                continue
            locals_.append(dict(locals_[x], synthetic=True))
            fresh = len(locals_) - 1
            a2 = copy.deepcopy(qb["stmts"][idx])
            a2["lhs"] = {"l": fresh, "p": []}
            qb["stmts"].append(a2)
            nt = copy.deepcopy(st)
            nt["op"] = {"m": {"l": fresh, "p": []}}
            nt["split_from"] = si
            qb["term"] = nt
            changed += 1
    return changed


# ------------------------------------------------------------------------------------------------
# dead stores left behind by threading / splitting
# ------------------------------------------------------------------------------------------------
def _place_uses(place, acc, as_def=False):
    if not as_def or place["p"]:
        acc.add(place["l"])
    for e in place["p"]:
        if isinstance(e, dict) and "idx" in e:
            acc.add(e["idx"])


def _operand_uses(op, acc):
    pl = operand_place(op)
    if pl is not None:
        _place_uses(pl, acc)


def _rvalue_uses(rv, acc):
    for k in ("op", "a", "b"):
        if isinstance(rv.get(k), dict):
            _operand_uses(rv[k], acc)
    if "place" in rv:
        _place_uses(rv["place"], acc)
    for o in rv.get("ops", []) or []:
        _operand_uses(o, acc)


def _term_uses_defs(t):
    u, d = set(), set()
    if not t:
        return u, d
    if "op" in t and isinstance(t["op"], dict):
        _operand_uses(t["op"], u)
    if "cond" in t:
        _operand_uses(t["cond"], u)
    for k in ("a", "b", "val"):
        if isinstance(t.get(k), dict):
            _operand_uses(t[k], u)
    for a in t.get("args", []) or []:
        _operand_uses(a, u)
    if t["k"] == "drop" and "place" in t:
        _place_uses(t["place"], u)
    if t["k"] in ("call", "yield") and isinstance(t.get("dest"), dict):
        if t["dest"]["p"]:
            _place_uses(t["dest"], u)
        else:
            d.add(t["dest"]["l"])
    if t["k"] == "return":
        u.add(0)
    return u, d


def _succs(t):
    out = []
    if not t:
        return out
    for k in ("t", "otherwise", "imag", "drop", "unwind"):
        if isinstance(t.get(k), int):
            out.append(t[k])
    out.extend(t.get("targets", []) or [])
    return out


PURE = ("use", "bin", "un", "discr", "cast", "agg", "ref", "len", "repeat")


def eliminate_dead_stores(blocks, locals_, argc):
    """Removes assignments of pure values to compiler / synthetic temporaries that are never read
    afterwards (backward liveness over the CFG). Only the copies that jump threading and switch
    splitting leave behind qualify in practice."""
    n = len(blocks)
    live_in = [set() for _ in range(n)]
    changed = True
    it = 0
    while changed and it < 60:
        changed = False
        it += 1
        for i in range(n - 1, -1, -1):
            b = blocks[i]
            live = set()
            for s in _succs(b["term"]):
                if 0 <= s < n:
                    live |= live_in[s]
            u, d = _term_uses_defs(b["term"])
            live = (live - d) | u
            for s in reversed(b["stmts"]):
                if s["k"] == "assign":
                    if not s["lhs"]["p"]:
                        live.discard(s["lhs"]["l"])
                    else:
                        _place_uses(s["lhs"], live)
                    _rvalue_uses(s["rv"], live)
                elif s["k"] == "setdiscr":
                    _place_uses(s["lhs"], live)
            if live != live_in[i]:
                live_in[i] = live
                changed = True
    removed = 0
    for i, b in enumerate(blocks):
        live = set()
        for s in _succs(b["term"]):
            if 0 <= s < n:
                live |= live_in[s]
        u, d = _term_uses_defs(b["term"])
        live = (live - d) | u
        keep = []
        for s in reversed(b["stmts"]):
            if s["k"] == "assign" and not s["lhs"]["p"]:
                l = s["lhs"]["l"]
                loc = locals_[l]
                if l not in live and l != 0 and l > argc and not loc.get("user") and s["rv"]["k"] in PURE and (s.get("sugar") or b.get("synthetic") or loc.get("synthetic") or loc.get("inl_from") or True):
                    # only stores made dead by our own duplication: the same local is assigned elsewhere too
                    removed += 1
                    continue
                live.discard(l)
                _rvalue_uses(s["rv"], live)
            elif s["k"] == "assign":
                _place_uses(s["lhs"], live)
                _rvalue_uses(s["rv"], live)
            elif s["k"] == "setdiscr":
                _place_uses(s["lhs"], live)
            keep.append(s)
        b["stmts"] = keep[::-1]
    return removed


# -------------------------------------------------------------------------------------------------
# scalar replacement of aggregate fields (reads only)
# -------------------------------------------------------------------------------------------------
_NONE_PRODUCERS = re.compile(r"FromResidual<.*>>::from_residual$|ops::FromResidual::from_residual$")
_TRY_BRANCH = re.compile(r"ops::Try>::branch$|ops::Try::branch$")
_FAIL = object()


def scalarize_fields(blocks, locals_, argc):
    """`t = (a, b); o = Some(move t); x = move o; … (x as Some).0.1 …`  ->  `… b …`.

    A read of a field path of a local is replaced by the operand stored there when that operand is
    the same on every definition that can reach the read: definitions are opened through whole-local
    copies / moves, aggregate expressions (tuples, struct and enum constructors) and `Try::branch`
    (`(branch(x) as Continue).0` is the payload of `x`); a definition that builds a *different*
    variant than the one the path downcasts to (a `None`, a residual) cannot be what the read sees
    and is skipped. The replacement is a constant or a place rooted in a local assigned exactly
    once. Helpers returning tuples / Options of slices then read, once inlined, like code written in
    place."""
    defs = {}
    part = set()
    for bi, b in enumerate(blocks):
        for s in b["stmts"]:
            if s["k"] == "assign":
                if s["lhs"]["p"]:
                    part.add(s["lhs"]["l"])
                else:
                    defs.setdefault(s["lhs"]["l"], []).append(("stmt", s))
            elif s["k"] == "setdiscr":
                part.add(s["lhs"]["l"])
        t = b["term"]
        if t and t["k"] in ("call", "yield"):
            d = t.get("dest") if t["k"] == "call" else t.get("resume_arg")
            if isinstance(d, dict):
                if d["p"]:
                    part.add(d["l"])
                else:
                    defs.setdefault(d["l"], []).append(("call", t))
        if t and t["k"] == "goto" and t.get("sugar_site") and isinstance(t["sugar_site"].get("dest"), dict):
            d = t["sugar_site"]["dest"]
            defs.setdefault(d["l"], []).append(("call", t["sugar_site"]))
    mut_borrowed = set()
    for b in blocks:
        for s in b["stmts"]:
            if s["k"] == "assign" and s["rv"]["k"] in ("ref", "rawptr") and (s["rv"].get("mut") or s["rv"]["k"] == "rawptr"):
                mut_borrowed.add(s["rv"]["place"]["l"])

    def stable(l):
        if l in part or l in mut_borrowed:
            return False
        n = len(defs.get(l, []))
        return n == 1 or (n == 0 and 1 <= l <= argc)

    def is_dc(e):
        return isinstance(e, dict) and "dc" in e

    def is_f(e):
        return isinstance(e, dict) and "f" in e

    def same(a, b):
        return a == b

    def find_value(l, path, depth, seen):
        """candidates for the value read at `l.path`: list of operands ({"k":..} constants or
        {"c": place}); _FAIL if it cannot be narrowed down"""
        key = (l, len(path))
        if depth > 12 or key in seen or l in part or l in mut_borrowed:
            return _FAIL
        if not path:
            return [{"c": {"l": l, "p": []}}] if stable(l) else _FAIL
        if not (is_dc(path[0]) or is_f(path[0])):
            return [{"c": {"l": l, "p": list(path)}}] if stable(l) else _FAIL
        seen = seen | {key}
        ds = defs.get(l, [])
        if not ds:
            return [{"c": {"l": l, "p": list(path)}}] if stable(l) else _FAIL
        out = []

        def add(c):
            if not any(same(c, o) for o in out):
                out.append(c)
        for kind, x in ds:
            if kind == "call":
                nm = (x.get("res") or x.get("def") or "")
                if is_dc(path[0]) and _NONE_PRODUCERS.search(nm):
                    continue
                if _TRY_BRANCH.search(nm) and len(path) >= 2 and is_dc(path[0]) and str(path[0]["dc"]) == "Continue" and is_f(path[1]) and str(path[1]["f"]) == "0" and x.get("args"):
                    apl = operand_place(x["args"][0])
                    if apl is None or any(not (is_dc(e) or is_f(e)) for e in apl["p"]):
                        return _FAIL
                    aty = locals_[apl["l"]].get("ty") or ""
                    if apl["p"]:
                        return _FAIL
                    if aty.startswith("std::option::Option<"):
                        v = "Some"
                    elif aty.startswith("std::result::Result<"):
                        v = "Ok"
                    else:
                        return _FAIL
                    r = find_value(apl["l"], [{"dc": v}, {"f": "0"}] + list(path[2:]), depth + 1, seen)
                    if r is _FAIL:
                        return _FAIL
                    for c in r:
                        add(c)
                    continue
                if len(ds) == 1 and stable(l):
                    return [{"c": {"l": l, "p": list(path)}}]
                return _FAIL
            rv = x["rv"]
            if rv["k"] == "use":
                pl = operand_place(rv["op"])
                if pl is None:
                    return _FAIL
                if any(not (is_dc(e) or is_f(e)) for e in pl["p"]):
                    if len(ds) == 1 and stable(l):
                        return [{"c": {"l": l, "p": list(path)}}]
                    return _FAIL
                r = find_value(pl["l"], list(pl["p"]) + list(path), depth + 1, seen)
                if r is _FAIL:
                    if len(ds) == 1 and stable(l):
                        return [{"c": {"l": l, "p": list(path)}}]
                    return _FAIL
                for c in r:
                    add(c)
            elif rv["k"] == "agg" and rv.get("agg") in ("adt", "tuple"):
                q = list(path)
                if is_dc(q[0]):
                    if rv.get("agg") != "adt":
                        return _FAIL
                    if str(rv.get("variant")) != str(q[0]["dc"]):
                        continue            # another variant: not what a read through this downcast sees
                    q = q[1:]
                if not q or not is_f(q[0]):
                    return _FAIL
                f = str(q[0]["f"])
                names = [str(n) for n in (rv.get("fields") or [])]
                ops = rv["ops"]
                if names and f in names:
                    k = names.index(f)
                elif not names and f.isdigit():
                    k = int(f)
                else:
                    return _FAIL
                if k >= len(ops):
                    return _FAIL
                op = ops[k]
                rest = q[1:]
                opl = operand_place(op)
                if opl is None:
                    if rest:
                        return _FAIL
                    add(op)
                    continue
                if any(not (is_dc(e) or is_f(e)) for e in opl["p"]):
                    return _FAIL
                r = find_value(opl["l"], list(opl["p"]) + rest, depth + 1, seen)
                if r is _FAIL:
                    return _FAIL
                for c in r:
                    add(c)
            else:
                if len(ds) == 1 and stable(l):
                    return [{"c": {"l": l, "p": list(path)}}]
                return _FAIL
        return out

    count = [0]

    def resolve(place):
        p = place["p"]
        if not p or not (is_dc(p[0]) or is_f(p[0])):
            return None
        # the leading run of field / downcast projections
        k = 0
        while k < len(p) and (is_dc(p[k]) or is_f(p[k])):
            k += 1
        head, tail = p[:k], p[k:]
        r = find_value(place["l"], head, 0, frozenset())
        if r is _FAIL or len(r) != 1:
            return None
        c = r[0]
        cpl = operand_place(c)
        if cpl is None:
            return None if tail else c
        new = {"l": cpl["l"], "p": list(cpl["p"]) + list(tail)}
        if new == place:
            return None
        return {"c": new}

    def fix_operand(op):
        pl = operand_place(op)
        if pl is None or not pl["p"]:
            return op
        r = resolve(pl)
        if r is None:
            return op
        count[0] += 1
        if "k" in r:
            return r
        return {"m" if "m" in op else "c": operand_place(r)}

    def fix_place(pl):
        if not pl["p"]:
            return pl
        r = resolve(pl)
        if r is None or "k" in r:
            return pl
        count[0] += 1
        return operand_place(r)

    for b in blocks:
        if b.get("cleanup"):
            continue
        for s in b["stmts"]:
            if s["k"] != "assign":
                continue
            rv = s["rv"]
            for k in ("op", "a", "b"):
                if isinstance(rv.get(k), dict) and ("c" in rv[k] or "m" in rv[k]):
                    rv[k] = fix_operand(rv[k])
            if rv["k"] in ("ref", "len") and isinstance(rv.get("place"), dict) and not (rv["k"] == "ref" and rv.get("mut")):
                rv["place"] = fix_place(rv["place"])
            if "ops" in rv:
                rv["ops"] = [fix_operand(o) if ("c" in o or "m" in o) else o for o in rv["ops"]]
        t = b["term"]
        if t:
            if isinstance(t.get("op"), dict) and ("c" in t["op"] or "m" in t["op"]):
                t["op"] = fix_operand(t["op"])
            if "args" in t:
                t["args"] = [fix_operand(a) if ("c" in a or "m" in a) else a for a in t["args"]]
    return count[0]
