#!/bin/bash
# Extract MIR facts from a blockwatch source tree.  usage: extract.sh <src-root> <out-prefix> [extra RUSTFLAGS]
# Leaves <out-prefix>.blockwatch.lib.json and <out-prefix>.blockwatch.bin.json
set -u
HERE=$(dirname "$(readlink -f "$0")")
SRC=${1:-/repo}
OUT=${2:-$HERE/.cache/facts/cur}
EXTRA=${3:-}
T=${BW_TARGET_DIR:-$HERE/.cache/target}
DRV=$HERE/driver/target/release/bwfacts
# (re)build the extractor when it is missing or older than its source
if [ ! -x "$DRV" ] || [ "$HERE/driver/src/main.rs" -nt "$DRV" ]; then (cd "$HERE/driver" && cargo build --release --offline >&2) || exit 2; fi
mkdir -p "$(dirname "$OUT")" "$T"
rm -f "$OUT".blockwatch.lib.json "$OUT".blockwatch.bin.json
rm -rf "$T"/debug/.fingerprint/blockwatch-*
NONCE=${BWFACTS_NONCE:-$(date +%s%N)}
cd "$SRC" || exit 2
CARGO_NET_OFFLINE=true CARGO_INCREMENTAL=0 LD_LIBRARY_PATH=$(rustc +nightly --print sysroot)/lib \
 RUSTFLAGS="-Zmir-opt-level=0 -Awarnings $EXTRA" RUSTC_WORKSPACE_WRAPPER=$DRV CARGO_TARGET_DIR=$T \
 BWFACTS_OUT=$OUT BWFACTS_NONCE=$NONCE \
 cargo +nightly check --offline --locked --lib --bins >"$OUT.log" 2>&1
rc=$?
if [ $rc -ne 0 ]; then echo "extract: cargo check failed (rc=$rc), see $OUT.log" >&2; tail -20 "$OUT.log" >&2; exit 2; fi
[ -s "$OUT".blockwatch.lib.json ] && [ -s "$OUT".blockwatch.bin.json ] || { echo "extract: fact files missing" >&2; exit 2; }
echo "$NONCE"
