"""C04 — No crash or hang on any input.

Decided: absence of an undischarged panic-capable site, of an unclassified loop and of recursion
in blockwatch's own code reachable from main. Every panic-capable site (unwrap/expect, explicit
panic, Index on str/slice/map, arithmetic overflow assert, a table of panicking std APIs) is
enumerated from MIR — so nothing depends on spelling — and must be auto-safe (sum of two in-memory
sizes), or carry a discharge in spec/panic_sites.json (invariant / std contract / dependency
contract / input-independent), else it is a violation. Every CFG cycle must be iterator-, pop-,
join- or await-driven, or be tabled with its variant in spec/loops.json; the call graph must be
acyclic (recursion depth would follow input nesting); process::exit only in the report.
Not decided: panics or non-termination inside dependencies (tree-sitter C code, regex, unidiff,
similar, ignore, mlua, async-openai), stack depth of the dependencies, OS failures.
"""
import json
import os
import re

from engine import census
from engine.cfg import cfg_of
from engine.expr import render, walk
from engine.facts import callee_name, callee_matches
from engine import prov as P
from rules import shared, util

SPEC = os.path.join(os.path.dirname(os.path.dirname(os.path.abspath(__file__))), "spec")


def _labels(ctx, b, op):
    return ctx.prov.resolve_upvars(b, ctx.prov.read_operand(b, op))


INFALLIBLE_JSON = re.compile(r"^&?(&?str|usize|u64|u32|i64|bool|std::string::String|std::collections::HashMap<std::string::String, std::string::String>|std::option::Option<&?str>|&std::string::String|&usize|&bool|&std::collections::HashMap<std::string::String, std::string::String>)$")


def _str_root(b, op, depth=0):
    """the local that holds the string an operand designates, looking through references, copies,
    `Deref` / `as_str` and prefix slices `s[..x]` (an offset into a prefix is an offset into s)"""
    pl = util.op_place(op) if ("c" in op or "m" in op) else op
    if pl is None or "l" not in pl:
        return None
    l = pl["l"]
    for _ in range(12):
        ds = [d for d in b.defs().get(l, []) if d[0] in ("stmt", "call")]
        if len(ds) != 1 or l <= b.argc:
            return l
        d = ds[0]
        if d[0] == "stmt":
            rv = d[3]["rv"]
            if rv["k"] in ("ref", "rawptr") and not any(isinstance(x, dict) for x in rv["place"]["p"]):
                l = rv["place"]["l"]
                continue
            if rv["k"] in ("use", "cast"):
                p2 = util.op_place(rv["op"])
                if p2 is not None and not any(isinstance(x, dict) and "f" in x for x in p2["p"]):
                    if b.locals[l].get("user") and any(isinstance(x, dict) for x in p2["p"]):
                        return l
                    l = p2["l"]
                    continue
            return l
        tt = d[3]
        nm = callee_name(tt)
        if re.search(r"Deref>?::deref$|String::as_str$|AsRef<.*>>?::as_ref$|Borrow<.*>>?::borrow$", nm) and tt["args"]:
            p2 = util.op_place(tt["args"][0])
            if p2 is None:
                return l
            l = p2["l"]
            continue
        if census.INDEX.search(tt.get("def") or nm) and len(tt["args"]) >= 2:
            rp = util.op_place(tt["args"][1])
            rty = b.local_ty(rp["l"]) if rp is not None else ""
            if "RangeTo<" in rty and "Inclusive" not in rty:
                p2 = util.op_place(tt["args"][0])
                if p2 is None:
                    return l
                l = p2["l"]
                continue
        return l
    return l


def _same_string(b, e, recv_root):
    """the call expression `e` (a search / len) is applied to the sliced string or a prefix of it"""
    if e[0] == "call" and len(e) > 3 and isinstance(e[3], int):
        tt = b.blocks[e[3]]["term"]
        if tt and tt.get("args"):
            return _str_root(b, tt["args"][0]) == recv_root
    return False


def _search_bound(ctx, b, E, e, recv_vars, depth):
    if depth > 6:
        return False
    while e[0] == "proj" and len(e) > 1:
        e = e[1]
    if e[0] == "cast":
        return _search_bound(ctx, b, E, e[2], recv_vars, depth + 1)
    if e[0] == "const":
        return e[1] == 0
    if e[0] == "call":
        if re.search(r"<impl str>::len$|string::String::len$", e[1]) and e[2]:
            return _same_string(b, e, recv_vars)
        if re.search(r"<impl str>::(find|rfind)$", e[1]) and e[2]:
            return _same_string(b, e, recv_vars)
        if re.search(r"Try>?::branch$|Option::<T>::(unwrap|expect|unwrap_or|unwrap_or_else|filter)$|Iterator>?::next$", e[1]) and e[2]:
            if re.search(r"unwrap_or$", e[1]) and len(e[2]) > 1 and not _search_bound(ctx, b, E, e[2][1], recv_vars, depth + 1):
                return False
            return _search_bound(ctx, b, E, e[2][0], recv_vars, depth + 1)
        if re.search(r"<impl str>::(match_indices|rmatch_indices|char_indices)$", e[1]) and e[2]:
            return _same_string(b, e, recv_vars)
        if re.search(r"Iterator::(rev|peekable|by_ref|skip|take)$|IntoIterator>?::into_iter$", e[1]) and e[2]:
            return _search_bound(ctx, b, E, e[2][0], recv_vars, depth + 1)
        return False
    if e[0] == "bin" and e[1].startswith("Add") and e[3][0] == "const" and isinstance(e[3][1], int):
        # i + k after a search for a constant pattern of exactly k bytes (one-byte ASCII char, or a k-byte str)
        inner = e[2]
        while inner[0] == "proj" and len(inner) > 1:
            inner = inner[1]
        srch = [c for c in walk(inner) if c[0] == "call" and re.search(r"<impl str>::(find|rfind|match_indices|rmatch_indices)$", c[1])]
        if len(srch) == 1 and len(srch[0][2]) > 1:
            pat = srch[0][2][1]
            plen = None
            if pat[0] == "const" and isinstance(pat[1], int) and 0 < pat[1] < 128:
                plen = 1
            elif pat[0] == "const" and isinstance(pat[1], str):
                plen = len(pat[1].encode())
            if plen is not None and 0 < e[3][1] <= plen and pat[0] == "const" and (isinstance(pat[1], int) or e[3][1] == plen):
                return _search_bound(ctx, b, E, e[2], recv_vars, depth + 1)
        return False
    if e[0] in ("var",) and isinstance(e[1], int):
        ds = [d for d in b.defs().get(e[1], []) if d[0] in ("stmt", "call")]
        if not ds or e[1] <= b.argc:
            return False
        for d in ds:
            if d[0] == "stmt":
                ev = E.rvalue(d[3]["rv"])
                if ev == e:
                    return False
                if not _search_bound(ctx, b, E, ev, recv_vars, depth + 1):
                    return False
            else:
                ev = E.call(d[3], d[1])
                if not _search_bound(ctx, b, E, ev, recv_vars, depth + 1):
                    return False
        return True
    return False


def auto_discharge(ctx, s):
    """Function-independent discharges by contract. Returns (class, reason) or None."""
    kind = s["kind"]
    b = s["body"]
    t = s.get("term") or {}
    if kind in ("std:join",):
        return ("std-contract", "JoinHandle::join returns Err for a panicked thread; it does not panic itself")
    if kind in ("std:spawn",) and (t.get("def") or "").startswith("std::thread::spawn"):
        return ("os-failure", "std::thread::spawn panics only if the OS cannot create a thread; not input dependent")
    if kind == "std:drain" and ((t.get("arg_tys") or ["", ""]) + [""])[1] == "std::ops::RangeFull":
        return ("std-contract", "drain(..) over the full range cannot be out of bounds")
    if kind == "std:repeat" and t.get("args") and len(t["args"]) == 2:
        # `" ".repeat(n)` of a constant one-byte string with n bounded by the length of a string that already
        # exists (n = x.len(), or an index / a difference of indices of one): the product cannot overflow
        unit = util.const_val(ctx, b, t["args"][0])
        nl = _labels(ctx, b, t["args"][1])
        ncalls = {l[1] for l in nl if l[0] == "call"}
        if isinstance(unit, str) and len(unit.encode()) == 1 and ncalls and not any(l[0] == "const" and str(l[1]).isdigit() and int(l[1]) > 4096 for l in nl) \
                and all(re.search(r"<impl str>::(len|find|rfind)$|string::String::len$|regex::Match(::<'h>)?::(start|end|len)$|Deref>?::deref$|Iterator>?::next$|<impl \[T\]>::iter$|IntoIterator>?::into_iter$", c) for c in ncalls) \
                and any(re.search(r"::len$|::find$|::rfind$|::start$|::end$", c) for c in ncalls):
            return ("std-contract", "a one-byte string repeated at most len(an existing string) times cannot overflow the capacity")
    if kind in ("std:insert", "std:split_at", "std:split_at_mut") and t.get("args") and len(t["args"]) >= 2:
        # `v.insert(i, x)` / `s.split_at(i)` panic when i > len. An index that is the result of an ordered or
        # linear search over the same vector - `partition_point(..)` (<= len by contract), or
        # `iter().(r)position(..)` (< len), at most + 1 - is in range, provided the vector is not changed between
        # the search and the use
        E = ctx.expr(b)
        e = E.operand(t["args"][1])
        while e[0] in ("proj", "cast") and len(e) > 2:
            e = e[1] if e[0] == "proj" else e[2]

        def plus_one_closure(ce):
            # `|i| i + 1`: a closure whose body only adds the constant 1
            if not (ce[0] == "agg" and str(ce[1]).startswith("closure:")):
                return False
            cb2 = ctx.facts.body(str(ce[1])[8:])
            if cb2 is None or any(True for _ in cb2.calls()):
                return False
            adds = [s2["rv"] for _, _, s2 in cb2.assigns() if s2["rv"]["k"] == "bin"]
            return len(adds) == 1 and adds[0]["op"].startswith("Add") and any(isinstance(x.get("k"), dict) and x["k"].get("int") == 1 for x in (adds[0]["a"], adds[0]["b"]))
        searched = False
        if e[0] == "call" and re.search(r"<impl \[T\]>::partition_point$", e[1]):
            searched = True
        elif e[0] == "call" and re.search(r"option::Option::<T>::map_or$", e[1]) and len(e[2]) == 3:
            inner, dflt, clo = e[2]
            if inner[0] == "call" and re.search(r"Iterator>?::(position|rposition)$", inner[1]) and dflt[0] == "const" and dflt[1] in (0, 1) and plus_one_closure(clo):
                searched = True
        elif e[0] == "call" and re.search(r"Iterator>?::(position|rposition)$", e[1]):
            searched = True
        vec_txt = render(E.operand(t["args"][0]), 200)
        if searched and vec_txt and vec_txt in render(e, 2000):      # ... over the very vector that is indexed
            base = util.base_path(b, t["args"][0])
            cfg = cfg_of(b)
            ins_bb = next((bi for bi, tt in b.calls() if tt is t), None)
            s_bbs = [bi for bi, tt in b.calls() if re.search(r"partition_point$|Iterator>?::(position|rposition)$", callee_name(tt))]
            muts = [bi for bi, tt in b.calls() if tt is not t and tt["args"] and re.match(r"&mut std::vec::Vec<", (tt.get("arg_tys") or [""])[0]) and util.base_path(b, tt["args"][0]) == base
                    and not re.search(r"Deref(Mut)?>?::deref(_mut)?$|::(iter|iter_mut|len|is_empty|last|first|as_slice)$", callee_name(tt))]
            between = False
            for sb in s_bbs:
                r1 = cfg.reach(sb)
                for mb in muts:
                    if mb in r1 and mb != sb and ins_bb is not None and ins_bb in cfg.reach(mb) and mb != ins_bb:
                        between = True
            if ins_bb is not None and s_bbs and not between:
                return ("std-contract", "the index is the result of `partition_point` / `position` / `rposition` over the same vector (at most + 1), which is not changed in between: it cannot exceed the length")
    if kind in ("std:borrow_mut", "std:borrow") and (t.get("def") or "").startswith("std::cell::RefCell"):
        # a RefCell panics on a second overlapping borrow. RefCell is never Sync, so overlap needs two
        # activations on one thread: with a single borrowing site for this cell type in the reachable crate
        # code, that is recursion through the site's function (decided by C04.recursion)
        rty = re.sub(r"^&(mut )?", "", (t.get("arg_tys") or [""])[0])
        sites = [(b2.id, bi) for b2 in ctx.reachable_bodies() if b2.promoted is None for bi, t2 in b2.calls()
                 if re.match(r"std::cell::RefCell::<T>::(try_)?borrow(_mut)?$", t2.get("def") or "") and re.sub(r"^&(mut )?", "", (t2.get("arg_tys") or [""])[0]) == rty]
        if len(sites) == 1 and rty:
            return ("invariant", "the only borrow of a `%s` in the reachable crate code: no second borrow can overlap it (RefCell is not Sync; the call graph is acyclic)" % rty)
    if kind == "index-json":
        return ("std-contract", "Index<&str> / Index<usize> for serde_json::Value returns Null for a missing key; it does not panic")
    if kind in ("index-str", "index-slice") and t.get("args") and len(t["args"]) > 1:
        labs = _labels(ctx, b, t["args"][1])
        calls = {l[1] for l in labs if l[0] == "call"}
        other = {l for l in labs if l[0] not in ("call", "const")}
        # the index *is* a node's byte range (or is built from start_byte / end_byte): the producing
        # call(s) of the value itself; what the node was derived from is irrelevant
        ie = s.get("index")
        direct = []
        if ie is not None:
            parts = [ie] if ie[0] != "agg" else list(ie[2])
            for pe in parts:
                while pe[0] in ("proj", "cast") and len(pe) > 1:
                    pe = pe[1] if pe[0] == "proj" else pe[2]
                direct.append(pe)
        if direct and all(pe[0] == "call" and re.search(r"^tree_sitter::Node::<'tree>::(byte_range|start_byte|end_byte)$", pe[1]) for pe in direct):
            return ("dependency-contract", "tree-sitter reports node byte ranges inside the parsed UTF-8 text and on char boundaries")
        if calls and not other and all(re.search(r"^tree_sitter::Node::<'tree>::(byte_range|start_byte|end_byte)$", c) for c in calls) and not any(l[0] == "const" for l in labs):
            return ("dependency-contract", "tree-sitter reports node byte ranges inside the parsed UTF-8 text and on char boundaries")
        if calls and not other and all(re.search(r"<impl \[T\]>::partition_point$", c) for c in calls) and (s["index"][0] == "agg" and s["index"][1].endswith("RangeFrom")):
            rl = _labels(ctx, b, t["args"][0])
            return ("std-contract", "partition_point returns an index <= len")
        # `&v[..k]` / `&v[k..]` with k the direct result of a search over the same slice
        ie0 = s.get("index")
        if ie0 is not None and ie0[0] == "agg" and re.search(r"Range(From|To)$", str(ie0[1])) and len(ie0[2]) == 1:
            be = ie0[2][0]
            while be[0] in ("proj", "cast") and len(be) > 2:
                be = be[1] if be[0] == "proj" else be[2]
            recv_txt = render(ctx.expr(b).operand(t["args"][0]), 200)
            if be[0] == "call" and re.search(r"option::Option::<T>::unwrap_or$", be[1]) and len(be[2]) == 2:
                # `position(..).unwrap_or(v.len())` / `.unwrap_or(0)`
                d_ = be[2][1]
                if (d_[0] == "const" and d_[1] == 0) or (d_[0] == "call" and re.search(r"<impl \[T\]>::len$|vec::Vec::<T, A>::len$", d_[1]) and recv_txt and recv_txt in render(d_, 400)):
                    be = be[2][0]
            if be[0] == "call" and re.search(r"<impl \[T\]>::partition_point$|Iterator>?::(position|rposition)$", be[1]) and recv_txt and recv_txt in render(be, 2000):
                return ("std-contract", "the bound is the result of `partition_point` / `position` over the same slice: it cannot exceed the length")
    if kind == "index-str" and s.get("index") is not None and s.get("recv") is not None:
        # bounds produced by searching the very string that is sliced: `s[..s.rfind(p)?]`, `s[i..]` with
        # i = s.find(p), `s[i + 1..]` after a one-byte ASCII pattern, `s[..e]` with e = s.len() or an
        # earlier search result in a prefix `s[..e']`. std contract: find / rfind / match_indices return
        # byte offsets of s that lie on char boundaries; an offset found in a prefix is an offset of s.
        E = ctx.expr(b)
        ie = s["index"]
        recv_vars = _str_root(b, t["args"][0]) if t.get("args") else None
        # (two-sided ranges are not discharged here: both ends being valid offsets does not make start <= end)
        if ie[0] == "agg" and re.search(r"ops::Range(From|To)::Range(From|To)$|ops::Range(From|To)$", ie[1]) and ie[2] and recv_vars is not None:
            if all(_search_bound(ctx, b, E, pe, recv_vars, 0) for pe in ie[2]):
                return ("std-contract", "the bound is the length of the sliced string or the result of find / rfind / match_indices on (a prefix of) that same string, plus the byte length of a one-byte pattern at most: in bounds and on a char boundary")
    if kind == "bounds" and s.get("b_op") is not None:
        # `v[i]` under a dominating `i < v.len()` with i unchanged in between (the `while i < v.len()` scan)
        cfg = cfg_of(b)
        E = ctx.expr(b)
        ipl = util.op_place(s["b_op"])
        site_bb = s["bb"]
        if ipl is not None:
            i_root = util.copy_root(b, ipl["l"])
            len_vars = {x[1] for x in walk(s["a"]) if x[0] in ("var", "param") and isinstance(x[1], int)}
            for bj, tt in b.terms():
                if tt["k"] != "switch" or not cfg.dominates(bj, site_bb) or bj == site_bb:
                    continue
                e = E.operand(tt["op"])
                if not (e[0] == "bin" and e[1] in ("Lt", "Gt")):
                    continue
                small, big = (e[2], e[3]) if e[1] == "Lt" else (e[3], e[2])
                if not (small[0] == "var" and util.copy_root(b, small[1]) == i_root):
                    continue
                if not any(c[0] == "call" and re.search(r"<impl \[T\]>::len$|Vec::<T, A>::len$", c[1]) for c in walk(big)) and big[0] != "len":
                    continue
                bvars = {x[1] for x in walk(big) if x[0] in ("var", "param") and isinstance(x[1], int)}
                if len_vars and bvars and not (len_vars & bvars):
                    # different containers by name: compare by storage identity of the sliced value
                    pass
                arms = util.switch_arms(b, bj)
                true_arm = arms["otherwise"] if 0 in arms else arms.get(1)
                if true_arm is None or not cfg.dominates(true_arm, site_bb):
                    continue
                between = cfg.reach(true_arm, avoid={site_bb})
                redefs = [d for d in b.defs().get(i_root, []) if d[1] in between and cfg.can_reach(d[1], site_bb, avoid={bj})]
                if not redefs:
                    return ("guarded", "the index is compared with the slice's length (`i < v.len()`) on the way to the access and not changed in between")
    if kind == "overflow-Sub" and s.get("a") and s.get("b"):
        # len(x) - len(part of x): a trimmed / stripped slice is never longer than the string it was cut from
        a, bb = s["a"], s["b"]
        if a[0] == "call" and re.search(r"<impl str>::len$", a[1]) and bb[0] == "call" and re.search(r"<impl str>::len$", bb[1]) and a[2] and bb[2]:
            part = bb[2][0]
            if part[0] == "call" and re.search(r"<impl str>::(trim|trim_start|trim_end|trim_start_matches|trim_end_matches|trim_matches|trim_ascii|trim_ascii_start|trim_ascii_end)$", part[1]) and part[2] \
                    and render(part[2][0], 300) == render(a[2][0], 300):
                return ("std-contract", "a trimmed slice is never longer than the string it was cut from")
    if kind == "unwrap" and s.get("operand") and s["operand"][0] == "call" and s["operand"][1] == "serde_json::to_value":
        ct = b.blocks[s["operand"][3]]["term"] if len(s["operand"]) > 3 and isinstance(s["operand"][3], int) else None
        ty = ((ct or {}).get("targs") or [""])[0]
        if INFALLIBLE_JSON.match(ty):
            return ("std-contract", "serde_json::to_value cannot fail for `%s`" % ty)
    return None


def check_content_range(ctx, out, rule="C04.contentrange"):
    """The invariant behind the discharged slice in `Block::content` (`&source[content_bytes_range]`): the range
    is `0..0`, or runs from the end of the start tag's comment to the start of the end tag's comment *and these
    are two different comments* (then the first precedes the second in the file). Every `Range<usize>` that
    reaches `Block::new` as the content byte range is either the constant `0..0` or is built on a path on which
    `Rc::ptr_eq(start comment, end comment)` was tested and found false (or its two ends were compared). A
    range built from one comment's end and the same comment's start has start > end: slicing panics."""
    n = 0
    sites = []
    for b in ctx.reachable_bodies():
        if b.promoted is not None:
            continue
        if any((t.get("res") or "") == "blockwatch::blocks::Block::new" for bi, t in b.calls()):
            sites.append(b)
    for b0 in sites:
        v = ctx.inl(b0, skip=lambda cb: cb.id == "blockwatch::blocks::Block::new" or ctx.domain_api(cb), tag="C04-contentrange", sugar=True)
        cfg = cfg_of(v)
        for bi, t in v.calls():
            if (t.get("res") or "") != "blockwatch::blocks::Block::new" or bi not in cfg.reachable:
                continue
            idx = [i for i, ty in enumerate(t.get("arg_tys") or []) if ty == "std::ops::Range<usize>"]
            if len(idx) != 1:
                continue
            # the aggregates that may be the value of this operand
            aggs = []
            work = [t["args"][idx[0]]]
            seen = set()
            while work:
                op = work.pop()
                pl = op.get("c") or op.get("m")
                if pl is None or pl["p"] or pl["l"] in seen:
                    continue
                seen.add(pl["l"])
                for d in v.defs().get(pl["l"], []):
                    if d[0] == "stmt" and not d[3]["lhs"]["p"]:
                        rv = d[3]["rv"]
                        if rv["k"] == "agg" and (rv.get("path") or "").endswith("ops::Range"):
                            aggs.append((d[1], d[3]))
                        elif rv["k"] == "use":
                            work.append(rv["op"])
                        else:
                            aggs.append((d[1], None))
                    elif d[0] == "call":
                        aggs.append((d[1], None))
            if not aggs:
                out.viol(rule, "%s|%s|unresolved" % (rule, b0.id), ctx.where(v, t["span"]), "the content byte range handed to `Block::new` could not be traced to the ranges it is built from")
                continue
            for abi, st in aggs:
                if st is None:
                    out.viol(rule, "%s|%s|unresolved" % (rule, b0.id), ctx.where(v, t["span"]), "the content byte range handed to `Block::new` is not a range built in place: its start <= end invariant is not visible")
                    continue
                ops = st["rv"]["ops"]
                if all(isinstance(o.get("k"), dict) and o["k"].get("int") == 0 for o in ops):
                    n += 1
                    continue
                gs = util.guards(ctx, v, abi)
                ok = False
                for br, vals, e in gs:
                    txt = render(e, 400)
                    if "ptr_eq(" in txt and vals == {0}:
                        ok = True
                    if e[0] == "bin" and e[1] in ("Le", "Lt", "Ge", "Gt") and "source_range" in txt:
                        ok = True
                if ok:
                    n += 1
                else:
                    out.viol(rule, "%s|%s|unguarded" % (rule, b0.id), ctx.where(v, st["span"]),
                             "a block's content byte range is built as `%s` on a path that has not established that the two tags lie in different comments (`!Rc::ptr_eq(..)`): for a block opened and closed in one comment the range starts at the comment's end and ends at its start, and `Block::content` panics slicing the source with it" % render(ctx.expr(v).rvalue(st["rv"]), 160))
    out.inst(rule, n, 2, note="content byte ranges reaching Block::new: the constant 0..0, or built under !Rc::ptr_eq(start comment, end comment)")


def check_census(ctx, out, rule="C04.census", within=None, floor=150, kinds=None):
    """Every panic-capable site of the reachable bodies (of `within`, a set of body ids, when given) is discharged:
    by a contract rule, or by a reviewed entry of spec/panic_sites.json."""
    table = json.load(open(os.path.join(SPEC, "panic_sites.json")))
    bodies = ctx.reachable_bodies()
    S = census.sites(ctx, bodies)
    if within is not None:
        S = [s for s in S if s["body"].id in within]
    n_all = len(S)
    if kinds is not None:
        S = [s for s in S if kinds(s)]
    n_auto = n_tab = n_contract = 0
    groups = {}
    by_class = {}
    used = set()
    samples = []
    auto_now = {}
    for s in S:
        b = s["body"]
        if s["kind"] == "overflow-Add":
            # auto-safe: sum of two in-memory sizes / positions; not if a huge constant or a
            # user-parsed number takes part
            bad = False
            for side in ("a", "b"):
                e = s.get(side)
                for x in walk(e) if e else []:
                    if x[0] == "const" and isinstance(x[1], int) and x[1] > (1 << 40):
                        bad = True
                    if x[0] == "call" and re.search(r"<impl str>::parse$|FromStr", x[1]):
                        bad = True
            if not bad:
                n_auto += 1
                continue
        ad = auto_discharge(ctx, s)
        if ad is not None:
            n_contract += 1
            by_class[ad[0]] = by_class.get(ad[0], 0) + 1
            auto_now[s["ckey"]] = auto_now.get(s["ckey"], 0) + 1
            continue
        ck0 = s["ckey"]
        if ck0 not in table:
            # an invariant of a type (`Position.character >= 1`) holds wherever the expression is written
            tail = ck0.split("|", 1)[1] if "|" in ck0 else ck0
            for tk, tv in table.items():
                if tv.get("anyfile") and tk.split("|", 1)[1] == tail:
                    ck0 = tk
                    break
        if ck0 not in table and ck0.endswith("[RangeToInclusive]"):
            # `s[..=i]` is `s[..i + 1]`: the reviewed argument for the half-open spelling in this file covers it
            alt = ck0[:-len("[RangeToInclusive]")] + "[RangeTo]"
            if alt in table:
                ck0 = alt
        if ck0 not in table:
            # an index that is a field of a local (`self.idx`, a destructured argument struct) is an index held
            # in a variable: the reviewed argument for `v[i]` in this file covers it
            m_al = re.match(r"^(.*\|index-[a-z]+\|[^\[\]]*)\[\.\w+\]$", ck0)
            if m_al and (m_al.group(1) + "[i]") in table:
                ck0 = m_al.group(1) + "[i]"
        groups.setdefault(ck0, []).append(s)
    for ck, ss in sorted(groups.items()):
        d = table.get(ck)
        if d is not None:
            # sites of this shape that a contract rule discharged on the reviewed tree and that it no
            # longer recognises (the same access written differently) keep their slot
            d = dict(d)
            d["count"] = d.get("count", 0) + max(0, d.get("auto", 0) - auto_now.get(ck, 0))
        if d is not None and len(ss) <= d["count"]:
            n_tab += len(ss)
            used.add(ck)
            by_class[d["class"]] = by_class.get(d["class"], 0) + len(ss)
            if len(samples) < 5:
                samples.append("%s: %s" % (ck[:70], d["class"]))
            continue
        have = d["count"] if d else 0
        for s in ss:
            b = s["body"]
            known = d is not None and b.id in d.get("sites", [])
            if known and have > 0:
                have -= 1
                continue
            out.viol(rule, rule + "|%s|%s" % (ck, b.id if d is None else "+%d" % (len(ss) - d["count"])), ctx.where(b, s["span"]),
                     "panic-capable site without a discharge: %s `%s` in %s (%s) — if its operand can take the failing value for some file, diff or attribute text, blockwatch aborts (exit 101) instead of reporting; give the site a guard, make the operation total, or record the invariant that makes it safe in spec/panic_sites.json"
                     % (s["kind"], s["detail"], b.id, "no site of this shape is reviewed in this file" if d is None else "%d site(s) of this shape in this file, %d reviewed" % (len(ss), d["count"])))
    unused = sorted(set(table) - used)
    if unused and within is None:
        out.note("discharge entries that match no site any more (informational): %d" % len(unused))
    out.inst(rule, n_auto + n_tab + n_contract, floor, samples,
             note="%d panic-capable sites: %d auto-safe additions, %d discharged by a std / dependency contract rule, %d tabled (file|kind|shape with counts) %s" % (len(S), n_auto, n_contract, n_tab, json.dumps(by_class, sort_keys=True)))

    return S, n_auto, n_tab, by_class


def run(ctx, out, tier):
    check_content_range(ctx, out)
    # ... which also rests on the comments reaching the pairing function in document order (Markdown merges its two
    # comment kinds by position; shared with C03)
    from rules.C03 import check_order as _check_order
    shared.run_renamed(out, lambda o: _check_order(ctx, o), "C03", "C04")
    loops_t = json.load(open(os.path.join(SPEC, "loops.json")))
    bodies = ctx.reachable_bodies()
    S, n_auto, n_tab, by_class = check_census(ctx, out)
    # ------------------------------------------------------------------ loops
    L = census.cycles(ctx, bodies)
    n_l = 0
    variants = {}
    seen_keys = {}
    for l in L:
        b = l["body"]
        variants[l["variant"]] = variants.get(l["variant"], 0) + 1
        if l["variant"] in ("iterator", "await", "tree-cursor", "counter", "counter-up", "ancestor-walk", "shrinking-prefix", "shrinking-bound"):
            n_l += 1
            continue
        if l["variant"] in ("shrinking-slice", "advancing-offset"):
            n_l += 1
            # the tag scanner: the advance past a rejected `<` must be exactly 1 (>= 1 terminates,
            # <= 1 skips no candidate tag)
            if "tag_parser" in (b.span or {}).get("file", "") and l["detail"] != "1":
                out.viol("C04.loops", "C04.loops|cursor-constant", ctx.where(b),
                         "the tag scanner re-slices the input by %s after a rejected `<`; the advance must be exactly 1 (0 never terminates, more than 1 skips candidate tags)" % l["detail"])
            continue
        key = l["key"]
        seen_keys[key] = seen_keys.get(key, 0) + 1
        if key in loops_t and seen_keys[key] == 1:
            n_l += 1
            # the byte-cursor loop: the advance constant must be exactly 1
            if "cursor advance" in loops_t[key]["variant"]:
                consts = set()
                for x in l["blocks"]:
                    for st in b.blocks[x]["stmts"]:
                        if st["k"] == "assign" and st["rv"]["k"] == "agg" and st["rv"].get("path") == "std::ops::RangeFrom":
                            c = util.const_of(ctx, st["rv"]["ops"][0])
                            if c is not None:
                                consts.add(c)
                if consts != {1}:
                    out.viol("C04.loops", "C04.loops|cursor-constant", ctx.where(b),
                             "the tag scanner re-slices the input by %s after a rejected `<`; the advance must be exactly 1 (0 never terminates, more than 1 skips candidate tags)" % sorted(consts))
            continue
        out.viol("C04.loops", "C04.loops|%s" % key, ctx.where(b),
                 "a loop without a recognised termination variant (not driven by an iterator / pop / join / await) and without an entry in spec/loops.json: for some input it may not terminate")
    out.inst("C04.loops", n_l, 60, ["%s: %d" % kv for kv in sorted(variants.items())], note="every natural loop / SCC of the reachable bodies")

    # ------------------------------------------------------------------ recursion
    cyc = ctx.cg.cycles(ctx.reach)
    if cyc:
        out.viol("C04.recursion", "C04.recursion|%s" % cyc[0], "-",
                 "recursion in blockwatch's own code (%s): its depth follows the nesting of the input (syntax tree depth, tag nesting), so deeply nested source overflows the stack and aborts the process" % " -> ".join(x.split("::")[-1] for x in cyc))
        out.inst("C04.recursion", 0, 1)
    else:
        out.inst("C04.recursion", 1, 1, ["call graph over %d reachable bodies is acyclic" % len(ctx.reach)])

    # ------------------------------------------------------------------ exit / abort
    ex = [(b, t) for b in bodies for bi, t in b.calls() if callee_matches(t, r"^std::process::(exit|abort)$")]
    # the report function: the one function of the binary crate that main hands the validators' result to
    if len(ex) == 1 and ex[0][0].id.startswith("bwbin::"):
        out.inst("C04.exit", 1, 1, ["one process::exit site, in the binary's report path (%s)" % ex[0][0].id])
    else:
        out.viol("C04.exit", "C04.exit|sites", "-", "process::exit / abort is called from %s; expected only the report function" % [b.id for b, t in ex])
        out.inst("C04.exit", 0, 1)
    from rules.C03 import check_sametext
    check_sametext(ctx, out, rule="C04.sametext")
    shared.sh_units(ctx, out)
    m = meta(len(S), n_auto, n_tab, by_class)
    if tier == "thorough":
        m["release_profile"] = release_profile_census(ctx, S)
    # indices that designate a block in another task (the discharge of `attributes["check-lua"]` / `["check-ai"]`
    # in the tasks rests on them)
    from rules import asyncval
    for _nm in ("check-lua", "check-ai"):
        asyncval.check_index_alignment(ctx, out, "C04.index.%s" % _nm, _nm)
    return m


def release_profile_census(ctx, debug_sites):
    """Second extraction with the shipped profile's flags (overflow checks and debug assertions
    off): which arithmetic sites exist only in debug builds, and that no other site appears."""
    import subprocess, tempfile, shutil
    from engine.core import Ctx
    base = tempfile.mkdtemp(prefix="bwdist-", dir="/var/tmp")
    try:
        env = dict(os.environ)
        env["BWFACTS_EXTRA_ARGS"] = "-Coverflow-checks=off -Cdebug-assertions=off"
        env["BWFACTS_NONCE"] = "dist"
        r = subprocess.run([os.path.join(os.path.dirname(SPEC), "extract.sh"), os.environ.get("BW_REPO", "/repo"), os.path.join(base, "facts")], env=env, capture_output=True, text=True)
        if r.returncode != 0:
            return {"error": "extraction under release flags failed"}
        c2 = Ctx(os.path.join(base, "facts"))
        S2 = census.sites(c2, c2.reachable_bodies())
        kinds = lambda S: {k: sum(1 for s in S if s["kind"].split("-")[0].split(":")[0] == k) for k in sorted({s["kind"].split("-")[0].split(":")[0] for s in S})}
        k1 = {s["key"] for s in debug_sites if not s["kind"].startswith("overflow")}
        k2 = {s["key"] for s in S2 if not s["kind"].startswith("overflow")}
        return {"debug_profile": kinds(debug_sites), "release_flags": kinds(S2), "non_arithmetic_sites_only_in_release": sorted(k2 - k1), "non_arithmetic_sites_only_in_debug": sorted(k1 - k2)}
    finally:
        shutil.rmtree(base, ignore_errors=True)


def meta(total=0, auto=0, tab=0, by_class=None):
    return {
        "explanation": "A census with a discharge table, not a proof of termination: %d panic-capable sites of blockwatch's own reachable code were enumerated from MIR (unwrap/expect, explicit panics, Index, overflow asserts, panicking std APIs); %d are auto-safe (sum of in-memory sizes), %d carry a one-line discharge (%s); every loop has an iterator/pop/join/await variant or a tabled variant; the call graph is acyclic; process::exit only in the report. A new undischarged site, an unclassified loop or recursion is reported with the construct." % (total, auto, tab, json.dumps(by_class or {}, sort_keys=True)),
        "undecided": "panics / non-termination / stack use inside dependencies; OS failures; that each tabled invariant really holds (each is one reviewed line in spec/panic_sites.json).",
        "assumptions": ["the reasons recorded in spec/panic_sites.json and spec/loops.json"],
    }
