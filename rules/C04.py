"""C04 — No crash or hang on any input.

Decided: absence of an undischarged panic-capable site, of an unclassified loop and of recursion
in blockwatch's own code reachable from main. Every panic-capable site (unwrap/expect, explicit
panic, Index on str/slice/map, arithmetic overflow assert, a table of panicking std APIs) is
enumerated from MIR — so nothing depends on spelling — and must be auto-safe (sum of two in-memory
sizes), or carry a discharge in spec/panic_sites.json (invariant / std contract / dependency
contract / input-independent), else it is a violation. Every CFG cycle must be iterator-, pop-,
join- or await-driven, or be tabled with its variant in spec/loops.json; the call graph must be
acyclic (recursion depth would follow input nesting); process::exit only in the report.
Not decided: panics or non-termination inside dependencies (tree-sitter C code, regex, unidiff,
similar, ignore, mlua, async-openai), stack depth of the dependencies, OS failures.
"""
import json
import os
import re

from engine import census
from engine.cfg import cfg_of
from engine.expr import render, walk
from engine.facts import callee_name, callee_matches
from engine import prov as P
from rules import shared, util

SPEC = "/verif/spec"


def _labels(ctx, b, op):
    return ctx.prov.resolve_upvars(b, ctx.prov.read_operand(b, op))


INFALLIBLE_JSON = re.compile(r"^&?(&?str|usize|u64|u32|i64|bool|std::string::String|std::collections::HashMap<std::string::String, std::string::String>|std::option::Option<&?str>|&std::string::String|&usize|&bool|&std::collections::HashMap<std::string::String, std::string::String>)$")


def auto_discharge(ctx, s):
    """Function-independent discharges by contract. Returns (class, reason) or None."""
    kind = s["kind"]
    b = s["body"]
    t = s.get("term") or {}
    if kind in ("std:join",):
        return ("std-contract", "JoinHandle::join returns Err for a panicked thread; it does not panic itself")
    if kind in ("std:spawn",) and (t.get("def") or "").startswith("std::thread::spawn"):
        return ("os-failure", "std::thread::spawn panics only if the OS cannot create a thread; not input dependent")
    if kind == "std:drain" and ((t.get("arg_tys") or ["", ""]) + [""])[1] == "std::ops::RangeFull":
        return ("std-contract", "drain(..) over the full range cannot be out of bounds")
    if kind == "index-json":
        return ("std-contract", "Index<&str> / Index<usize> for serde_json::Value returns Null for a missing key; it does not panic")
    if kind in ("index-str", "index-slice") and t.get("args") and len(t["args"]) > 1:
        labs = _labels(ctx, b, t["args"][1])
        calls = {l[1] for l in labs if l[0] == "call"}
        other = {l for l in labs if l[0] not in ("call", "const")}
        # the index *is* a node's byte range (or is built from start_byte / end_byte): the producing
        # call(s) of the value itself; what the node was derived from is irrelevant
        ie = s.get("index")
        direct = []
        if ie is not None:
            parts = [ie] if ie[0] != "agg" else list(ie[2])
            for pe in parts:
                while pe[0] in ("proj", "cast") and len(pe) > 1:
                    pe = pe[1] if pe[0] == "proj" else pe[2]
                direct.append(pe)
        if direct and all(pe[0] == "call" and re.search(r"^tree_sitter::Node::<'tree>::(byte_range|start_byte|end_byte)$", pe[1]) for pe in direct):
            return ("dependency-contract", "tree-sitter reports node byte ranges inside the parsed UTF-8 text and on char boundaries")
        if calls and not other and all(re.search(r"^tree_sitter::Node::<'tree>::(byte_range|start_byte|end_byte)$", c) for c in calls) and not any(l[0] == "const" for l in labs):
            return ("dependency-contract", "tree-sitter reports node byte ranges inside the parsed UTF-8 text and on char boundaries")
        if calls and not other and all(re.search(r"<impl \[T\]>::partition_point$", c) for c in calls) and (s["index"][0] == "agg" and s["index"][1].endswith("RangeFrom")):
            rl = _labels(ctx, b, t["args"][0])
            return ("std-contract", "partition_point returns an index <= len")
    if kind == "overflow-Sub" and s.get("a") and s.get("b"):
        # len(x) - len(part of x): a trimmed / stripped slice is never longer than the string it was cut from
        a, bb = s["a"], s["b"]
        if a[0] == "call" and re.search(r"<impl str>::len$", a[1]) and bb[0] == "call" and re.search(r"<impl str>::len$", bb[1]) and a[2] and bb[2]:
            part = bb[2][0]
            if part[0] == "call" and re.search(r"<impl str>::(trim|trim_start|trim_end|trim_start_matches|trim_end_matches|trim_matches|trim_ascii|trim_ascii_start|trim_ascii_end)$", part[1]) and part[2] \
                    and render(part[2][0], 300) == render(a[2][0], 300):
                return ("std-contract", "a trimmed slice is never longer than the string it was cut from")
    if kind == "unwrap" and s.get("operand") and s["operand"][0] == "call" and s["operand"][1] == "serde_json::to_value":
        ct = b.blocks[s["operand"][3]]["term"] if len(s["operand"]) > 3 and isinstance(s["operand"][3], int) else None
        ty = ((ct or {}).get("targs") or [""])[0]
        if INFALLIBLE_JSON.match(ty):
            return ("std-contract", "serde_json::to_value cannot fail for `%s`" % ty)
    return None


def run(ctx, out, tier):
    table = json.load(open(os.path.join(SPEC, "panic_sites.json")))
    loops_t = json.load(open(os.path.join(SPEC, "loops.json")))
    bodies = ctx.reachable_bodies()
    S = census.sites(ctx, bodies)
    n_auto = n_tab = n_contract = 0
    groups = {}
    by_class = {}
    used = set()
    samples = []
    for s in S:
        b = s["body"]
        if s["kind"] == "overflow-Add":
            # auto-safe: sum of two in-memory sizes / positions; not if a huge constant or a
            # user-parsed number takes part
            bad = False
            for side in ("a", "b"):
                e = s.get(side)
                for x in walk(e) if e else []:
                    if x[0] == "const" and isinstance(x[1], int) and x[1] > (1 << 40):
                        bad = True
                    if x[0] == "call" and re.search(r"<impl str>::parse$|FromStr", x[1]):
                        bad = True
            if not bad:
                n_auto += 1
                continue
        ad = auto_discharge(ctx, s)
        if ad is not None:
            n_contract += 1
            by_class[ad[0]] = by_class.get(ad[0], 0) + 1
            continue
        groups.setdefault(s["ckey"], []).append(s)
    for ck, ss in sorted(groups.items()):
        d = table.get(ck)
        if d is not None and len(ss) <= d["count"]:
            n_tab += len(ss)
            used.add(ck)
            by_class[d["class"]] = by_class.get(d["class"], 0) + len(ss)
            if len(samples) < 5:
                samples.append("%s: %s" % (ck[:70], d["class"]))
            continue
        have = d["count"] if d else 0
        for s in ss:
            b = s["body"]
            known = d is not None and b.id in d.get("sites", [])
            if known and have > 0:
                have -= 1
                continue
            out.viol("C04.census", "C04.census|%s|%s" % (ck, b.id if d is None else "+%d" % (len(ss) - d["count"])), ctx.where(b, s["span"]),
                     "panic-capable site without a discharge: %s `%s` in %s (%s) — if its operand can take the failing value for some file, diff or attribute text, blockwatch aborts (exit 101) instead of reporting; give the site a guard, make the operation total, or record the invariant that makes it safe in spec/panic_sites.json"
                     % (s["kind"], s["detail"], b.id, "no site of this shape is reviewed in this file" if d is None else "%d site(s) of this shape in this file, %d reviewed" % (len(ss), d["count"])))
    unused = sorted(set(table) - used)
    if unused:
        out.note("discharge entries that match no site any more (informational): %d" % len(unused))
    out.inst("C04.census", n_auto + n_tab + n_contract, 150, samples,
             note="%d panic-capable sites: %d auto-safe additions, %d discharged by a std / dependency contract rule, %d tabled (file|kind|shape with counts) %s" % (len(S), n_auto, n_contract, n_tab, json.dumps(by_class, sort_keys=True)))

    # ------------------------------------------------------------------ loops
    L = census.cycles(ctx, bodies)
    n_l = 0
    variants = {}
    seen_keys = {}
    for l in L:
        b = l["body"]
        variants[l["variant"]] = variants.get(l["variant"], 0) + 1
        if l["variant"] in ("iterator", "await", "tree-cursor", "counter"):
            n_l += 1
            continue
        if l["variant"] in ("shrinking-slice", "advancing-offset"):
            n_l += 1
            # the tag scanner: the advance past a rejected `<` must be exactly 1 (>= 1 terminates,
            # <= 1 skips no candidate tag)
            if "tag_parser" in (b.span or {}).get("file", "") and l["detail"] != "1":
                out.viol("C04.loops", "C04.loops|cursor-constant", ctx.where(b),
                         "the tag scanner re-slices the input by %s after a rejected `<`; the advance must be exactly 1 (0 never terminates, more than 1 skips candidate tags)" % l["detail"])
            continue
        key = l["key"]
        seen_keys[key] = seen_keys.get(key, 0) + 1
        if key in loops_t and seen_keys[key] == 1:
            n_l += 1
            # the byte-cursor loop: the advance constant must be exactly 1
            if "cursor advance" in loops_t[key]["variant"]:
                consts = set()
                for x in l["blocks"]:
                    for st in b.blocks[x]["stmts"]:
                        if st["k"] == "assign" and st["rv"]["k"] == "agg" and st["rv"].get("path") == "std::ops::RangeFrom":
                            c = util.const_of(ctx, st["rv"]["ops"][0])
                            if c is not None:
                                consts.add(c)
                if consts != {1}:
                    out.viol("C04.loops", "C04.loops|cursor-constant", ctx.where(b),
                             "the tag scanner re-slices the input by %s after a rejected `<`; the advance must be exactly 1 (0 never terminates, more than 1 skips candidate tags)" % sorted(consts))
            continue
        out.viol("C04.loops", "C04.loops|%s" % key, ctx.where(b),
                 "a loop without a recognised termination variant (not driven by an iterator / pop / join / await) and without an entry in spec/loops.json: for some input it may not terminate")
    out.inst("C04.loops", n_l, 60, ["%s: %d" % kv for kv in sorted(variants.items())], note="every natural loop / SCC of the reachable bodies")

    # ------------------------------------------------------------------ recursion
    cyc = ctx.cg.cycles(ctx.reach)
    if cyc:
        out.viol("C04.recursion", "C04.recursion|%s" % cyc[0], "-",
                 "recursion in blockwatch's own code (%s): its depth follows the nesting of the input (syntax tree depth, tag nesting), so deeply nested source overflows the stack and aborts the process" % " -> ".join(x.split("::")[-1] for x in cyc))
        out.inst("C04.recursion", 0, 1)
    else:
        out.inst("C04.recursion", 1, 1, ["call graph over %d reachable bodies is acyclic" % len(ctx.reach)])

    # ------------------------------------------------------------------ exit / abort
    ex = [(b, t) for b in bodies for bi, t in b.calls() if callee_matches(t, r"^std::process::(exit|abort)$")]
    # the report function: the one function of the binary crate that main hands the validators' result to
    if len(ex) == 1 and ex[0][0].id.startswith("bwbin::") and ex[0][0].id != "bwbin::main":
        out.inst("C04.exit", 1, 1, ["process::exit only in the report function"])
    else:
        out.viol("C04.exit", "C04.exit|sites", "-", "process::exit / abort is called from %s; expected only the report function" % [b.id for b, t in ex])
        out.inst("C04.exit", 0, 1)
    from rules.C03 import check_sametext
    check_sametext(ctx, out, rule="C04.sametext")
    shared.sh_units(ctx, out)
    m = meta(len(S), n_auto, n_tab, by_class)
    if tier == "thorough":
        m["release_profile"] = release_profile_census(ctx, S)
    return m


def release_profile_census(ctx, debug_sites):
    """Second extraction with the shipped profile's flags (overflow checks and debug assertions
    off): which arithmetic sites exist only in debug builds, and that no other site appears."""
    import subprocess, tempfile, shutil
    from engine.core import Ctx
    base = tempfile.mkdtemp(prefix="bwdist-", dir="/var/tmp")
    try:
        env = dict(os.environ)
        env["BWFACTS_EXTRA_ARGS"] = "-Coverflow-checks=off -Cdebug-assertions=off"
        env["BWFACTS_NONCE"] = "dist"
        r = subprocess.run(["/verif/extract.sh", os.environ.get("BW_REPO", "/repo"), os.path.join(base, "facts")], env=env, capture_output=True, text=True)
        if r.returncode != 0:
            return {"error": "extraction under release flags failed"}
        c2 = Ctx(os.path.join(base, "facts"))
        S2 = census.sites(c2, c2.reachable_bodies())
        kinds = lambda S: {k: sum(1 for s in S if s["kind"].split("-")[0].split(":")[0] == k) for k in sorted({s["kind"].split("-")[0].split(":")[0] for s in S})}
        k1 = {s["key"] for s in debug_sites if not s["kind"].startswith("overflow")}
        k2 = {s["key"] for s in S2 if not s["kind"].startswith("overflow")}
        return {"debug_profile": kinds(debug_sites), "release_flags": kinds(S2), "non_arithmetic_sites_only_in_release": sorted(k2 - k1), "non_arithmetic_sites_only_in_debug": sorted(k1 - k2)}
    finally:
        shutil.rmtree(base, ignore_errors=True)


def meta(total=0, auto=0, tab=0, by_class=None):
    return {
        "explanation": "A census with a discharge table, not a proof of termination: %d panic-capable sites of blockwatch's own reachable code were enumerated from MIR (unwrap/expect, explicit panics, Index, overflow asserts, panicking std APIs); %d are auto-safe (sum of in-memory sizes), %d carry a one-line discharge (%s); every loop has an iterator/pop/join/await variant or a tabled variant; the call graph is acyclic; process::exit only in the report. A new undischarged site, an unclassified loop or recursion is reported with the construct." % (total, auto, tab, json.dumps(by_class or {}, sort_keys=True)),
        "undecided": "panics / non-termination / stack use inside dependencies; OS failures; that each tabled invariant really holds (each is one reviewed line in spec/panic_sites.json).",
        "assumptions": ["the reasons recorded in spec/panic_sites.json and spec/loops.json"],
    }
