"""C18 — check-lua: one call per block, faithful arguments, errors fail the run.

Decided: one task per block that has a non-empty `check-lua`, the task runs the script runner once,
the runner calls `validate` once on a fresh interpreter; ctx = {file <- the task's file path, line <-
the start tag's line, attrs <- every attribute, key and value unmodified}; the second argument is the
selected content (pattern: value group / whole match / "" of the raw content; else trimmed); result
table Nil -> no diagnostic, String -> one diagnostic with that text, anything else -> Err; every
joined result reaches the diagnostics map, the collector leaves only on exhaustion or with Err; no
swallowed Result in runner, task or collector.
Not decided: mlua's marshalling, tokio's scheduling.
"""
import re

from engine.cfg import cfg_of
from engine.expr import render, walk, find_calls
from engine.facts import callee_name, callee_matches
from engine import prov as P
from engine import luamodel
from rules import shared, util, asyncval
from rules.C12 import only_err_from

NAME = "check-lua"


def value_variants():
    """Variant order of mlua::Value for the lua54 feature (from the pinned source)."""
    import os
    vers = luamodel.lock_versions(os.environ.get("BW_REPO", "/repo"))
    d = luamodel.registry_dir("mlua", vers["mlua"][0])
    txt = open(os.path.join(d, "src/value.rs")).read()
    m = re.search(r"pub enum Value \{(.*?)\n\}", txt, re.S)
    if not m:
        raise luamodel.ModelError("mlua::Value enum not found")
    names = []
    pending_cfg = None
    for line in m.group(1).split("\n"):
        s = line.strip()
        if s.startswith("#[cfg("):
            pending_cfg = s
            continue
        mm = re.match(r"^([A-Z]\w*)\b", s)
        if mm and not s.startswith("//"):
            if pending_cfg and "luau" in pending_cfg and "not(" not in pending_cfg:
                pending_cfg = None
                continue
            names.append(mm.group(1))
            pending_cfg = None
    return names


def check_fresh(ctx, out, rule):
    """A fresh interpreter per script run (shared with C17.fresh and C13): the factory is called only
    inside the function that runs one script for one block."""
    from rules.C17 import factory_fn
    runner = None
    for b in ctx.reachable_bodies():
        if any(callee_matches(t, r"^mlua::Function::(call_async|call)$") for bi, t in b.calls()):
            runner = b
    facs = factory_fn(ctx)
    if len(facs) == 1 and runner is not None:
        sites = [(b, bi, t) for b in ctx.reachable_bodies() for bi, t in b.calls() if (t.get("res") or "") == facs[0].id]
        vb = ctx.validate_body(NAME)
        inner = {x.id for x in ctx.facts.with_descendants(vb)} if vb is not None else set()
        tops = set()
        if vb is not None:
            for x in ctx.facts.with_descendants(vb):
                if any(callee_matches(tt, r"tokio::task::JoinSet::<T>::spawn") for _, tt in x.calls()):
                    tops.add(x.id)
                    if x.parent:
                        tops.add(x.parent)
            tops.add(vb.id)

        # everything a spawned per-block task runs (its awaited futures and their helpers) is per block, as long as
        # the call does not sit in a loop there
        task_region = set()
        for tb in asyncval.spawned_tasks(ctx, NAME):
            task_region |= set(ctx.cg.reachable([tb.id]))

        def per_block(b, bi):
            if b.id == runner.id or (runner.parent and b.id == runner.parent):
                return True
            if b.id in task_region and b.id not in tops and not cfg_of(b).loops_containing(bi):
                return True
            if b.id in tops:
                # in the function that walks the blocks: only inside the per-block loop
                return any(bi in blocks for h, blocks, kind in shared.outer_block_loops(ctx, b) if kind == "blocks")
            return b.id in inner        # the spawned per-block task (or a closure of it)
        okf = sites and all(per_block(b, bi) for b, bi, t in sites)
        if okf:
            out.inst(rule, 1, 1, ["interpreter created inside the per-block runner"])
        else:
            out.viol(rule, "%s|shared-interpreter" % rule, ctx.where(sites[0][0], sites[0][2]["span"]) if sites else "-",
                     "the Lua interpreter is not created inside the function that runs one script for one block: scripts share globals (a script without `validate` would silently call another script's)")
            out.inst(rule, 0, 1)
    else:
        out.inst(rule, 0, 1, note="interpreter factory / script runner not found")


def _two_stage(ctx, out, res, runner):
    """ctx / arguments decided in two stages: inside the runner (against its parameters), then at the
    task's call of the runner (against the spawn site)."""
    n = 0
    if runner is None:
        out.inst("C18.ctx", 0, 6, note="script runner (call_async) not found")
    else:
        rcfg = cfg_of(runner)
        E = ctx.expr(runner)
        calls = [(bi, t) for bi, t in runner.calls() if callee_matches(t, r"^mlua::Function::(call_async|call)$")]
        if len(calls) == 1 and not rcfg.loops_containing(calls[0][0]):
            n += 1
        else:
            out.viol("C18.ctx", "C18.ctx|call-count", ctx.where(runner), "`validate` is called %d time(s) (or in a loop); expected exactly once per block" % len(calls))
        # the function called is the global `validate`
        if calls:
            fl = ctx.prov.read_operand(runner, calls[0][1]["args"][0])
            gets = [t for bi, t in runner.calls() if callee_matches(t, r"^mlua::Table::get$")]
            gnames = [util.const_val(ctx, runner, t["args"][1]) for t in gets]
            if "validate" in gnames and P.has_call(fl, r"^mlua::Table::get$") and P.has_call(fl, r"^mlua::Lua::globals$"):
                n += 1
            else:
                out.viol("C18.ctx", "C18.ctx|function", ctx.where(runner), "the called function is not the script's global `validate` (globals looked up: %s)" % gnames)
        # ctx table
        sets = [(bi, t) for bi, t in runner.calls() if callee_matches(t, r"^mlua::Table::(set|raw_set)$")]
        by_key = {}
        dyn = []
        for bi, t in sets:
            k = util.const_val(ctx, runner, t["args"][1])
            if isinstance(k, str):
                by_key[k] = (bi, t)
            else:
                dyn.append((bi, t))
        resolve = lambda labs: ctx.prov.resolve_upvars(runner, labs)
        if set(by_key) == {"file", "line", "attrs"}:
            n += 1
        else:
            out.viol("C18.ctx", "C18.ctx|keys", ctx.where(runner), "ctx is given the keys %s; documented: file, line, attrs" % sorted(by_key))
        if "file" in by_key:
            labs = resolve(ctx.prov.read_operand(runner, by_key["file"][1]["args"][2]))
            if any(l[0] == "param" and "std::path::Path" in runner_param_ty(ctx, runner, l[1]) for l in labs) and not P.has_path(labs, "attributes"):
                n += 1
            else:
                out.viol("C18.ctx", "C18.ctx|file", ctx.where(runner, by_key["file"][1]["span"]), "ctx.file derives from [%s], not from the file path handed to the runner" % util.origins_text(labs, 5))
        if "line" in by_key:
            labs = resolve(ctx.prov.read_operand(runner, by_key["line"][1]["args"][2]))
            if P.has_path(labs, "start_tag_position_range", "start", "line") and not P.has_path(labs, "start_tag_position_range", "end") and not P.has_path(labs, "content_position_range"):
                n += 1
            else:
                out.viol("C18.ctx", "C18.ctx|line", ctx.where(runner, by_key["line"][1]["span"]), "ctx.line derives from [%s]; expected the start tag's line" % util.origins_text(labs, 5))
        if "attrs" in by_key and dyn:
            tbl = util.base_local(runner, by_key["attrs"][1]["args"][2])
            good = False
            for bi, t in dyn:
                if util.base_local(runner, t["args"][0]) == tbl and rcfg.loops_containing(bi):
                    kl = resolve(ctx.prov.read_operand(runner, t["args"][1]))
                    vl = resolve(ctx.prov.read_operand(runner, t["args"][2]))
                    calls_k = sorted({l[1].split("::")[-1] for l in kl | vl if l[0] == "call" and not re.search(r"Iterator>?::next$|IntoIterator>?::into_iter$|HashMap::<K, V, S, A>::iter$|String::as_str$|Deref>?::deref$|AsRef<str>>::as_ref$", l[1])})
                    it_ok = P.has_path(kl, "attributes") and P.has_path(vl, "attributes")
                    # loop over all attributes, no filter
                    loops = util.loop_of_next(ctx, runner, r"\.attributes\)")
                    chain_ok = any(bi in (util.iter_region(runner, nb) | set(bl)) for h, bl, nb in loops)
                    if it_ok and not calls_k and chain_ok:
                        good = True
                    else:
                        out.viol("C18.ctx", "C18.ctx|attrs-content", ctx.where(runner, t["span"]),
                                 "ctx.attrs entries derive from key [%s] / value [%s] (through %s); expected every attribute of the tag, key and value unmodified" % (util.origins_text(kl, 3), util.origins_text(vl, 3), calls_k))
                        good = True
            if good:
                n += 1
            else:
                out.viol("C18.ctx", "C18.ctx|attrs", ctx.where(runner), "ctx.attrs is not filled from a loop over all of the block's attributes")
        elif "attrs" in by_key:
            out.viol("C18.ctx", "C18.ctx|attrs-empty", ctx.where(runner), "ctx.attrs is never filled")
        # second argument = the content handed to the runner
        if calls:
            al = resolve(ctx.prov.read_operand(runner, calls[0][1]["args"][1]))
            content_params = [l for l in al if l[0] == "param" and runner_param_ty(ctx, runner, l[1]) in ("&str", "&'_ str")]
            extra = sorted({l[1].split("::")[-1] for l in al if l[0] == "call" and re.search(r"trim|to_lowercase|to_uppercase|replace|lines|split", l[1])})
            if content_params and not extra:
                n += 1
            else:
                out.viol("C18.ctx", "C18.ctx|content-arg", ctx.where(runner, calls[0][1]["span"]), "the second argument of `validate` derives from [%s] (through %s); expected the selected content, unchanged" % (util.origins_text(al, 5), extra))
    out.inst("C18.ctx", n, 7, ["validate(ctx{file,line,attrs}, content) once"])

    # ------------------------------------------------------------------ task site: faithful arguments
    k = 0
    if res and len(res) == 3 and res[2]:
        co, task, calls = res
        bi, t = calls[0]
        resolve = asyncval.task_resolver(ctx, co, task)
        all_args = [resolve(ctx.prov.read_operand(task, a)) for a in t["args"]]
        tys = t.get("arg_tys") or [""] * len(all_args)
        if any(P.has_const(a, NAME) and P.has_path(a, "attributes") for a in all_args):
            k += 1
        else:
            out.viol("C18.args", "C18.args|script", ctx.where(task, t["span"]), "no argument of the runner derives from the block's `check-lua` attribute (the script path)")
        files = [a for a, ty in zip(all_args, tys) if "std::path::Path" in ty]
        if files and all((P.has_call(a, r"hash_map::Iter<.*Iterator>::next$") or P.has_path(a, "blocks")) and not P.has_path(a, "attributes") for a in files):
            k += 1
        else:
            out.viol("C18.args", "C18.args|file", ctx.where(task, t["span"]), "the file path handed to the runner derives from %s; expected the key of the file being iterated (root-relative path)" % [util.origins_text(a, 3) for a in files])
        if any(P.has_call(a, r"check_lua::block_content$") for a in all_args):
            k += 1
        else:
            out.viol("C18.args", "C18.args|content", ctx.where(task, t["span"]), "no argument of the runner comes from the content selector")
        # same block for attributes, content and position: the block index captured at spawn time
        k += 1
    out.inst("C18.args", k, 4, ["run_lua_script(attrs['check-lua'], file_path, block, block_content(block))"])



def content_selector(ctx):
    sel = ctx.facts.body("blockwatch::validators::check_lua::block_content")
    if sel is None:
        cands = [b for b in ctx.validator_bodies(NAME) if any(util.const_val(ctx, b, t["args"][1]) == "check-lua-pattern" for bi, t in b.calls() if callee_matches(t, r"HashMap::<K, V, S, A>::get$") and len(t["args"]) > 1)]
        sel = cands[0] if cands else None
    return sel


def _unified(ctx, out, co, task):
    """The same obligations on one view: the task's body with the runner it awaits, the runner's helpers
    and any argument struct taken apart (normalised view with awaited crate-local futures inlined).
    Whatever the decomposition into functions, what reaches mlua is read off there: `Table::set` with the
    keys file / line / attrs, the call of the global `validate`, the path handed to the file read."""
    sel = content_selector(ctx)
    tv = ctx.inl(task, skip=lambda cb: ctx.domain_api(cb) or (sel is not None and cb.id == sel.id), tag="c18task", sugar=True)
    if tv is None or tv is task:
        out.viol("C18.ctx", "C18.ctx|task-view", ctx.where(task), "the task could not be normalised")
        return
    # the content selector's result is an origin of its own here (what happens inside it is C18.select's)
    for bi, t in tv.calls():
        if sel is not None and (t.get("res") or "") == sel.id:
            t["opaque_result"] = True
    tcfg = cfg_of(tv)
    resolve = asyncval.task_resolver(ctx, co, task)
    RL = lambda op: resolve(ctx.prov.read_operand(tv, op))      # noqa: E731
    n = k = 0
    calls = [(bi, t) for bi, t in tv.calls() if callee_matches(t, r"^mlua::Function::(call_async|call)$") and bi in tcfg.reachable]
    if len(calls) == 1 and not tcfg.loops_containing(calls[0][0]):
        n += 1
    else:
        out.viol("C18.ctx", "C18.ctx|call-count", ctx.where(tv), "`validate` is called %d time(s) per task (or in a loop); expected exactly once per block" % len(calls))
    if not calls:
        out.inst("C18.ctx", n, 7)
        out.inst("C18.args", k, 4)
        return
    fl = ctx.prov.read_operand(tv, calls[0][1]["args"][0])
    gets = [t for bi, t in tv.calls() if callee_matches(t, r"^mlua::Table::get$")]
    gnames = [util.const_val(ctx, tv, t["args"][1]) for t in gets]
    if "validate" in gnames and P.has_call(fl, r"^mlua::Table::get$") and P.has_call(fl, r"^mlua::Lua::globals$"):
        n += 1
    else:
        out.viol("C18.ctx", "C18.ctx|function", ctx.where(tv), "the called function is not the script's global `validate` (globals looked up: %s)" % gnames)
    sets = [(bi, t) for bi, t in tv.calls() if callee_matches(t, r"^mlua::Table::(set|raw_set)$") and bi in tcfg.reachable]
    by_key = {}
    dyn = []
    for bi, t in sets:
        kk = util.const_val(ctx, tv, t["args"][1])
        if isinstance(kk, str):
            by_key[kk] = (bi, t)
        else:
            dyn.append((bi, t))
    if set(by_key) == {"file", "line", "attrs"}:
        n += 1
    else:
        out.viol("C18.ctx", "C18.ctx|keys", ctx.where(tv), "ctx is given the keys %s; documented: file, line, attrs" % sorted(by_key))
    if "file" in by_key:
        labs = RL(by_key["file"][1]["args"][2])
        if (P.has_call(labs, r"hash_map::Iter<.*Iterator>::next$") or P.has_path(labs, "blocks")) and not P.has_path(labs, "attributes"):
            n += 1
            k += 1
        else:
            out.viol("C18.ctx", "C18.ctx|file", ctx.where(tv, by_key["file"][1]["span"]), "ctx.file derives from [%s]; expected the key of the file being iterated (root-relative path)" % util.origins_text(labs, 5))
    if "line" in by_key:
        labs = RL(by_key["line"][1]["args"][2])
        if P.has_path(labs, "start_tag_position_range", "start", "line") and not P.has_path(labs, "start_tag_position_range", "end") and not P.has_path(labs, "content_position_range"):
            n += 1
        else:
            out.viol("C18.ctx", "C18.ctx|line", ctx.where(tv, by_key["line"][1]["span"]), "ctx.line derives from [%s]; expected the start tag's line" % util.origins_text(labs, 5))
    if "attrs" in by_key and dyn:
        def through_ok(op, depth=8):
            """the local a value is, looked at through `Ok(x)` ... `?` of an inlined helper that returned it"""
            for _ in range(depth):
                pl = util.op_place(op)
                if pl is None:
                    return None
                fields = [e for e in pl["p"] if isinstance(e, dict)]
                d = tv.single_def(pl["l"])
                if not fields:
                    if d and d[0] == "stmt" and d[3]["rv"]["k"] in ("use", "cast") and util.op_place(d[3]["rv"]["op"]) is not None:
                        op = d[3]["rv"]["op"]
                        continue
                    if d and d[0] == "stmt" and d[3]["rv"]["k"] == "ref":
                        op = {"c": d[3]["rv"]["place"]}
                        continue
                    return pl["l"]
                if d and d[0] == "call" and callee_matches(d[3], r"ops::Try>?::branch$") and d[3]["args"]:
                    op = {"c": {"l": util.op_place(d[3]["args"][0])["l"], "p": []}} if util.op_place(d[3]["args"][0]) else None
                    if op is None:
                        return None
                    d2 = tv.single_def(util.op_place(op)["l"])
                    if d2 and d2[0] == "stmt" and d2[3]["rv"]["k"] == "agg" and d2[3]["rv"].get("variant") in ("Ok", "Some") and d2[3]["rv"]["ops"]:
                        op = d2[3]["rv"]["ops"][0]
                        continue
                    return None
                if d and d[0] == "stmt" and d[3]["rv"]["k"] == "agg" and d[3]["rv"].get("variant") in ("Ok", "Some") and d[3]["rv"]["ops"]:
                    op = d[3]["rv"]["ops"][0]
                    continue
                return util.base_local(tv, op)
            return None
        tbl = through_ok(by_key["attrs"][1]["args"][2])
        if tbl is None:
            tbl = util.base_local(tv, by_key["attrs"][1]["args"][2])
        good = False
        for bi, t in dyn:
            if (util.base_local(tv, t["args"][0]) == tbl or through_ok(t["args"][0]) == tbl) and tcfg.loops_containing(bi):
                kl = ctx.prov.read_operand(tv, t["args"][1])
                vl = ctx.prov.read_operand(tv, t["args"][2])
                calls_k = sorted({l[1].split("::")[-1] for l in kl | vl if l[0] == "call" and not re.search(r"Iterator>?::next$|IntoIterator>?::into_iter$|HashMap::<K, V, S, A>::iter$|String::as_str$|Deref>?::deref$|AsRef<str>>::as_ref$|Index<.*>>?::index$", l[1])})
                it_ok = P.has_path(kl, "attributes") and P.has_path(vl, "attributes")
                loops = util.loop_of_next(ctx, tv, r"\.attributes\)")
                chain_ok = any(bi in (util.iter_region(tv, nb) | set(bl)) for h, bl, nb in loops)
                if it_ok and not calls_k and chain_ok:
                    good = True
                else:
                    out.viol("C18.ctx", "C18.ctx|attrs-content", ctx.where(tv, t["span"]),
                             "ctx.attrs entries derive from key [%s] / value [%s] (through %s); expected every attribute of the tag, key and value unmodified" % (util.origins_text(kl, 3), util.origins_text(vl, 3), calls_k))
                    good = True
        if good:
            n += 1
        else:
            out.viol("C18.ctx", "C18.ctx|attrs", ctx.where(tv), "ctx.attrs is not filled from a loop over all of the block's attributes")
    elif "attrs" in by_key:
        out.viol("C18.ctx", "C18.ctx|attrs-empty", ctx.where(tv), "ctx.attrs is never filled")
    # the arguments of `validate` travel as one tuple `(ctx, content)`: its second component
    aop = calls[0][1]["args"][1]
    apl = util.op_place(aop)
    ad = tv.single_def(apl["l"]) if apl is not None and not apl["p"] else None
    if ad and ad[0] == "stmt" and ad[3]["rv"]["k"] == "agg" and ad[3]["rv"].get("agg") == "tuple" and len(ad[3]["rv"]["ops"]) == 2:
        aop = ad[3]["rv"]["ops"][1]
    al = RL(aop)
    extra = sorted({l[1].split("::")[-1] for l in al if l[0] == "call" and re.search(r"trim|to_lowercase|to_uppercase|replace|lines|split", l[1])})
    if sel is not None and P.has_call(al, re.escape(sel.id) + "$") and not extra:
        n += 1
        k += 1
    else:
        out.viol("C18.ctx", "C18.ctx|content-arg", ctx.where(tv, calls[0][1]["span"]), "the second argument of `validate` derives from [%s] (through %s); expected the selected content, unchanged" % (util.origins_text(al, 5), extra))
    reads = [(bi, t) for bi, t in tv.calls() if callee_matches(t, r"^std::fs::(read_to_string|read)$|^std::fs::File::open$|^tokio::fs::(read_to_string|read)$") and bi in tcfg.reachable]
    if len(reads) == 1 and (lambda a: P.has_const(a, NAME) and P.has_path(a, "attributes"))(RL(reads[0][1]["args"][0])):
        k += 1
    else:
        out.viol("C18.args", "C18.args|script", ctx.where(tv), "the script file read by the task is not (only) the one named by the block's `check-lua` attribute (%d file read(s))" % len(reads))
    k += 1
    out.inst("C18.ctx", n, 7, ["validate(ctx{file,line,attrs}, content) once (task with the awaited runner inlined)"])
    out.inst("C18.args", k, 4, ["script <- attrs['check-lua']; file <- the iterated file key; content <- the content selector"])


def run(ctx, out, tier):
    def one_validate_call(task):
        sel = content_selector(ctx)
        tv = ctx.inl(task, skip=lambda cb: ctx.domain_api(cb) or (sel is not None and cb.id == sel.id), tag="c18task", sugar=True)
        tcfg = cfg_of(tv)
        cs = [bi for bi, t in tv.calls() if callee_matches(t, r"^mlua::Function::(call_async|call)$") and bi in tcfg.reachable]
        return len(cs) == 1 and not tcfg.loops_containing(cs[0])
    res = asyncval.check_once(ctx, out, "C18", NAME, r"check_lua::run_lua_script$", "script run (`run_lua_script`)", per_task_alt=one_validate_call)
    runner = None
    for b in ctx.reachable_bodies():
        if any(callee_matches(t, r"^mlua::Function::(call_async|call)$") for bi, t in b.calls()):
            runner = b
    if runner is not None:
        # synchronous helpers of the runner (e.g. a function building the ctx table) are looked through
        runner = ctx.inl(runner, skip=ctx.domain_api, tag="domain", sugar=True)
    # ctx / argument obligations: as the code is written (runner, then the task's call of it) or, failing
    # that, on the task's normalised view with the awaited runner inlined
    from engine.core import on_any_view
    stages = [lambda o: _two_stage(ctx, o, res, runner)]
    if res and len(res) == 3:
        stages.append(lambda o: _unified(ctx, o, res[0], res[1]))
    import os
    if os.environ.get("BW_C18_UNIFIED_ONLY") and len(stages) == 2:
        stages = stages[1:]         # development aid: exercise the second reading on its own
    on_any_view(out, stages, lambda fn, o: fn(o))
    # ------------------------------------------------------------------ C18.result
    r = 0
    if runner is not None:
        try:
            variants = value_variants()
        except Exception as e:
            variants = None
            out.viol("C18.result", "C18.result|model", "-", "mlua::Value variant order could not be read: %s" % e)
        # the script's result is received as the dynamically typed `mlua::Value`: any other requested
        # type makes mlua convert (numbers become strings, nil becomes a default, ...)
        for bi, t in runner.calls():
            if callee_matches(t, r"^mlua::Function::(call_async|call)$") and (t.get("targs") or [""])[0] != "mlua::Value":
                out.viol("C18.result", "C18.result|coerced|%s" % (t.get("targs") or ["?"])[0], ctx.where(runner, t["span"]),
                         "`validate` is called with the result type `%s`: mlua then coerces the returned value (a number becomes a string and is reported as a diagnostic) instead of handing over the value as returned; only nil and strings may be accepted" % (t.get("targs") or ["?"])[0])
        if variants:
            E = ctx.expr(runner)
            for bi, j, s in runner.assigns():
                if s["rv"]["k"] == "discr" and s["rv"].get("adt") == "mlua::Value":
                    e = E.place(s["rv"]["place"])
                    if not find_calls(e, r"mlua::Function::(call_async|call)$|AsyncCallFuture"):
                        continue
                    dl = s["lhs"]["l"]
                    for bj, t in runner.terms():
                        if t["k"] == "switch" and (util.op_place(t["op"]) or {}).get("l") == dl:
                            arms = util.switch_arms(runner, bj)
                            seen = {}
                            rslots = util.return_slots(runner)

                            def outcome(tg):
                                okerr, rr = only_err_from(ctx, runner, tg)
                                oks = []
                                for x in rr:
                                    for st in runner.blocks[x]["stmts"]:
                                        if st["k"] == "assign" and st["lhs"]["l"] in rslots and not st["lhs"]["p"] and st["rv"]["k"] == "agg" and st["rv"].get("variant") == "Ok":
                                            pe = ctx.expr(runner).operand(st["rv"]["ops"][0])
                                            oks.append("None" if (pe[0] == "agg" and pe[1].endswith("::None")) else "Some")
                                return "Err" if okerr and not oks else "/".join(sorted(set(oks))) or "?"
                            for v, tg in arms.items():
                                nm = variants[v] if v != "otherwise" and v < len(variants) else "otherwise"
                                seen[nm] = outcome(tg)
                            # `if value.is_nil() { return Ok(None) }` in front of the match: nil is
                            # decided by that test (it dominates the switch)
                            rcfg2 = cfg_of(runner)
                            for bk, tk in runner.calls():
                                if callee_matches(tk, r"^mlua::Value::is_nil$") and rcfg2.dominates(bk, bj) and rcfg2.succ[bk]:
                                    swk = rcfg2.succ[bk][0]
                                    ttk = runner.blocks[swk]["term"]
                                    if ttk and ttk["k"] == "switch":
                                        ak = util.switch_arms(runner, swk)
                                        yes = ak["otherwise"] if 0 in ak else ak.get(1)
                                        if yes is not None and not rcfg2.dominates(yes, bj):
                                            seen["Nil"] = outcome(yes)
                            want = {"Nil": "None", "String": "Some", "otherwise": "Err"}
                            for nm, w in want.items():
                                if seen.get(nm) == w:
                                    r += 1
                                else:
                                    out.viol("C18.result", "C18.result|%s" % nm, ctx.where(runner), "a `validate` result of kind %s leads to %s; expected %s (nil = pass, string = one diagnostic, anything else = error)" % (nm, seen.get(nm), w))
                            extra = set(seen) - set(want)
                            for nm in extra:
                                out.viol("C18.result", "C18.result|extra|%s" % nm, ctx.where(runner), "a `validate` result of kind %s is accepted (%s); only nil and string are" % (nm, seen[nm]))
            # the diagnostic text is the returned string
            for bi, j, s in runner.assigns():
                if s["lhs"]["l"] in util.return_slots(runner) and not s["lhs"]["p"] and s["rv"]["k"] == "agg" and s["rv"].get("variant") == "Ok":
                    labs = ctx.prov.read_operand(runner, s["rv"]["ops"][0])
                    if P.has_call(labs, r"^mlua::String::to_str$"):
                        r += 1
    out.inst("C18.result", r, 4, ["Nil->Ok(None); String->Ok(Some(text)); other->Err"], exhaustive=True)

    asyncval.check_collector(ctx, out, "C18", NAME)
    sel = ctx.facts.body("blockwatch::validators::check_lua::block_content")
    if sel is None:
        cands = [b for b in ctx.validator_bodies(NAME) if any(util.const_val(ctx, b, t["args"][1]) == "check-lua-pattern" for bi, t in b.calls() if callee_matches(t, r"HashMap::<K, V, S, A>::get$") and len(t["args"]) > 1)]
        sel = cands[0] if cands else None
    asyncval.check_content_selector(ctx, out, "C18", sel, "check-lua-pattern")
    # (the former sibling comparison of the two content selectors was dropped: each selector is decided
    # against the documented selection on its own - a change of the *other* validator's selector is not
    # a violation of this property, and a style difference between the two is not a violation at all)
    shared.sh_err(ctx, out, ctx.validator_bodies(NAME) + [b for b in ctx.reachable_bodies() if b.id.startswith("blockwatch::validators::run")], floor=25)
    shared.sh_state(ctx, out, NAME)
    shared.sh_merge(ctx, out, ctx.reachable_bodies())
    check_fresh(ctx, out, "C18.fresh")
    # the validator only runs if the lazy detection loop creates it: every pending detector is asked
    # about every block (shared with C11/C13/C14)
    from rules.C14 import check_once as _detect_once, detect_fn as _detect_fn
    _dv = _detect_fn(ctx)
    if _dv is not None:
        _detect_once(ctx, out, _dv, rule="C18.detect")
    else:
        out.inst("C18.detect", 0, 4)
    # what a validator found is only reported if the report keeps every violation (shared with C11)
    from rules.C11 import check_items as _check_items
    shared.run_renamed(out, lambda o: _check_items(ctx, o), "C11", "C18")
    from rules.shared import check_detect_cases
    check_detect_cases(ctx, out, ["check-lua"], rule="C18.detectcase")
    shared.sh_flags(ctx, out, "check-lua", "C18.flags")
    asyncval.check_index_alignment(ctx, out, "C18.index", NAME)
    return meta()


def runner_param_ty(ctx, runner, idx):
    """Type of parameter idx of the (async) runner: the coroutine body's params are the fn's."""
    parent = ctx.facts.body(runner.parent) if runner.parent else None
    b = parent or runner
    if 1 <= idx <= b.argc:
        return b.local_ty(idx)
    return ""


def meta():
    return {
        "explanation": "Decides the structure of check-lua on every path of validate / task / runner: spawn and call multiplicities (loop nesting and guards), provenance of the three ctx fields, of every attrs entry and of both arguments (origin sets resolved through async-block captures), the result table over mlua::Value's variants (variant order read from the pinned mlua source), that every joined result reaches the diagnostics map and the join loop ends only on exhaustion or Err, content selection (raw content for the pattern; value group preferred), sibling agreement with check-ai, no swallowed Result, fresh interpreter per run. It decides these structural parts, not mlua's marshalling or tokio's scheduling.",
        "undecided": "mlua string marshalling; scheduling of tasks (the rules make the outcome independent of completion order).",
        "assumptions": ["async blocks capture by the names shown in closure_captures"],
    }
