"""C11 — Exit status and report follow the diagnostics and their severity.

Decided: `process::exit` has one call site, with 1, under a flag that starts false, is only ever
set to true, and is set exactly under `severity == Error` inside the loops that visit every
diagnostic; the severity table (Error=1..Hint=4, serialised by repr; parsed ASCII-case-insensitively
from exactly the four names; missing attribute = Error; unknown value = Err); every diagnostic takes
its severity from the block it reports on; diagnostics are merged by appending only; the lazy
detection creates every needed validator exactly once; one JSON document goes to stderr before the
exit decision, `list` goes to stdout; nothing is printed for an empty result; no swallowed error;
order of the steps in main.
Not decided: the JSON shape produced by serde derives.
"""
import os
import re

from engine.cfg import cfg_of
from engine.expr import render, walk, find_calls
from engine.facts import callee_name, callee_matches
from engine import prov as P
from rules import shared, util
from rules.C14 import check_once, detect_fn
from rules.C10 import violation_sites, resolve_to_caller

SEVERITIES = {"Error": 1, "Warning": 2, "Info": 3, "Hint": 4}


def check_exit(ctx, out):
    n = 0
    sites = []
    for b in ctx.reachable_bodies():
        for bi, t in b.calls():
            if callee_matches(t, r"^std::process::(exit|abort)$"):
                sites.append((b, bi, t))
    if len(sites) != 1:
        out.viol("C11.exit", "C11.exit|sites", "-", "expected exactly one process::exit call site, found %d: %s" % (len(sites), [ctx.where(b, t["span"]) for b, bi, t in sites]))
        out.inst("C11.exit", 0, 6)
        return
    b, bi, t = sites[0]
    if b.id.startswith("bwbin::") and b.kind == "Fn":
        # the exit decision sits in main itself (the report is built and written by helpers): read main
        # with those helpers looked through
        bv0 = ctx.inl(b, skip=lambda cb: not cb.id.startswith("bwbin::"), tag="bin-only", sugar=True)
        xs0 = [(bj, tj) for bj, tj in bv0.calls() if callee_matches(tj, r"^std::process::(exit|abort)$") and bj in cfg_of(bv0).reachable]
        if len(xs0) == 1:
            b, (bi, t) = bv0, xs0[0]
    code = util.const_val(ctx, b, t["args"][0]) if t["args"] else None
    if code == 1:
        n += 1
    else:
        out.viol("C11.exit", "C11.exit|code", ctx.where(b, t["span"]), "process::exit is called with %r, documented failure status is 1" % (code,))
    cfg = cfg_of(b)
    # which severities make the run fail: decided on a small model when the model can follow the code
    tr = out.trial()
    try:
        decided = check_exit_model(ctx, tr, rule="C11.exit")
    except Exception as e:      # noqa: BLE001
        ctx.view_fallbacks.append("C11.exit: small-model analysis failed (%s: %s)" % (type(e).__name__, e))
        decided = None
    if decided is not None:
        out.adopt(tr)
        _check_out(ctx, out, b, bi, cfg)
        return
    # the guard flag
    flag = None
    for br, vals, e in util.guards(ctx, b, bi):
        if e[0] == "var" and b.local_ty(e[1]) == "bool":
            flag = (e[1], vals)
    if flag is None:
        # no flag variable: the exit may be decided directly by a scan of the diagnostics
        # (`if violations.values().flatten().any(is_error) { exit(1) }`), read in the normalised view
        # (a view of a binary-crate function with only the binary's own helpers looked through already is the
        # right reading: the library's `validators::run` stays a call there, which names what is scanned)
        bv = b if getattr(b, "is_inlined", False) else ctx.inl(b, skip=ctx.domain_api, tag="domain", sugar=True)
        xs = [(bj, tj) for bj, tj in bv.calls() if callee_matches(tj, r"^std::process::(exit|abort)$")]
        direct = False
        if len(xs) == 1:
            bj, tj = xs[0]
            vcfg = cfg_of(bv)
            for br, vals2, e in util.guards(ctx, bv, bj):
                txt = render(e, 600)
                if e[0] == "call" and re.search(r"BlockSeverity as std::cmp::PartialEq>::eq$", e[1]) and "BlockSeverity::Error" in txt and "severity" in txt and 0 not in vals2:
                    # the test sits in a loop over every diagnostic of the reported map (no other filter)
                    h = vcfg.innermost_loop(br)
                    its = [(x, tt) for x, tt in bv.calls() if h is not None and x in vcfg.loops()[h] and callee_matches(tt, r"Iterator>?::next$") and vcfg.innermost_loop(x) == h]
                    src = render(ctx.expr(bv).operand(its[0][1]["args"][0]), 2000) if its else ""
                    from rules.shared import TRUNCATING
                    trunc = [c[1].split("::")[-1] for c in walk(ctx.expr(bv).operand(its[0][1]["args"][0])) if c[0] == "call" and (TRUNCATING.search(c[1]) or re.search(r"Iterator>?::(filter|filter_map)$", c[1]))] if its else ["?"]
                    srcx = list(walk(ctx.expr(bv).operand(its[0][1]["args"][0]))) if its else []
                    src_labs = ctx.prov.read_operand(bv, its[0][1]["args"][0]) if its else set()
                    if its and not trunc and (any(x[0] == "param" for x in srcx) or any(x[0] == "call" and re.search(r"validators::run$", x[1]) for x in srcx)
                                              or P.has_call(src_labs, r"validators::run$")):
                        direct = True
                    else:
                        if os.environ.get("BW_DEBUG_MODEL"):
                            print("C11.exit scan: trunc", trunc, "calls", sorted({x[1] for x in srcx if x[0] == "call"}), "kinds", sorted({x[0] for x in srcx}))
                        out.viol("C11.exit", "C11.exit|scan", ctx.where(b, t["span"]), "the scan that decides the exit status does not run over every diagnostic of the reported map (%s)" % (trunc or src[:80]))
                        direct = None
        if direct:
            n += 4
            out.inst("C11.exit", n, 5, ["%s: exit(1) iff any diagnostic has severity()==Error (direct scan)" % b.id])
        else:
            if direct is False:
                out.viol("C11.exit", "C11.exit|flag", ctx.where(b, t["span"]), "process::exit is not guarded by a boolean flag or by a scan for an Error-severity diagnostic")
            out.inst("C11.exit", n, 6)
            return
    if flag is not None:
        _check_exit_flag(ctx, out, b, bi, t, cfg, flag, n)
    _check_out(ctx, out, b, bi, cfg)


def _check_exit_flag(ctx, out, b, bi, t, cfg, flag, n):
    fl, vals = flag
    if 0 in vals:
        out.viol("C11.exit", "C11.exit|polarity", ctx.where(b, t["span"]), "the run exits with failure when the error flag is FALSE")
    else:
        n += 1
    defs = b.defs().get(fl, [])
    consts = []
    for d in defs:
        v = None
        if d[0] == "stmt" and d[3]["rv"]["k"] == "use":
            v = util.const_of(ctx, d[3]["rv"]["op"])
        if v is None:
            out.viol("C11.exit", "C11.exit|flag-not-sticky", ctx.where(b, d[3].get("span")),
                     "the error flag is assigned a computed value (%s): a later non-error diagnostic resets it, so the exit status depends on the order of the diagnostics instead of on whether any is an error"
                     % render(ctx.expr(b).rvalue(d[3]["rv"]) if d[0] == "stmt" else ctx.expr(b).call(d[3], d[1]), 120))
        else:
            consts.append((v, d))
    falses = [d for v, d in consts if v == 0]
    trues = [d for v, d in consts if v == 1]
    loops = cfg.loops()
    if len(falses) == 1 and not cfg.loops_containing(falses[0][1]) and len(consts) == len(defs):
        n += 1
    elif len(consts) == len(defs):
        out.viol("C11.exit", "C11.exit|flag-init", ctx.where(b), "the error flag is reset to false inside a loop or initialised more than once")
    for d in trues:
        ok = False
        for br, vals2, e in util.guards(ctx, b, d[1]):
            txt = render(e, 600)
            if re.search(r"BlockSeverity as std::cmp::PartialEq>::eq\(", txt) and "BlockSeverity::Error" in txt and "severity(" in txt and 0 not in vals2:
                ok = True
            elif re.search(r"BlockSeverity as std::cmp::PartialEq>::ne\(", txt) and "BlockSeverity::Error" in txt and vals2 == {0}:
                ok = True
        if ok:
            n += 1
        else:
            out.viol("C11.exit", "C11.exit|flag-condition", ctx.where(b, d[3].get("span")),
                     "the error flag is set under [%s]; expected exactly `diagnostic.severity() == BlockSeverity::Error`" % "; ".join("%s=%s" % (g[2][:80], g[1]) for g in util.guard_texts(ctx, b, d[1])[:3]))
        # inside the loop over every diagnostic of every file, with no early exit other than `?`
        ls = cfg.loops_containing(d[1])
        if len(ls) >= 2:
            n += 1
            for h in ls:
                blocks = loops[h]
                for x, y in util.loop_exits(b, cfg, blocks):
                    if y in blocks:
                        continue
                    # allowed: the iterator-exhausted exit and error returns
                    tt = b.blocks[x]["term"]
                    r = cfg.reach(y)
                    if bi in r and tt["k"] == "switch":
                        e = util.switch_operand_expr(ctx, b, x)
                        if not (e[0] == "discr" and find_calls(e, r"Iterator>?::next$")):
                            out.viol("C11.exit", "C11.exit|early-loop-exit", ctx.where(b),
                                     "the loop that examines the diagnostics can be left early towards the exit decision on a condition other than 'no more diagnostics': later error diagnostics would not count")
        else:
            out.viol("C11.exit", "C11.exit|flag-scope", ctx.where(b, d[3].get("span")), "the error flag is not set inside the loops over all files and all of their diagnostics")
    if not trues:
        out.viol("C11.exit", "C11.exit|flag-never-true", ctx.where(b), "the error flag is never set")
    out.inst("C11.exit", n, 5, ["%s: exit(1) iff has_error; has_error := false; has_error := true iff severity()==Error (sticky)" % b.id])


def _always_before(ctx, b, first, then):
    """Every *feasible* path from the entry of `b` to block `then` passes block `first` (path-sensitive constant
    propagation: an early `return Ok(false)` of an inlined helper cannot take the `true` arm of the test that
    follows the call, although it joins the same control flow)."""
    from engine import casewalk as CW
    std = CW.std_hooks()
    w = CW.Walk(ctx, b, [std], max_states=30000)
    bad = []

    def on_visit(bb, env):
        if bb == first:
            env[-2] = CW.const(1)
        if bb == then and env.get(-2) is None:
            bad.append(bb)
    w.on_visit = on_visit
    try:
        w.explore(0, {})
    except CW.Limit:
        return False
    return not bad


def _check_out(ctx, out, b, bi, cfg):
    # ---------------------------------------------------------------- C11.out
    m = 0
    # "in main": the body at hand is the one that runs the validators and reports (main itself, or a function of
    # the binary that main hands the work to, read with the binary's helpers looked through)
    in_main = b.id == "bwbin::main" or (b.id.startswith("bwbin::") and any(callee_matches(tt, r"validators::run$") for _, tt in b.calls()))
    main = b if b.id == "bwbin::main" else ctx.main_view()
    site_body = b if in_main else main

    def stream_of(body, wt):
        labs = ctx.prov.read_operand(body, wt["args"][0])
        if P.has_call(labs, r"^std::io::stderr$") and not P.has_call(labs, r"^std::io::stdout$"):
            return "stderr"
        if P.has_call(labs, r"^std::io::stdout$") and not P.has_call(labs, r"^std::io::stderr$"):
            return "stdout"
        return "?"
    bcfg = cfg_of(b)
    all_w = [(bb, tt) for bb, tt in b.calls() if callee_matches(tt, r"serde_json::to_writer_pretty$|serde_json::to_writer$") and bb in bcfg.reachable]
    writers = [(bb, tt) for bb, tt in all_w if stream_of(b, tt) != "stdout"] if in_main else all_w
    if len(writers) == 1:
        wb, wt = writers[0]
        if stream_of(b, wt) == "stderr":
            m += 1
        else:
            out.viol("C11.out", "C11.out|stream", ctx.where(b, wt["span"]), "the diagnostics are not written to stderr")
        if bcfg.dominates(wb, bi) or _always_before(ctx, b, wb, bi):
            m += 1
        else:
            out.viol("C11.out", "C11.out|report-before-exit", ctx.where(b, wt["span"]), "the report does not precede the exit on every path")
        if not bcfg.loops_containing(wb):
            m += 1
        else:
            out.viol("C11.out", "C11.out|one-document", ctx.where(b, wt["span"]), "the report is written inside a loop: stderr would hold several JSON documents")
    else:
        out.viol("C11.out", "C11.out|writer-count", ctx.where(b), "expected exactly one JSON writer call for the diagnostics report, found %d" % len(writers))
    if main is not None:
        mcfg = cfg_of(main)
        # report only for a non-empty map; its input is the validators' result
        report_sites = [(bb, tt) for bb, tt in main.calls() if (tt.get("res") or "") == b.id] if not in_main else ([writers[0]] if len(writers) == 1 else [])
        for bb, tt in report_sites:
            ok = False
            for br, vals2, e in util.guards(ctx, site_body, bb):
                txt = render(e, 400)
                if re.search(r"HashMap::is_empty\(", txt) and vals2 == {0}:
                    ok = True
            if not ok and len(writers) == 1 and not in_main:
                # ... or the report function itself returns early for an empty map
                for br, vals2, e in util.guards(ctx, b, writers[0][0]):
                    if re.search(r"HashMap::is_empty\(", render(e, 400)) and vals2 == {0} and any(x[0] == "param" for x in walk(e)):
                        ok = True
            if ok:
                m += 1
            else:
                out.viol("C11.out", "C11.out|empty-guard", ctx.where(site_body, tt["span"]), "the report is not guarded by `!violations.is_empty()`: an empty `{}` would be printed for a clean run")
            src_op = tt["args"][0] if not in_main else tt["args"][1]
            labs = ctx.prov.read_operand(site_body, src_op)
            if P.has_call(labs, r"validators::run$"):
                m += 1
            else:
                out.viol("C11.out", "C11.out|report-input", ctx.where(site_body, tt["span"]), "the reported map is not the result of running the validators")
        # list goes to stdout and returns
        lw = [(bb, tt) for bb, tt in main.calls() if callee_matches(tt, r"serde_json::to_writer_pretty$|serde_json::to_writer$") and bb in mcfg.reachable
              and (not in_main or stream_of(main, tt) == "stdout")]
        if len(lw) == 1:
            labs = ctx.prov.read_operand(main, lw[0][1]["args"][0])
            labs2 = ctx.prov.read_operand(main, lw[0][1]["args"][1])
            if P.has_call(labs, r"^std::io::stdout$") and P.has_call(labs2, r"to_serializable_report$"):
                m += 1
            else:
                out.viol("C11.out", "C11.out|list-stream", ctx.where(main, lw[0][1]["span"]), "`list` does not write the block report to stdout")
            # after listing nothing is validated
            r = mcfg.reach(lw[0][0])
            bad = [tt for bb, tt in main.calls() if bb in r and callee_matches(tt, r"validators::run$|process_violations$|validators::detect_validators$")]
            if bad:
                out.viol("C11.out", "C11.out|list-then-validate", ctx.where(main), "after printing the list the run goes on to validate")
            else:
                m += 1
        else:
            out.viol("C11.out", "C11.out|list-writer", ctx.where(main), "expected one JSON writer for `list` in main, found %d" % len(lw))
    out.inst("C11.out", m, 7, ["stderr <- to_writer_pretty(diagnostics) once, before exit; list -> stdout"])


def check_severity(ctx, out):
    n = 0
    adt = ctx.facts.adts.get("blockwatch::blocks::BlockSeverity")
    if adt is None:
        out.inst("C11.sev", 0, 10, note="BlockSeverity not found")
        return
    got = {v["name"]: v["discr"] for v in adt["variants"]}
    if got == SEVERITIES:
        n += 4
    else:
        out.viol("C11.sev", "C11.sev|numbers", ctx.where_adt(adt) if hasattr(ctx, "where_adt") else adt["span"]["file"],
                 "severity numbers are %s; LSP / documented numbers are %s" % (got, SEVERITIES))
    ser = [b for b in ctx.facts.bodies.values() if re.search(r"BlockSeverity as .*Serialize>::serialize$", b.id)]
    if len(ser) == 1 and ser[0].span.get("exp") == "Serialize_repr":
        n += 1
    else:
        out.viol("C11.sev", "C11.sev|serialize", "-", "BlockSeverity is not serialised by its numeric repr (Serialize_repr)")
    fs = ctx.facts.bodies.get("<blockwatch::blocks::BlockSeverity as std::str::FromStr>::from_str")
    if fs is None:
        out.viol("C11.sev", "C11.sev|from_str", "-", "FromStr for BlockSeverity not found")
    else:
        table = {}
        cfg = cfg_of(fs)
        for bi, t in fs.calls():
            if callee_matches(t, r"<impl str>::eq_ignore_ascii_case$"):
                name = util.const_val(ctx, fs, t["args"][1])
                sw = cfg.succ[bi][0]
                arms = util.switch_arms(fs, sw)
                yes = util.skip_trivial(fs, arms["otherwise"] if 0 in arms else arms.get(1))
                var = None
                for s in fs.blocks[yes]["stmts"]:
                    if s["k"] == "assign" and s["rv"]["k"] == "agg" and s["rv"].get("path") == adt["path"]:
                        var = s["rv"]["variant"]
                table[name] = var
            elif callee_matches(t, r"PartialEq.*::eq$|<impl str>::eq$"):
                out.viol("C11.sev", "C11.sev|case-sensitive", ctx.where(fs, t["span"]), "severity names are compared case-sensitively")
        if table == {k: k for k in SEVERITIES}:
            n += 4
        else:
            out.viol("C11.sev", "C11.sev|names", ctx.where(fs), "severity names parse as %s; expected each of error/warning/info/hint (any case) to map to its own level" % table)
        errs = [1 for bi, j, s in fs.assigns() if s["lhs"]["l"] == 0 and s["rv"]["k"] == "agg" and s["rv"].get("variant") == "Err"]
        if errs:
            n += 1
        else:
            out.viol("C11.sev", "C11.sev|unknown", ctx.where(fs), "an unknown severity name does not produce an Err")
    sev = ctx.facts.body("blockwatch::blocks::Block::severity")
    if sev is None:
        out.viol("C11.sev", "C11.sev|accessor", "-", "Block::severity not found")
    else:
        # on the path where attributes.get("severity") is None the result is Ok(Error); no other level
        # is ever produced here (normalised view: `map_or`, `match`, `if let` read alike)
        sv = ctx.inl(sev, skip=ctx.domain_api, tag="domain", sugar=True)
        levels = sorted({s["rv"].get("variant") for bi, j, s in sv.assigns() if s["rv"]["k"] == "agg" and s["rv"].get("path") == adt["path"]})
        Es = ctx.expr(sv)
        none_ok = 0
        bad = []
        slots = util.return_slots(sv)
        for bi, j, s in sv.assigns():
            if s["lhs"]["l"] not in slots or s["lhs"]["p"] or bi not in cfg_of(sv).reachable:
                continue
            if s["lhs"]["l"] != 0 and s["rv"]["k"] == "use" and util.op_place(s["rv"]["op"]) and util.op_place(s["rv"]["op"])["l"] in slots:
                continue
            arm = None
            for br, vals, e in util.guards(ctx, sv, bi):
                txt = render(e, 400)
                if e[0] == "discr" and re.search(r"HashMap::get\(", txt) and "'severity'" in txt:
                    arm = "none" if 1 not in vals else "some"
            ev = Es.rvalue(s["rv"])
            is_default = ev[0] == "agg" and ev[1].endswith("Result::Ok") and ev[2] and ev[2][0][0] == "agg" and ev[2][0][1] == adt["path"] + "::Error"
            if arm == "none" and is_default:
                none_ok += 1
            elif arm == "some" and not is_default:
                pass
            elif s["lhs"]["l"] == 0 or arm is not None:
                bad.append((arm, render(ev, 80)))
        if none_ok and not bad and levels == ["Error"]:
            n += 1
        else:
            out.viol("C11.sev", "C11.sev|default", ctx.where(sev), "a block without a severity attribute does not default to Error (levels built in the accessor: %s; results: %s)" % (levels, bad[:3]))
        region = ctx.facts.with_descendants(sev)
        if any(callee_matches(t, r"BlockSeverity as std::str::FromStr>::from_str$") for rb in region for bi, t in rb.calls()):
            n += 1
        else:
            out.viol("C11.sev", "C11.sev|parse", ctx.where(sev), "the severity attribute is not parsed with BlockSeverity::from_str")
    out.inst("C11.sev", n, 12, ["Error=1 Warning=2 Info=3 Hint=4; repr-serialised; from_str: ascii-case-insensitive over the 4 names else Err; missing -> Error"], exhaustive=True)


def check_all(ctx, out):
    """Every Violation::new takes its severity from Block::severity()? of the block it reports on."""
    n = 0
    samples = []
    for name in ctx.roles()["validators"]:
        for b, t, callers in violation_sites(ctx, name):
            sev = ctx.prov.read_operand(b, t["args"][3])
            if not P.has_call(sev, r"blocks::Block::severity$"):
                out.viol("C11.all", "C11.all|%s|severity-source" % name, ctx.where(b, t["span"]),
                         "the severity of a %s diagnostic derives from [%s], not from the block's `severity` attribute" % (name, util.origins_text(sev, 4)))
                continue
            # same block as the one whose start tag gives the range
            rng = ctx.prov.read_operand(b, t["args"][0])
            # which block is asked for its severity: the receiver of the Block::severity call(s)
            sev_params = set()
            for bj, tj in b.calls():
                if callee_matches(tj, r"blocks::Block::severity$") and tj["args"]:
                    sev_params |= {l[1] for l in ctx.prov.read_operand(b, tj["args"][0]) if l[0] == "param"}
            rng_params = {l[1] for l in rng if l[0] == "param" and "start_tag_position_range" in l[2]}
            line_level = name in ("keep-sorted", "keep-unique", "line-pattern")
            if line_level or (sev_params & rng_params) or (not sev_params and not rng_params):
                n += 1
                samples.append("%s: severity<-Block::severity(block)?" % name)
            else:
                out.viol("C11.all", "C11.all|%s|other-block" % name, ctx.where(b, t["span"]),
                         "the severity of a %s diagnostic is taken from a different block (param %s) than the one it is reported on (param %s)" % (name, sorted(sev_params), sorted(rng_params)))
            # and the Err of an unknown severity propagates (SH.err covers the `?`)
    out.inst("C11.all", n, 7, samples)


SHAPES = {
    "blockwatch::validators::SimpleDiagnostic": ["range", "code", "message", "severity", "data"],
    "blockwatch::validators::ViolationRange": ["start", "end"],
    "blockwatch::Position": ["line", "character"],
}


def check_shape(ctx, out):
    """JSON keys of a diagnostic (derived Serialize impls, read from the expanded MIR): each key is
    written from the struct field of the same name; `data` is the only optional key."""
    n = 0
    for ty, want in SHAPES.items():
        bodies = [b for b in ctx.facts.bodies.values() if b.promoted is None and re.search(r"Serialize for %s(<'a>)?>::serialize$" % re.escape(ty), b.id)]
        if len(bodies) != 1:
            out.viol("C11.shape", "C11.shape|%s|impl" % ty, "-", "expected one derived Serialize impl for %s, found %d" % (ty, len(bodies)))
            continue
        b = bodies[0]
        got = []
        skips = []
        for bi, t in b.calls():
            if callee_matches(t, r"ser::SerializeStruct::serialize_field$"):
                k = util.const_val(ctx, b, t["args"][1])
                labs = ctx.prov.read_operand(b, t["args"][2])
                src = {l[2][0] for l in labs if l[0] == "param" and l[1] == 1 and l[2]}
                got.append(k)
                if src != {k}:
                    out.viol("C11.shape", "C11.shape|%s|%s|source" % (ty, k), ctx.where(b), "JSON key `%s` of %s is written from field(s) %s" % (k, ty.split("::")[-1], sorted(src)))
            elif callee_matches(t, r"ser::SerializeStruct::skip_field$"):
                skips.append(util.const_val(ctx, b, t["args"][1]))
        if got == want and set(skips) <= {"data"}:
            n += len(want)
        else:
            out.viol("C11.shape", "C11.shape|%s|keys" % ty, ctx.where(b), "%s serialises the keys %s (optional: %s); documented: %s (only `data` optional)" % (ty.split("::")[-1], got, skips, want))
    # the diagnostic is built from the violation's own fields
    sd = ctx.facts.body("blockwatch::validators::Violation::as_simple_diagnostic")
    if sd is not None:
        ok = True
        for f in ("range", "code", "message", "severity", "data"):
            labs = ctx.prov.read_local(sd, 0, (f,))
            src = {l[2][0] for l in labs if l[0] == "param" and l[2]}
            if src != {f}:
                ok = False
                out.viol("C11.shape", "C11.shape|as_simple_diagnostic|%s" % f, ctx.where(sd), "diagnostic field `%s` is taken from violation field(s) %s" % (f, sorted(src)))
        if ok:
            n += 1
    out.inst("C11.shape", n, 10, ["SimpleDiagnostic{range,code,message,severity,data?}, ViolationRange{start,end}, Position{line,character}"], exhaustive=True)


def check_list(ctx, out, rule="C11.list"):
    """The list report has one entry per selected block: the function(s) producing `serde_json::Value`
    lists from `blocks_with_context` push exactly once per block on every path of the iteration, onto
    the Vec that is returned; nothing is keyed (a map keyed by a line or a name would merge blocks),
    removed or truncated afterwards."""
    from rules.shared import TRUNCATING
    from rules import util
    from engine.cfg import cfg_of
    n = 0
    cands = []
    LOSSY = r"::(dedup|dedup_by|dedup_by_key|retain|retain_mut|truncate|pop|remove|swap_remove|drain|clear|split_off)$"
    for b in ctx.reachable_bodies():
        if b.promoted is not None or "serde_json::Value" not in b.local_ty(0):
            continue
        E = ctx.expr(b)
        cfg = cfg_of(b)
        loops = util.loop_of_next(ctx, b, r"blocks_with_context")
        maps = [(bi, t) for bi, t in b.calls() if callee_matches(t, r"Iterator>?::(map|filter_map|flat_map)$") and "blocks_with_context" in render(E.operand(t["args"][0]), 2000)]
        if not loops and not maps:
            continue
        cands.append(b.id)
        for bi, t in b.calls():
            if callee_matches(t, LOSSY) and "serde_json::Value" in (t.get("arg_tys") or [""])[0]:
                out.viol(rule, "%s|lossy|%s" % (rule, callee_name(t).split("::")[-1]), ctx.where(b, t["span"]),
                         "the list of block entries is passed through `%s`: entries of selected blocks can be removed from the report" % callee_name(t).split("::")[-1])
        for h, blocks, nb in loops:
            t = b.blocks[nb]["term"]
            e = E.operand(t["args"][0])
            bad = [c[1].split("::")[-1] for c in walk(e) if c[0] == "call" and (TRUNCATING.search(c[1]) or re.search(r"Iterator>?::(filter|filter_map)$", c[1]))]
            if bad:
                out.viol(rule, "%s|truncated" % rule, ctx.where(b, t["span"]), "the list report iterates the blocks through %s: selected blocks can be left out of the report" % bad)
                continue
            region = util.iter_region(b, nb) | set(blocks)
            some = util.switch_arms(b, cfg.succ[nb][0]).get(1)
            pushes = [(bi, c) for bi, c in b.calls() if bi in region and callee_matches(c, r"Vec::<T, A>::push$") and "serde_json::Value" in (c.get("arg_tys") or [""])[0]]
            keyed = [(bi, c) for bi, c in b.calls() if bi in region and callee_matches(c, r"(BTreeMap|HashMap|IndexMap|BTreeSet|HashSet)::<.*>::(insert|entry)$")
                     and "serde_json::Map" not in callee_name(c)]
            if len(pushes) != 1:
                if keyed:
                    kt = (keyed[0][1].get("arg_tys") or ["?"])[0]
                    out.viol(rule, "%s|keyed" % rule, ctx.where(b, keyed[0][1]["span"]),
                             "the per-block entries are inserted into `%s` instead of being appended to a list: two selected blocks with the same key (e.g. the same start line) collapse into one entry" % kt[:100])
                else:
                    out.viol(rule, "%s|push-count" % rule, ctx.where(b, t["span"]), "expected exactly one `Vec<serde_json::Value>::push` per listed block, found %d" % len(pushes))
                continue
            pbi, pc = pushes[0]
            # every iteration reaches the push: the header is not reachable from the Some-arm when the push block is removed
            r = cfg.reach(some, avoid=(set(range(cfg.n)) - set(region)) | {pbi})
            if some != pbi and (h in r or any(h in cfg.succ[x] for x in r)):
                out.viol(rule, "%s|skipped" % rule, ctx.where(b, pc["span"]), "there is a path through the per-block iteration that does not append an entry: a selected block can be missing from the report")
                continue
            # the pushed-to Vec is what is returned
            vl = util.base_local(b, pc["args"][0])
            ret = ctx.prov.read_local(b, 0)
            vlabs = ctx.prov.read_local(b, vl) if vl is not None else set()
            if vl is not None and (vlabs & ret or not vlabs):
                n += 1
            else:
                out.viol(rule, "%s|not-returned" % rule, ctx.where(b, pc["span"]), "the list the entries are appended to is not the value returned")
        for bi, t in maps:
            e = E.operand(t["args"][0])
            bad = [c[1].split("::")[-1] for c in walk(e) if c[0] == "call" and (TRUNCATING.search(c[1]) or re.search(r"Iterator>?::(filter|filter_map)$", c[1]))]
            if bad or not callee_matches(t, r"Iterator>?::map$"):
                out.viol(rule, "%s|truncated" % rule, ctx.where(b, t["span"]), "the list report maps the blocks through %s: selected blocks can be left out of the report" % (bad or [callee_name(t).split("::")[-1]]))
                continue
            cols = [c for bj, c in b.calls() if callee_matches(c, r"Iterator>?::collect$")]
            if any("std::vec::Vec<serde_json::Value>" in (ctx.facts.ret_ty(c) if hasattr(ctx.facts, "ret_ty") else b.local_ty(c["dest"]["l"])) for c in cols):
                n += 1
            else:
                out.viol(rule, "%s|keyed" % rule, ctx.where(b, t["span"]), "the per-block entries are not collected into a `Vec<serde_json::Value>`")
    out.inst(rule, n, 1, cands, note="one entry appended per block on every path; the appended-to Vec is returned; no keyed/lossy container")


def check_paths(ctx, out, rule="C11.paths"):
    """Once the blocks are parsed, every way `main` can end in Ok passes through one of the two jobs:
    writing the list document, or running the validators. (An early `return Ok(())` in between — for
    an empty selection, say — leaves `list` printing nothing instead of `{}`.)"""
    main = ctx.main_view()
    if main is None:
        out.inst(rule, 0, 1)
        return
    cfg = cfg_of(main)
    parse = [(bi, t) for bi, t in main.calls() if callee_matches(t, r"blocks::parse_blocks$")]
    work = {bi for bi, t in main.calls() if callee_matches(t, r"serde_json::to_writer(_pretty)?$|serde_json::to_string(_pretty)?$|validators::run$")}
    if len(parse) != 1 or not work:
        out.viol(rule, "%s|anchor" % rule, ctx.where(main), "main: expected one parse_blocks call and the list writer / validators::run calls (found %d / %d)" % (len(parse), len(work)))
        out.inst(rule, 0, 1)
        return
    pbi, pt = parse[0]
    start = pt.get("target")
    if start is None:
        start = cfg.succ[pbi][0]
    r = cfg.reach(start, avoid=work)
    n = 0
    bad = None
    for bi, j, s in main.assigns():
        if bi not in r:
            continue
        rv = s["rv"]
        if s["lhs"]["l"] == 0 and not s["lhs"]["p"] and rv["k"] == "agg" and rv.get("agg") == "adt" and rv.get("path", "").endswith("result::Result") and rv.get("variant") in ("Ok", 0):
            bad = s
    if bad is not None:
        out.viol(rule, "%s|early-ok" % rule, ctx.where(main, bad["span"]),
                 "main can return Ok after parsing the blocks without either printing the list or running the validators: on that path `list` prints nothing (not even `{}`) and a validation run reports nothing")
    else:
        n += 1
    out.inst(rule, n, 1, note="Ok returns reachable from parse_blocks without passing the list writer / validators::run: must be 0")


def check_items(ctx, out, rule="C11.items"):
    """The report holds one entry per violation: in the report function the loop over a file's
    `Violation`s appends exactly one `serde_json::Value` per iteration to a list (every path that
    stays in the loop), and nothing keyed, de-duplicating or truncating stands between the
    violations and the written document."""
    from rules.shared import TRUNCATING
    LOSSY = r"::(dedup|dedup_by|dedup_by_key|retain|retain_mut|truncate|pop|remove|swap_remove|drain|clear|split_off)$"
    # decided on the small model of the exit rule when the written document is fully known there
    if "_report_doc" not in ctx.__dict__:
        try:
            check_exit_model(ctx, out.trial())
        except Exception:       # noqa: BLE001
            ctx.__dict__["_report_doc"] = (None, [])
    verdict, bad = ctx.__dict__.get("_report_doc", (None, []))
    if verdict is True:
        out.inst(rule, 1, 1, ["small model {P1: [V1, V2], P2: [V3]}: the written document holds every violation exactly once under its file"], exhaustive=True)
        return
    if verdict is False:
        case, got = bad[0]
        out.viol(rule, "%s|model" % rule, "-", "small model: violations {P1: [V1, V2], P2: [V3]} with severities %s are written as %s: every violation of every file must appear in the report exactly once" % (list(case), got))
        out.inst(rule, 0, 1)
        return
    rb = None
    for b in ctx.reachable_bodies():
        if b.id.startswith("bwbin::") and any(callee_matches(t, r"^std::process::(exit|abort)$") for _, t in b.calls()):
            rb = b
    if rb is None:
        out.inst(rule, 0, 1, note="report function not found")
        return
    v = ctx.inl(rb, skip=ctx.domain_api, tag="domain", sugar=True)
    cfg = cfg_of(v)
    E = ctx.expr(v)
    n = 0
    loops = []
    for bi, t in v.calls():
        if not callee_matches(t, r"Iterator>?::next$") or bi not in cfg.reachable:
            continue
        pl = t["args"][0].get("m") or t["args"][0].get("c")
        ty = v.local_ty(pl["l"]) if pl else ""
        if re.search(r"(IntoIter|Iter|Drain)<[^>]*validators::Violation\b", ty) and "PathBuf" not in ty:
            h = cfg.innermost_loop(bi)
            if h is not None:
                loops.append((h, cfg.loops()[h], bi))
    def is_val(c):
        a = (c.get("arg_tys") or [""])[0]
        return "serde_json::Value" in a or "SimpleDiagnostic" in a or re.search(r"Vec<blockwatch::validators::Violation>", a) is not None
    for bi, t in v.calls():
        if callee_matches(t, LOSSY) and is_val(t) and "HashMap" not in (t.get("arg_tys") or [""])[0]:
            out.viol(rule, "%s|lossy|%s" % (rule, callee_name(t).split("::")[-1]), ctx.where(v, t["span"]),
                     "the list of diagnostics is passed through `%s`: violations can be removed from the report" % callee_name(t).split("::")[-1])
    if not loops:
        out.viol(rule, "%s|no-loop" % rule, ctx.where(rb), "no loop over the `Violation`s of a file found in the report function (normalised view): the one-entry-per-violation rule cannot be established")
        out.inst(rule, 0, 1)
        return
    for h, blocks, nb in loops:
        t = v.blocks[nb]["term"]
        e = E.operand(t["args"][0])
        bad = [c[1].split("::")[-1] for c in walk(e) if c[0] == "call" and (TRUNCATING.search(c[1]) or re.search(r"Iterator>?::(filter|filter_map)$", c[1]))]
        if bad:
            out.viol(rule, "%s|truncated" % rule, ctx.where(v, t["span"]), "the report iterates a file's violations through %s: violations can be left out of the report" % bad)
            continue
        region = util.iter_region(v, nb) | set(blocks)
        sw = cfg.succ[nb][0]
        some = util.switch_arms(v, sw).get(1)
        pushes = [(bi, c) for bi, c in v.calls() if bi in region and callee_matches(c, r"Vec::<T, A>::push$|VecDeque::<T, A>::push_back$") and is_val(c)]
        keyed = [(bi, c) for bi, c in v.calls() if bi in region and callee_matches(c, r"(BTreeMap|HashMap|IndexMap|BTreeSet|HashSet)::<.*>::(insert|entry)$")
                 and "serde_json::Map" not in callee_name(c) and cfg.innermost_loop(bi) == h]
        if keyed:
            kt = (keyed[0][1].get("arg_tys") or ["?"])[0]
            out.viol(rule, "%s|keyed" % rule, ctx.where(v, keyed[0][1]["span"]),
                     "each violation's entry is inserted into `%s` instead of being appended to a list: two violations with the same key (e.g. the same start position — several rules of one block all report at its start tag) collapse into one entry" % kt[:120])
            continue
        if len(pushes) != 1:
            out.viol(rule, "%s|push-count" % rule, ctx.where(v, t["span"]), "expected exactly one append of a diagnostic value per violation, found %d" % len(pushes))
            continue
        pbi, pc = pushes[0]
        r = cfg.reach(some, avoid=(set(range(cfg.n)) - set(region)) | {pbi}) if some is not None else set()
        if some is not None and some != pbi and (h in r or any(h in cfg.succ[x] for x in r)):
            out.viol(rule, "%s|skipped" % rule, ctx.where(v, pc["span"]), "there is a path through the per-violation iteration that does not append an entry: a violation can be missing from the report")
            continue
        n += 1
    out.inst(rule, n, 1, note="loops over a file's violations in the report function: one appended entry per iteration, no keyed / lossy container")


def check_exit_model(ctx, out, rule="C11.exitmodel"):
    """The exit decision on a small model (engine.casewalk + engine.listmodel): the violations are the
    concrete map {P1: [V1, V2], P2: [V3]}; for each of the 8 assignments of severities {error, warning}
    the report code is walked. Expected: `process::exit` is reached exactly when some violation has
    severity error, and the function returns Ok exactly when none has - however the flag is computed
    (sticky flag, `any` over a flattened scan, a field of a report struct, decided in main)."""
    from engine import casewalk as CW
    from engine import listmodel as LM
    import itertools
    sites = [(b, bi, t) for b in ctx.reachable_bodies() for bi, t in b.calls() if callee_matches(t, r"^std::process::(exit|abort)$")]
    if len(sites) != 1:
        return None
    b0 = sites[0][0]
    if b0.id == "bwbin::main":
        v = ctx.inl(b0, skip=lambda cb: not cb.id.startswith("bwbin::"), tag="bin-only", sugar=True)
    else:
        v = ctx.inl(b0, skip=ctx.domain_api, tag="domain", sugar=True)
    cfg = cfg_of(v)
    MAPTY = r"^&?(mut )?std::collections::HashMap<std::path::PathBuf, std::vec::Vec<blockwatch::validators::Violation>"
    params = [i for i in range(1, v.argc + 1) if re.match(MAPTY, v.local_ty(i))]
    producers = {bi for bi, t in v.calls() if re.match(r"^std::result::Result<std::collections::HashMap<std::path::PathBuf, std::vec::Vec<blockwatch::validators::Violation>", t.get("dest_ty") or "") and callee_matches(t, r"validators::run$")}
    if not params and not producers:
        return None
    sev = ctx.facts.adts.get("blockwatch::blocks::BlockSeverity")
    if not sev:
        return None
    disc = {x["name"]: x.get("discr", x["vi"]) for x in sev["variants"]}
    std = CW.std_hooks()
    lm = LM.hooks()
    n = 0
    doc_ok = [None]
    doc_unknown = [False]
    doc_bad = []
    for case in itertools.product(("Error", "Warning"), repeat=3):
        sevs = dict(zip(("V1", "V2", "V3"), case))
        the_map = LM.lst([("tuple", (CW.sym("P1"), LM.lst([CW.sym("V1"), CW.sym("V2")]))), ("tuple", (CW.sym("P2"), LM.lst([CW.sym("V3")])))])
        seen = set()
        docs = []

        def hook(w, bb, t, argv, env):
            nm = callee_name(t)
            a0 = w.deref_val(env, argv[0]) if argv else CW.TOP
            if bb in producers:
                return CW.adt("std::result::Result", "Ok", 0, [("0", the_map)])
            if callee_matches(t, r"^std::process::(exit|abort)$"):
                seen.add("exit")
                return "diverge"
            if re.search(r"validators::Violation::as_simple_diagnostic$", nm) and a0[0] == "sym" and a0[1] in sevs:
                s = sevs[a0[1]]
                return ("adt", "blockwatch::validators::SimpleDiagnostic", "SimpleDiagnostic", None,
                        (("severity", ("adt", "blockwatch::blocks::BlockSeverity", s, disc[s], ())), ("of", a0)))
            if re.search(r"SimpleDiagnostic(::<'_>)?::severity$", nm) and a0[0] == "adt":
                return w.field(a0, "severity")
            if re.search(r"serde_json::to_value$", nm):
                if a0[0] == "adt" and a0[1].endswith("SimpleDiagnostic"):
                    return CW.adt("std::result::Result", "Ok", 0, [("0", CW.sym("json", w.field(a0, "of")))])
                if a0[0] == "list":
                    return CW.adt("std::result::Result", "Ok", 0, [("0", LM.lst(tuple(CW.sym("json", w.field(x, "of")) if x[0] == "adt" else CW.TOP for x in a0[1])))])
                return CW.adt("std::result::Result", "Ok", 0, [("0", CW.sym("JSON"))])
            if re.search(r"serde_json::(to_writer_pretty|to_writer)$", nm):
                doc = w.deref_val(env, argv[1]) if len(argv) > 1 else CW.TOP
                stream = argv[0] if argv else CW.TOP
                docs.append(doc)
                return CW.adt("std::result::Result", "Ok", 0, [("0", CW.const(0))])
            if re.search(r"serde_json::(to_string_pretty|to_string)$", nm):
                docs.append(a0)
                return CW.adt("std::result::Result", "Ok", 0, [("0", CW.sym("JSON"))])
            if re.search(r"io::Write>?::(write_fmt|write_all|flush)$|io::stdio::_?e?print$", nm):
                return CW.adt("std::result::Result", "Ok", 0, [("0", CW.const(0))])
            r = lm(w, bb, t, argv, env)
            if r is not None:
                return r
            return std(w, bb, t, argv, env)
        w = CW.Walk(ctx, v, [hook], max_states=60000)

        def on_visit(bb, env):
            tm = v.blocks[bb]["term"]
            if tm and tm["k"] == "return":
                r0 = env.get(0, CW.TOP)
                if r0[0] == "adt" and r0[2] == "Ok":
                    seen.add("return-ok")
                elif r0[0] != "adt":
                    seen.add("return-?")
        w.on_visit = on_visit
        env = {p: the_map for p in params}
        start = 0
        try:
            w.explore(start, env)
        except CW.Limit:
            return None
        # the written document: {P1: [V1, V2], P2: [V3]} - every violation once, under its file
        for doc in docs:
            got = _doc_shape(doc)
            if got is None:
                if doc_ok[0] is not False and (doc[0] != "list" or doc[1]):
                    doc_ok[0] = None if doc_ok[0] is None or doc_ok[0] is True and False else doc_ok[0]
                    doc_unknown[0] = True
                continue
            if got == {"P1": ["V1", "V2"], "P2": ["V3"]}:
                if doc_ok[0] is None and not doc_unknown[0]:
                    doc_ok[0] = True
            else:
                doc_ok[0] = False
                doc_bad.append((case, got))
        any_err = "Error" in case
        want_exit = any_err
        desc = "violations {P1: [V1=%s, V2=%s], P2: [V3=%s]}" % case
        if not params and "return-ok" in seen and want_exit:
            # in main, Ok returns exist on other paths (list, no violations...): only the exit side is decisive
            seen.discard("return-ok")
        if ("exit" in seen) != want_exit:
            out.viol(rule, "%s|%s|exit" % (rule, "".join(c[0] for c in case)), ctx.where(b0),
                     "%s: process::exit is %s; expected: the run fails exactly when at least one diagnostic has severity error, whatever its position among the files and diagnostics" % (desc, "reached" if "exit" in seen else "not reached"))
        elif params and want_exit and "return-ok" in seen:
            out.viol(rule, "%s|%s|ok" % (rule, "".join(c[0] for c in case)), ctx.where(b0),
                     "%s: the report function can also return normally (exit status 0) although an error diagnostic exists" % desc)
        elif params and not want_exit and "return-ok" not in seen:
            out.viol(rule, "%s|%s|no-return" % (rule, "".join(c[0] for c in case)), ctx.where(b0), "%s: the report function does not return normally although no diagnostic is an error" % desc)
        else:
            n += 1
    out.inst(rule, n, 8, ["{P1: [V1, V2], P2: [V3]} x severities {error, warning}^3: exit iff some error"], exhaustive=True)
    ctx.__dict__["_report_doc"] = (False, doc_bad[:1]) if doc_ok[0] is False else ((True, []) if doc_ok[0] and not doc_unknown[0] else (None, []))
    return n == 8


def _doc_shape(doc):
    """{file symbol: sorted violation symbols} of a written document value, or None if not fully known"""
    if doc[0] != "list":
        return None
    res = {}
    for x in doc[1]:
        if x[0] != "tuple" or len(x[1]) != 2 or x[1][0][0] != "sym":
            return None
        vals = x[1][1]
        if vals[0] != "list":
            return None
        vs = []
        for j in vals[1]:
            if j[0] == "sym" and j[1] == "json" and len(j) > 2 and j[2][0] == "sym":
                vs.append(j[2][1])
            elif j[0] == "adt" and str(j[1]).endswith("SimpleDiagnostic"):
                of = [x for k, x in j[4] if k == "of"]
                if not of or of[0][0] != "sym":
                    return None
                vs.append(of[0][1])
            else:
                return None
        res[x[1][0][1]] = sorted(vs)
    return res


def run(ctx, out, tier):
    check_paths(ctx, out)
    check_items(ctx, out)
    check_exit(ctx, out)
    check_severity(ctx, out)
    check_all(ctx, out)
    check_shape(ctx, out)
    check_list(ctx, out)
    bodies = ctx.reachable_bodies()
    shared.sh_merge(ctx, out, bodies)
    dv = detect_fn(ctx)
    if dv is not None:
        check_once(ctx, out, dv, rule="C11.once")
    else:
        out.inst("C11.once", 0, 4)
    # every block of every file is offered to every validator (no truncated / early-left iteration)
    for nm in ("keep-sorted", "keep-unique", "line-pattern", "line-count"):
        shared.sh_visit(ctx, out, nm, rule="C11.visit")
    shared.sh_err(ctx, out, bodies, floor=300)
    shared.sh_main(ctx, out)
    shared.sh_traverse(ctx, out)
    # a diagnostic (and its severity) belongs to the block that produced it: no list kept across the async
    # validators' block loop that is later paired with results by position
    for _nm in ("check-lua", "check-ai"):
        shared.sh_state(ctx, out, _nm)
    return meta()


def meta():
    return {
        "explanation": "Decides the exit/report skeleton on every path of main and the report function (single exit(1) under a sticky flag set exactly for Error severity inside the loops over all diagnostics; one JSON document to stderr before the exit decision; list to stdout), the complete severity tables (numbers, repr serialisation, case-insensitive names, default, unknown -> Err), the provenance of every diagnostic's severity, append-only merging at all entry() sites with zero overwriting calls, the exactly-once discipline of validator detection, and that no Result anywhere reachable from main is swallowed. It decides these structural parts, not the JSON text.",
        "undecided": "serde's rendering of the derived Serialize impls; OS-level write failures.",
        "assumptions": ["derive expansions (strum EnumString, serde_repr) are analysed as expanded MIR"],
    }
