"""Small-model decisions for the line-level validators (engine.casewalk + engine.listmodel): the block's
content is a concrete list of three symbolic lines; for every assignment of per-line properties the
validator's per-block code is walked and what it reports is compared with the specification. The
model does not care how the scan is written (for loop, find / find_map pipeline, two phases, helper
functions, a manually advanced iterator)."""
import itertools
import re

from engine import casewalk as CW
from engine import listmodel as LM
from engine.cfg import cfg_of
from engine.expr import render
from engine.facts import callee_name, callee_matches
from rules import shared, util


def block_loop(ctx, vb):
    loops = [(h, bl) for h, bl, kind in shared.outer_block_loops(ctx, vb) if kind == "blocks"]
    if len(loops) != 1:
        return None, None, None
    h, lblocks = loops[0]
    drivers = {bi for bi, t in vb.calls() if bi in lblocks and callee_matches(t, r"Iterator>?::next$")
               and (lambda txt: "blocks_with_context" in txt and not re.search(r"\blines\(|Block::content\(|split\w*\(|chars\(", txt))(render(ctx.expr(vb).operand(t["args"][0]), 3000))}
    return h, set(lblocks), drivers


def violation_sites(ctx, vb):
    return {bi for bi, t in vb.calls() if callee_matches(t, r"validators::Violation::new$") or
            (ctx.facts.body(t.get("res") or "") is not None and "blockwatch::validators::Violation" in ctx.facts.body(t.get("res")).local_ty(0)
             and not ctx.facts.body(t.get("res")).local_ty(0).startswith("std::collections"))}


class Report:
    """what one walk observed: [(line index or None)] of constructed violations"""
    def __init__(self):
        self.reported = set()
        self.problems = []
        self.accepted = False       # the next block is reached (no error)
        self.errors = 0             # returns with Err
        self.ok_returns = 0         # returns without error (inside one block's iteration)
        self.ends = []              # per path that goes on to the next block: number of violations built on it


def walk_block(ctx, vb, attr, lines, hook_extra, attr_value=None, max_states=40000):
    """Explores one iteration of the per-block loop with the block's content = `lines` (abstract line
    values). Records, for every violation construction reached, the tuple of line indices handed to
    Block::content_line_position / constructed so far on that path. Returns Report or None (undecided)."""
    h, lblocks, drivers = block_loop(ctx, vb)
    if h is None or not drivers:
        return None
    vsites = violation_sites(ctx, vb)
    if not vsites:
        return None
    std = CW.std_hooks()
    lm = LM.hooks()
    rep = Report()

    def hook(w, bb, t, argv, env):
        nm = callee_name(t)
        a0 = w.deref_val(env, argv[0]) if argv else CW.TOP
        if bb in drivers:
            if env.get(-4) is None:
                env[-4] = CW.const(1)
                return CW.adt("std::option::Option", "Some", 1, [("0", CW.sym("BLOCK"))])
            return "diverge"
        if re.search(r"HashMap::<K, V, S, A>::(get|contains_key)$", nm) and len(argv) > 1 and w.deref_val(env, argv[1]) == CW.const(attr):
            if nm.endswith("contains_key"):
                return CW.const(1)
            return CW.adt("std::option::Option", "Some", 1, [("0", attr_value if attr_value is not None else CW.sym("ATTR"))])
        if re.search(r"blocks::Block::content$", nm):
            return CW.sym("CONTENT")
        if re.search(r"<impl str>::lines$", nm) and a0 == CW.sym("CONTENT"):
            return LM.itr(lines)
        if re.search(r"<impl str>::is_empty$", nm) and a0 == CW.sym("CONTENT"):
            return CW.const(0)
        if re.search(r"blocks::Block::content_line_position$", nm) and len(argv) > 1:
            i = w.deref_val(env, argv[1])
            env[-5] = ("tuple", env.get(-5, ("tuple", ()))[1] + (i,))
            return ("tuple", (CW.sym("LINE-NO", i), CW.sym("COL0")))
        r = hook_extra(w, bb, t, argv, env, rep)
        if r is not None:
            return r
        r = lm(w, bb, t, argv, env)
        if r is not None:
            return r
        return std(w, bb, t, argv, env)
    w = CW.Walk(ctx, vb, [hook], max_states=max_states)

    def on_visit(bb, env):
        if bb in vsites:
            idx = env.get(-5, ("tuple", ()))[1]
            last = idx[-1] if idx else None
            rep.reported.add(last[1] if (last is not None and CW.is_const(last)) else ("?" if last is None else "sym"))
            n = env.get(-6, CW.const(0))[1] + 1
            env[-6] = CW.const(n)
            if n > 1:
                rep.problems.append("more than one violation is built for one block")
        tm = vb.blocks[bb]["term"]
        if tm and tm["k"] == "return":
            r0 = env.get(0, CW.TOP)
            if r0[0] == "adt" and r0[2] == "Err":
                rep.errors += 1
            else:
                rep.ok_returns += 1
    w.on_visit = on_visit
    first = [True]

    def stop(bb, env):
        if bb == h:
            if first[0]:
                first[0] = False
                return False
            rep.accepted = True
            # (violations built on this path, content-line indices whose position was asked for on it)
            rep.ends.append((env.get(-6, CW.const(0))[1], frozenset(i[1] for i in env.get(-5, ("tuple", ()))[1] if CW.is_const(i))))
            return True
        return False
    try:
        w.explore(h, {}, stop)
    except CW.Limit:
        return None
    return rep
