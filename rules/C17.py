"""C17 — Default Lua mode is a sandbox: no file, OS or module access.

Decided completely by static derivation (level: proof over a finite registration graph):
 1. mode table — the interpreter factory is evaluated (partial evaluation of its MIR, external
    calls replaced by models) on one representative per equivalence class of BLOCKWATCH_LUA_MODE:
    unset, each constant the code compares against, and fresh / case / whitespace variants; the
    value is checked to be inspected through equality with constants only, so the classes are
    exhaustive;
 2. library map — StdLib bit -> luaopen_* from the pinned mlua source; new() = ALL_SAFE, safe states
    reject DEBUG and disable C loaders, the base library is always opened;
 3. registration tables — luaL_Reg arrays of the pinned Lua 5.4 C sources give the global names;
 4. post-processing — globals the factory sets to nil are subtracted; anything it adds is a violation;
 5. who may build an interpreter — Lua::new* only in the factory; one fresh interpreter per script run.
"""
import re

from engine import absint, luamodel
from engine.absint import Interp, Unknown, ok, err, some, NONE
from engine.cfg import cfg_of
from engine.expr import render, walk, find_calls
from engine.facts import callee_name, callee_matches
from engine import prov as P
from rules import shared, util

FORBIDDEN_DEFAULT = ["io", "os", "package", "debug", "require", "dofile", "loadfile"]
ALLOWED_LIBS_DEFAULT = {"coroutine", "table", "string", "utf8", "math"}
ENV = "BLOCKWATCH_LUA_MODE"


def lua_hooks(model, mode_value):
    H = []

    def add(rx, fn):
        H.append((re.compile(rx), fn))

    def env_var(it, n, a, t):
        if a and a[0] == ENV:
            return ok(mode_value) if mode_value is not None else err("NotPresent")
        raise Unknown("reads environment variable %r" % (a[0] if a else None))
    add(r"^std::env::var$", env_var)
    add(r"^std::env::var_os$", lambda it, n, a, t: (some(mode_value) if mode_value is not None else dict(NONE)) if a and a[0] == ENV else (_ for _ in ()).throw(Unknown("reads env %r" % a[0])))
    bits = model["bits"]

    def new(it, n, a, t):
        return {"__obj": "lua", "ctor": "new", "flags": bits["ALL_SAFE"], "safe": True, "removed": [], "added": []}
    add(r"^mlua::Lua::new$", new)
    add(r"^mlua::Lua::unsafe_new$", lambda it, n, a, t: {"__obj": "lua", "ctor": "unsafe_new", "flags": bits["ALL"], "safe": False, "removed": [], "added": []})

    def new_with(it, n, a, t):
        flags = a[0] if isinstance(a[0], int) else None
        if flags is None:
            raise Unknown("library flags are not a constant expression")
        if flags & bits["DEBUG"]:
            return err("SafetyError")
        return ok({"__obj": "lua", "ctor": "new_with", "flags": flags & 0xFFFFFFFF, "safe": True, "removed": [], "added": []})
    add(r"^mlua::Lua::new_with$", new_with)
    add(r"^mlua::Lua::unsafe_new_with$", lambda it, n, a, t: {"__obj": "lua", "ctor": "unsafe_new_with", "flags": a[0] & 0xFFFFFFFF, "safe": False, "removed": [], "added": []})
    for op, fn in (("BitOr>?::bitor", lambda x, y: x | y), ("BitXor>?::bitxor", lambda x, y: x ^ y), ("BitAnd>?::bitand", lambda x, y: x & y), ("Sub>?::sub", lambda x, y: x & ~y)):
        add(r"mlua::StdLib as std::ops::%s$" % op, (lambda f: lambda it, n, a, t: f(a[0], a[1]) & 0xFFFFFFFF)(fn))
    add(r"mlua::StdLib as std::ops::Not>?::not$", lambda it, n, a, t: ~a[0] & 0xFFFFFFFF)
    if model["contains"] == "intersects":
        add(r"^mlua::StdLib::contains$", lambda it, n, a, t: (a[0] & a[1]) != 0)
    else:
        add(r"^mlua::StdLib::contains$", lambda it, n, a, t: (a[0] & a[1]) == a[1])
    add(r"^mlua::Lua::globals$", lambda it, n, a, t: {"__obj": "globals", "lua": a[0]})

    def table_set(it, n, a, t):
        tbl, key, val = a[0], a[1], a[2]
        if not (isinstance(tbl, dict) and tbl.get("__obj") == "globals"):
            raise Unknown("Table::set on something that is not the globals table")
        if not isinstance(key, str):
            raise Unknown("non-constant global name")
        if isinstance(val, dict) and val.get("__variant") == "Nil":
            tbl["lua"]["removed"].append(key)
        else:
            tbl["lua"]["added"].append(key)
        return ok(())
    add(r"^mlua::Table::(set|raw_set)$", table_set)

    def load_std(it, n, a, t):
        a[0]["flags"] |= a[1]
        if a[0]["safe"] and (a[1] & bits["DEBUG"]):
            return err("SafetyError")
        return ok(())
    add(r"^mlua::Lua::load_std_libs$", load_std)
    add(r"^mlua::Lua::(sandbox|set_memory_limit|set_hook|gc_.*|set_warning_function)$", lambda it, n, a, t: ok(()))
    return H + absint.std_hooks()


def factory_fn(ctx):
    c = [b for b in ctx.facts.bodies.values() if b.promoted is None and b.kind in ("Fn", "AssocFn") and b.local_ty(0) == "mlua::Lua" and b.id in ctx.reach]
    return c


def mode_classes(ctx, fac):
    consts = set()
    region = ctx.region(fac)
    for b in region:
        E = ctx.expr(b)
        for bi, t in b.calls():
            if callee_matches(t, r"PartialEq.*>::(eq|ne)$|eq_ignore_ascii_case$|starts_with$|ends_with$|<impl str>::contains$"):
                for a in t["args"]:
                    v = util.const_val(ctx, b, a)
                    if isinstance(v, str):
                        consts.add(v)
    base = {"sandboxed", "safe", "unsafe"} | consts
    variants = set()
    for c in base:
        variants |= {c.upper(), c.capitalize(), c + " ", " " + c, c[:-1] if len(c) > 1 else c + "x", c + "x"}
    fresh = {"", "zz-other-value", "strict", "none", "0", "true"}
    return [None] + sorted(base) + sorted((variants | fresh) - base), sorted(consts)


def run(ctx, out, tier):
    try:
        model = luamodel.load(ctx_repo())
    except luamodel.ModelError as e:
        out.viol("C17.model", "C17.model|unreadable", "-", "the registration model of the pinned mlua / Lua sources could not be derived: %s" % e)
        out.inst("C17.model", 0, 1)
        return meta(0, 0)
    out.inst("C17.model", 1, 1, ["mlua %s, %s, features %s" % (model["mlua"], model["lua"], model["features"])],
             note="bit->luaopen map, new()=ALL_SAFE, base always opened, luaL_Reg tables read from the pinned sources")
    facs = factory_fn(ctx)
    if len(facs) != 1:
        out.viol("C17.factory", "C17.factory|count", "-", "expected exactly one function that builds an mlua::Lua, found %s" % [f.id for f in facs])
        out.inst("C17.factory", 0, 1)
        return meta(0, 0)
    fac = facs[0]
    out.inst("C17.factory", 1, 1, [fac.id])

    # ------------------------------------------------------------------ the mode value is only compared for equality
    exhaustive = True
    region = ctx.region(fac)
    for b in region:
        for bi, t in b.calls():
            if callee_matches(t, r"^std::env::var(_os)?$"):
                v = util.const_val(ctx, b, t["args"][0]) if t["args"] else None
                if v != ENV:
                    out.viol("C17.mode", "C17.mode|other-env|%s" % v, ctx.where(b, t["span"]), "the interpreter factory also reads environment variable %r" % (v,))
    INSPECT_OK = re.compile(r"Result::<T, E>::(as_deref|as_ref|unwrap_or|ok|unwrap_or_default)$|Option::<T>::(as_deref|unwrap_or|unwrap_or_default|as_ref)$|PartialEq.*>::(eq|ne)$|Deref>?::deref$|String::as_str$|^std::env::var(_os)?$|^mlua::|BitOr|BitXor|BitAnd|Default>?::default$|Result::<T, E>::(expect|unwrap)$|IntoIterator|Iterator>?::next$|ops::Try|FromResidual|std::ffi::OsStr|OsString|Clone>?::clone$|From<|Into<|to_str$|to_string_lossy$")
    for b in region:
        if not (b.id.startswith("blockwatch::") or b.id.startswith("<blockwatch::")):
            continue
        for bi, t in b.calls():
            nm = callee_name(t)
            if ctx.facts.body(t.get("res") or "") is not None:
                continue
            if not INSPECT_OK.search(nm) and not INSPECT_OK.search(t.get("def") or ""):
                labs = set()
                for a in t["args"]:
                    labs |= ctx.prov.read_operand(b, a)
                if P.has_call(labs, r"^std::env::var(_os)?$"):
                    exhaustive = False
                    out.viol("C17.mode", "C17.mode|inspected-by|%s" % nm.split("::")[-1], ctx.where(b, t["span"]),
                             "the mode value is inspected with `%s`, not only compared for equality with constants: 'any other value behaves like the default' cannot be shown by enumerating the compared constants" % nm)

    # ------------------------------------------------------------------ evaluate the factory per class
    classes, consts = mode_classes(ctx, fac)
    results = {}
    obligations = 0
    discharged = 0
    samples = []
    for mode in classes:
        it = Interp(ctx.facts, lua_hooks(model, mode))
        try:
            lua = it.run(fac, [])
        except Unknown as u:
            out.viol("C17.mode", "C17.mode|unevaluable|%s" % ("<unset>" if mode is None else mode), ctx.where(fac),
                     "the interpreter factory cannot be evaluated for BLOCKWATCH_LUA_MODE=%r: %s" % (mode, u))
            continue
        if not (isinstance(lua, dict) and lua.get("__obj") == "lua"):
            out.viol("C17.mode", "C17.mode|no-lua|%s" % mode, ctx.where(fac), "the factory does not return an interpreter for mode %r" % (mode,))
            continue
        g, libs = luamodel.globals_for(model, lua["flags"], lua["removed"])
        results[mode] = (lua, g, libs)
        kind = "unsafe" if mode == "unsafe" else ("safe" if mode == "safe" else "default")
        label = "<unset>" if mode is None else repr(mode)
        if lua["added"]:
            out.viol("C17.globals", "C17.globals|added|%s" % kind, ctx.where(fac), "the factory adds globals %s to the interpreter (mode %s)" % (lua["added"], label))
        if kind == "default":
            for name in FORBIDDEN_DEFAULT:
                obligations += 1
                if name in g:
                    out.viol("C17.globals", "C17.globals|default|%s|%s" % (name, "unset" if mode is None else ("sandboxed" if mode == "sandboxed" else "other")), ctx.where(fac),
                             "with BLOCKWATCH_LUA_MODE=%s the global `%s` is reachable (constructor %s, libraries %s, removed %s): the default mode is not a sandbox" % (label, name, lua["ctor"], libs, lua["removed"]))
                else:
                    discharged += 1
            obligations += 1
            if set(libs) <= ALLOWED_LIBS_DEFAULT and lua["safe"]:
                discharged += 1
            else:
                out.viol("C17.globals", "C17.globals|default|libs|%s" % ("unset" if mode is None else ("sandboxed" if mode == "sandboxed" else "other")), ctx.where(fac),
                         "with BLOCKWATCH_LUA_MODE=%s the interpreter loads %s (safe=%s); allowed beyond the base library: %s" % (label, libs, lua["safe"], sorted(ALLOWED_LIBS_DEFAULT)))
        elif kind == "safe":
            for name in ("io", "os", "package"):
                obligations += 1
                if name in g:
                    discharged += 1
                else:
                    out.viol("C17.globals", "C17.globals|safe|missing|%s" % name, ctx.where(fac), "mode `safe` does not provide `%s`" % name)
            obligations += 2
            if "debug" not in g:
                discharged += 1
            else:
                out.viol("C17.globals", "C17.globals|safe|debug", ctx.where(fac), "mode `safe` exposes `debug`")
            if lua["safe"]:
                discharged += 1
            else:
                out.viol("C17.globals", "C17.globals|safe|c-modules", ctx.where(fac), "mode `safe` builds an unsafe interpreter (native-module loading enabled)")
        else:
            obligations += 2
            if "debug" in g and not lua["safe"]:
                discharged += 2
            else:
                out.viol("C17.globals", "C17.globals|unsafe|incomplete", ctx.where(fac), "mode `unsafe` does not enable debug / native-module loading")
        if len(samples) < 6:
            samples.append("%s -> %s flags=0x%X libs=%s removed=%s" % (label, lua["ctor"], lua["flags"], libs, lua["removed"]))
    out.inst("C17.mode", len(results), len(classes), samples, exhaustive=exhaustive,
             note="mode classes evaluated: unset + %d compared constants %s + %d other spellings" % (len(consts), consts, len(classes) - 1 - len(set(consts) | {"sandboxed", "safe", "unsafe"})))
    out.inst("C17.globals", discharged, 1, ["%d/%d obligations on the derived global sets" % (discharged, obligations)], exhaustive=True)

    # ------------------------------------------------------------------ who may build an interpreter; fresh per run
    k = 0
    for b in ctx.reachable_bodies():
        for bi, t in b.calls():
            if callee_matches(t, r"^mlua::Lua::(new|new_with|unsafe_new|unsafe_new_with|init_from_ptr|get_or_init_from_ptr)$"):
                if b.id == fac.id or b.id in {x.id for x in ctx.facts.with_descendants(fac)} or b.id in {x.id for x in region}:
                    k += 1
                else:
                    out.viol("C17.who", "C17.who|%s" % b.id, ctx.where(b, t["span"]), "`%s` is called outside the interpreter factory: a script could run in an interpreter that did not go through the mode table" % callee_name(t))
    runners = [b for b in ctx.reachable_bodies() if any(callee_matches(t, r"^mlua::Function::(call_async|call)$") for bi, t in b.calls())]
    # one interpreter per script run: the factory is called only in code that runs once per block (shared with
    # C13 / C18 / C20: the runner, or anything the spawned per-block task awaits / calls outside a loop)
    from rules.C18 import check_fresh
    tr = out.trial()
    check_fresh(ctx, tr, "C17.fresh")
    if tr.violations:
        out.adopt(tr)
    else:
        k += len([1 for b in ctx.reachable_bodies() for bi, t in b.calls() if (t.get("res") or "") == fac.id]) or 0
    if not any((t.get("res") or "") == fac.id for b in ctx.reachable_bodies() for bi, t in b.calls()):
        out.viol("C17.fresh", "C17.fresh|no-site", "-", "the interpreter factory is never called")
    out.inst("C17.who", k, 4, ["Lua::new* only in %s; factory called per script run" % fac.id])
    return meta(obligations, discharged, model)


def ctx_repo():
    import os
    return os.environ.get("BW_REPO", "/repo")


def meta(obligations, discharged, model=None):
    m = {
        "level": "proof",
        "explanation": "Complete static derivation over a finite registration graph: the interpreter factory's MIR is partially evaluated (externals replaced by models of env::var, mlua constructors, StdLib bit operations, globals().set) on every equivalence class of BLOCKWATCH_LUA_MODE; the resulting constructor / flags / removed globals are pushed through the library map read from the pinned mlua source and the luaL_Reg tables read from the pinned Lua 5.4 C sources; the obligations are set inclusions on the derived global-name sets. No Lua and no blockwatch code is run.",
        "undecided": "that `load` of byte code gives no extra authority; mlua's and the C compiler's correctness.",
        "assumptions": ["a Lua state has no ambient authority beyond the functions registered into it", "the pinned mlua / lua-src sources in the cargo registry are what Cargo.lock builds"],
        "obligations": max(obligations, 1),
        "discharged": max(discharged, 0),
        "checker_cmd": "./check C17",
        "trusted_base": ["rustc MIR (nightly)", "engine/absint.py models of std/mlua APIs", "engine/luamodel.py reading of mlua %s and Lua C sources" % (model["mlua"] if model else "?"), "Lua reference semantics: globals are exactly what luaL_Reg tables and luaL_requiref register"],
    }
    return m
