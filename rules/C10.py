"""C10 — Every diagnostic points at the text it is about.

Decided (provenance of the four numbers of every reported range, for all seven validators):
 line-level validators: line = content start line + index of the content line (never the tag's
 line), the index enumerates every content line, columns include the content's start column (first
 content line), start column from the pointer offset of the trimmed text / `Match::range().start`
 (+1), end column from `len` of the trimmed text / `Match::range().end`; start and end not swapped;
 tag-level validators: range = (start_tag_position_range.start, .end) of the reported block;
 the start tag's own column on a continuation line of its comment is measured from the LAST
 newline before it.
Not decided: the integer arithmetic itself (+1/-1), i.e. that the numbers are right, only that they
are computed from the right quantities.
"""
import os
import re

from engine.cfg import cfg_of
from engine.expr import render, walk, find_calls
from engine.facts import callee_name, callee_matches
from engine import prov as P
from rules import shared, util, linelevel
from rules.C08 import enumerate_chain_ok

LINE_LEVEL = ["keep-sorted", "keep-unique", "line-pattern"]
TAG_LEVEL = ["affects", "line-count", "check-lua", "check-ai"]


def resolve_to_caller(ctx, callee, labs, caller, t):
    """Substitute ("param", i, path) labels of `callee` with the labels of the call's arguments."""
    out = set()
    for lab in labs:
        if lab[0] == "param" and 1 <= lab[1] <= len(t["args"]):
            op = t["args"][lab[1] - 1]
            pl = op.get("c") or op.get("m")
            if pl is not None and lab[2]:
                # field-precise: read the argument's own field structure first
                fine = ctx.prov.read_place(caller, {"l": pl["l"], "p": pl["p"] + [{"f": f} for f in lab[2]]})
                if fine:
                    out |= set(fine)
                    continue
            if pl is not None:
                base = ctx.prov.read_place(caller, pl)
            else:
                base = ctx.prov.read_operand(caller, op)
            out |= {(b[0], b[1], (b[2] + lab[2])[:8]) for b in base}
        else:
            out.add(lab)
    return out


def violation_sites(ctx, name):
    """[(body_with_Violation::new, call term, caller body or None, caller call term or None)]"""
    res = []
    vb = ctx.validate_body(name)
    if vb is None:
        return res
    region = ctx.validator_bodies(name)
    ids = {b.id for b in region}
    for b in region:
        if not (b.id.startswith("blockwatch::validators::") or b.id.startswith("<blockwatch::validators::")):
            continue
        for bi, t in b.calls():
            if callee_matches(t, r"^blockwatch::validators::Violation::new$"):
                # who calls b? (one level: validate or a nested closure / async block of it)
                callers = []
                for c in region:
                    # plain functions are read in their normalised view (helpers inlined, pipelines
                    # and combinators expanded): provenance is then field- and path-precise
                    if c.promoted is None and c.kind in ("Fn", "AssocFn") and not c.coroutine and c.id != b.id:
                        c = ctx.inl(c, skip=ctx.domain_api, tag="domain", sugar=True)
                    for bj, tc in c.calls():
                        if (tc.get("res") or tc.get("def")) == b.id and bj in cfg_of(c).reachable:
                            callers.append((c, tc))
                res.append((b, t, callers))
    return res


def range_labels(ctx, b, t, callers):
    """{('start'|'end', 'line'|'character'): labels at the level of the validator body}."""
    out = {}
    pl = t["args"][0].get("m") or t["args"][0].get("c")
    for pos in ("start", "end"):
        for comp in ("line", "character"):
            labs = ctx.prov.read_place(b, {"l": pl["l"], "p": pl["p"] + [{"f": pos}, {"f": comp}]}) if pl else set()
            if callers and any(l[0] == "param" for l in labs):
                merged = set()
                for c, tc in callers:
                    merged |= resolve_to_caller(ctx, b, labs, c, tc)
                labs = merged
            out[(pos, comp)] = labs
    return out


def check_line_base(ctx, out, name, rule, index_by_model=False):
    """The line a line-level validator reports = the content's start line + the enumerate() index of
    the offending content line (shared with C06/C07/C08: `designates the first … line`)."""
    n = 0
    vb = ctx.validate_body(name, inline=True, sugar=True)
    sites = violation_sites(ctx, name)
    if vb is None or not sites:
        out.viol(rule, "%s|%s|anchor" % (rule, name), "-", "no Violation::new site found for validator %s" % name)
        out.inst(rule, 0, 2)
        return
    loops = linelevel.line_loops(ctx, vb) if not index_by_model else []
    if index_by_model:
        n += 1      # which content line index is reported is decided by the property's small-model rule
    if len(loops) == 1:
        okc, core = enumerate_chain_ok(ctx, vb, vb.blocks[loops[0][2]]["term"])
        if okc:
            n += 1
        else:
            out.viol(rule, "%s|%s|index" % (rule, name), ctx.where(vb),
                     "the line loop of %s iterates %s; the index added to the content's start line must enumerate every content line (enumerate() directly over lines())" % (name, " <- ".join(core[:5])))
    for b, t, callers in sites:
        rl = range_labels(ctx, b, t, callers)
        where = ctx.where(b, t["span"])
        for pos in ("start", "end"):
            ll = rl[(pos, "line")]
            if P.has_path(ll, "start_tag_position_range"):
                out.viol(rule, "%s|%s|%s|tag-line" % (rule, name, pos), where,
                         "the reported %s line of a %s violation derives from the start tag's position (%s): the tag's line is the wrong base as soon as the comment continues after the tag"
                         % (pos, name, util.origins_text(P.with_field(ll, "start_tag_position_range"), 3)))
            elif P.has_path(ll, "content_position_range", "start", "line") and (index_by_model or P.has_call(ll, r"<impl str>::lines$")):
                n += 1
            else:
                out.viol(rule, "%s|%s|%s|base" % (rule, name, pos), where,
                         "the reported %s line of a %s violation derives from [%s]; expected the content's start line plus the enumerate index of the line" % (pos, name, util.origins_text(ll, 6)))
            bad = sorted({l[1] for l in ll if l[0] == "call" and re.search(r"::(filter|skip|take|rev|count|position|len)$", l[1])}) if not index_by_model else []
            if bad:
                out.viol(rule, "%s|%s|%s|index-through" % (rule, name, pos), where,
                         "the reported line passes through %s: the index no longer identifies the content line" % bad)
    out.inst(rule, n, 2, note="reported line = content start line + enumerate index (start and end of each Violation::new site)")


def model_decides(ctx, name):
    """True if the validator's small-model rule (C07.model / C08.model) follows today's code: it then
    decides which content line index a violation designates, whatever way the index is produced."""
    cache = ctx.__dict__.setdefault("_model_decides", {})
    if name in cache:
        return cache[name]
    res = False
    try:
        from engine.core import Out
        if name == "keep-unique":
            from rules.C07 import check_model
            res = check_model(ctx, Out("C10")) is True
        elif name == "line-pattern":
            from rules.C08 import check_model
            res = check_model(ctx, Out("C10")) is True
        elif name == "keep-sorted":
            from rules.C06 import check_line_index, work_view
            wv = work_view(ctx)
            res = wv is not None and check_line_index(ctx, Out("C10"), wv) is True
    except Exception:       # noqa: BLE001
        res = False
    cache[name] = res
    return res


def run(ctx, out, tier):
    # ------------------------------------------------------------------ line-level validators
    n_line = n_col0 = n_cols = n_idx = 0
    samples = []
    for name in LINE_LEVEL:
        vb = ctx.validate_body(name, inline=True, sugar=True)
        sites = violation_sites(ctx, name)
        if vb is None or not sites:
            out.viol("C10.line", "C10.line|%s|anchor" % name, "-", "no Violation::new site found for validator %s" % name)
            continue
        # index = enumerate over all content lines (or decided by the validator's small-model rule)
        by_model = model_decides(ctx, name)
        loops = linelevel.line_loops(ctx, vb) if not by_model else []
        if by_model:
            n_idx += 1
        if len(loops) == 1:
            okc, core = enumerate_chain_ok(ctx, vb, vb.blocks[loops[0][2]]["term"])
            if okc:
                n_idx += 1
            else:
                out.viol("C10.index", "C10.index|%s" % name, ctx.where(vb),
                         "the line loop of %s iterates %s; the index added to the content's start line must enumerate every content line (enumerate() directly over lines())" % (name, " <- ".join(core[:5])))
        for b, t, callers in sites:
            rl = range_labels(ctx, b, t, callers)
            where = ctx.where(b, t["span"])
            for pos in ("start", "end"):
                ll = rl[(pos, "line")]
                if P.has_path(ll, "start_tag_position_range"):
                    out.viol("C10.line", "C10.line|%s|%s|tag-line" % (name, pos), where,
                             "the reported %s line of a %s violation derives from the start tag's position (%s): the tag's line is the wrong base as soon as the comment continues after the tag"
                             % (pos, name, util.origins_text(P.with_field(ll, "start_tag_position_range"), 3)))
                elif P.has_path(ll, "content_position_range", "start", "line") and (by_model or P.has_call(ll, r"<impl str>::lines$")):
                    n_line += 1
                else:
                    out.viol("C10.line", "C10.line|%s|%s|base" % (name, pos), where,
                             "the reported %s line of a %s violation derives from [%s]; expected the content's start line plus the enumerate index of the line" % (pos, name, util.origins_text(ll, 6)))
                bad = sorted({l[1] for l in ll if l[0] == "call" and re.search(r"::(filter|skip|take|rev|count|position|len)$", l[1])}) if not by_model else []
                if bad:
                    out.viol("C10.line", "C10.line|%s|%s|index-through" % (name, pos), where,
                             "the reported line passes through %s: the index no longer identifies the content line" % bad)
                cl = rl[(pos, "character")]
                if P.has_path(cl, "content_position_range", "start", "character"):
                    n_col0 += 1
                else:
                    out.viol("C10.col0", "C10.col0|%s|%s" % (name, pos), where,
                             "the reported %s column of a %s violation does not include the content's start column: a key on the content's first line (content beginning on the tag's own line) is reported too far left" % (pos, name))
            sc = rl[("start", "character")]
            ec = rl[("end", "character")]
            # start column: pointer offset of the trimmed text, or Match::range().start
            ptr = P.has_call(sc, r"<impl str>::as_ptr$")
            rstart = any(l[0] == "call" and re.search(r"regex::Match(::<'h>)?::range$", l[1]) and "start" in l[2] for l in sc) or P.has_call(sc, r"regex::Match(::<'h>)?::start$")
            rend_in_start = any(l[0] == "call" and re.search(r"regex::Match(::<'h>)?::range$", l[1]) and "end" in l[2] for l in sc) or P.has_call(sc, r"regex::Match(::<'h>)?::end$")
            len_in_start = P.has_call(sc, r"<impl str>::len$")
            uses_regex = name != "line-pattern"
            # the left offset as a length difference is right exactly when only the LEFT side was
            # trimmed: `line.len() - line.trim_start().len()`
            left_only = len_in_start and P.has_call(sc, r"<impl str>::trim_start$") and not P.has_call(sc, r"<impl str>::(trim|trim_end|trim_ascii|trim_ascii_end|trim_matches|trim_end_matches)$")
            # ... or the byte index of the first non-whitespace character (`char_indices().find(..)`: byte offsets;
            # a position counted over `chars()` would be a char count - SH.units)
            first_nonws = P.has_call(sc, r"<impl str>::char_indices$") and not P.has_call(sc, r"<impl str>::chars$") and not len_in_start
            if ((ptr or left_only or first_nonws) and (rstart or not uses_regex)) and not rend_in_start and (not len_in_start or left_only):
                n_cols += 1
            else:
                what = []
                if not ptr:
                    what.append("no pointer offset of the trimmed text (as_ptr difference)")
                if uses_regex and not rstart:
                    what.append("no Match::range().start")
                if rend_in_start:
                    what.append("derives from Match::range().end")
                if len_in_start:
                    what.append("derives from a string length (a length difference is only the left offset when nothing was trimmed on the right)")
                out.viol("C10.cols", "C10.cols|%s|start" % name, where, "start column of a %s violation: %s" % (name, "; ".join(what)))
            lenr = P.has_call(ec, r"<impl str>::len$")
            rend = any(l[0] == "call" and re.search(r"regex::Match(::<'h>)?::range$", l[1]) and "end" in l[2] for l in ec) or P.has_call(ec, r"regex::Match(::<'h>)?::end$")
            # (`m.start() + m.as_str().len()` is `m.end()`)
            rstart_e = any(l[0] == "call" and re.search(r"regex::Match(::<'h>)?::range$", l[1]) and "start" in l[2] for l in ec) or P.has_call(ec, r"regex::Match(::<'h>)?::start$")
            rend = rend or (rstart_e and lenr and P.has_call(ec, r"regex::Match(::<'h>)?::as_str$"))
            if lenr and (rend or not uses_regex):
                n_cols += 1
            else:
                out.viol("C10.cols", "C10.cols|%s|end" % name, where,
                         "end column of a %s violation derives from [%s]; expected start + len(trimmed) - 1, or Match::range().end" % (name, util.origins_text(ec, 6)))
            samples.append("%s: line<-content.start.line+enumerate idx; cols<-content.start.character + ptr-offset/Match::range" % name)
    out.inst("C10.line", n_line, 6, samples[:3], note="start and end line of the 3 line-level validators")
    out.inst("C10.col0", n_col0, 6)
    out.inst("C10.cols", n_cols, 6)
    out.inst("C10.index", n_idx, 3)

    # ------------------------------------------------------------------ tag-level validators
    n_tag = 0
    tsamples = []
    for name in TAG_LEVEL:
        sites = violation_sites(ctx, name)
        if not sites:
            out.viol("C10.tag", "C10.tag|%s|anchor" % name, "-", "no Violation::new site found for validator %s" % name)
            continue
        for b, t, callers in sites:
            rl = range_labels(ctx, b, t, callers)
            where = ctx.where(b, t["span"])
            for pos in ("start", "end"):
                for comp in ("line", "character"):
                    labs = rl[(pos, comp)]
                    other = "end" if pos == "start" else "start"
                    good = P.has_path(labs, "start_tag_position_range", pos, comp) and not P.has_path(labs, "start_tag_position_range", other)
                    foreign = P.has_path(labs, "content_position_range") or P.has_path(labs, "content_bytes_range")
                    if good and not foreign:
                        n_tag += 1
                    else:
                        out.viol("C10.tag", "C10.tag|%s|%s.%s" % (name, pos, comp), where,
                                 "the %s.%s of a %s violation derives from [%s]; expected start_tag_position_range.%s.%s of the reported block" % (pos, comp, name, util.origins_text(labs, 5), pos, comp))
            tsamples.append("%s: range<-(start_tag.start, start_tag.end)" % name)
    out.inst("C10.tag", n_tag, 16, tsamples[:4], note="4 validators x {start,end} x {line,character}")

    check_tagpos(ctx, out, "C10.tagpos")
    from rules.C03 import check_rebase
    check_rebase(ctx, out, rule="C10.rebase")
    check_col0_guard(ctx, out)
    shared.sh_units(ctx, out)
    # a rule only runs if the lazy detection loop creates its validator: every pending detector is asked
    # about every block (shared with C14)
    from rules.C14 import check_once as _detect_once, detect_fn as _detect_fn
    _dv = _detect_fn(ctx)
    if _dv is not None:
        _detect_once(ctx, out, _dv, rule="C10.detect")
    else:
        out.inst("C10.detect", 0, 4)
    from rules.C03 import check_sametext
    check_sametext(ctx, out, rule="C10.sametext")
    check_tagoffset(ctx, out)
    return meta()


def tagpos_model(ctx, out, rule):
    """The position of a start tag inside its comment on a small model (engine.casewalk + strmodel): the
    constructor of `BlockStart` is walked, helpers inlined, on concrete comment texts - a tag on the comment's
    first line, a tag spanning two continuation lines, multi-byte text before and inside the tag on the first and on a
    continuation line, CRLF line breaks - and the reported range is compared with the documented one: from the tag's `<` to its
    `>`; line = comment's start line + line breaks before the offset; column = comment's start column + offset
    on the first line, else the byte distance from the last line break before the offset.
    True / False if decided, None if the model cannot follow the code."""
    from engine import casewalk as CW
    from engine import listmodel as LM
    from engine import strmodel as SM
    std = CW.std_hooks()
    lm = LM.hooks()
    sm = SM.hooks()
    cands = [b for b in ctx.reachable_bodies() if b.promoted is None and b.kind in ("Fn", "AssocFn") and b.local_ty(0) == "blockwatch::block_parser::BlockStart"
             and any("Comment" in b.local_ty(i) for i in range(1, b.argc + 1)) and any(b.local_ty(i) == "std::ops::Range<usize>" for i in range(1, b.argc + 1))]
    if len(cands) != 1:
        return None
    b0 = cands[0]
    v = ctx.inl(b0, skip=lambda cb: False, tag="all-sugar", sugar=True)
    pc = [i for i in range(1, v.argc + 1) if "Comment" in v.local_ty(i)][0]
    pr = [i for i in range(1, v.argc + 1) if v.local_ty(i) == "std::ops::Range<usize>"][0]
    L, C = 3, 5

    def pos(l, c):
        return CW.adt("blockwatch::Position", "Position", 0, [("line", CW.const(l)), ("character", CW.const(c))])

    def spec(text, off):
        before = text.encode()[:off]
        k = before.rfind(b"\n")
        if k < 0:
            return (L, C + off)
        return (L + before.count(b"\n"), off - k)
    cases = []
    for text in ("x <block a>", "ab\n  <block\n a> z", "\u00e9 <block>", "a\n\u00e9<block>", "/*\n<block k=v>\n*/", "x <block n=\"\u00e9\">", "a\n <block\n n=\"\u00e9\u00e9\"> y",
                 "ab\r\n  <block k>", "a\r\nbc\r\n <block\r\n k=v> z"):
        raw = text.encode()
        a = raw.index(b"<")
        b_ = raw.index(b">") + 1
        cases.append((text, a, b_))
    n = 0
    bad = []
    for text, a, b_ in cases:
        results = set()

        def hook(w, bb, t, argv, env):
            for hk in (sm, lm, std):
                r_ = hk(w, bb, t, argv, env)
                if r_ is not None:
                    return r_
            if os.environ.get("BW_DEBUG_MODEL"):
                print("tagpos model: unknown call", callee_name(t), [str(x)[:50] for x in argv])
            return None
        w = CW.Walk(ctx, v, [hook], max_states=6000)

        def on_visit(bb, env):
            tm = v.blocks[bb]["term"]
            if tm and tm["k"] == "return":
                r0 = w.deref_val(env, env.get(0, CW.TOP))
                rng = w.deref_val(env, w.field(r0, "start_tag_position_range")) if r0[0] == "adt" else CW.TOP
                got = []
                for nm_ in ("start", "end"):
                    p_ = w.deref_val(env, w.field(rng, nm_)) if rng[0] == "adt" else CW.TOP
                    l_ = w.deref_val(env, w.field(p_, "line")) if p_[0] == "adt" else CW.TOP
                    c_ = w.deref_val(env, w.field(p_, "character")) if p_[0] == "adt" else CW.TOP
                    got.append((l_[1], c_[1]) if CW.is_const(l_) and CW.is_const(c_) else None)
                results.add(tuple(got))
        w.on_visit = on_visit
        end_l, end_c = spec(text, len(text.encode()))
        comment = CW.adt("blockwatch::language_parsers::Comment", "Comment", 0, [
            ("position_range", CW.adt("std::ops::Range", "Range", 0, [("start", pos(L, C)), ("end", pos(end_l, end_c))])),
            ("source_range", CW.adt("std::ops::Range", "Range", 0, [("start", CW.const(100)), ("end", CW.const(100 + len(text.encode())))])),
            ("comment_text", CW.const(text))])
        env = {pc: comment, pr: CW.adt("std::ops::Range", "Range", 0, [("start", CW.const(a)), ("end", CW.const(b_))])}
        try:
            w.explore(0, env)
        except CW.Limit:
            return None
        if len(results) != 1 or any(x is None for x in next(iter(results))):
            return None
        got = next(iter(results))
        want = (spec(text, a), spec(text, b_ - 1))
        if got == want:
            n += 1
        else:
            bad.append((text, a, b_, got, want))
    for text, a, b_, got, want in bad[:2]:
        out.viol(rule, "%s|model|%s" % (rule, "first-line" if "\n" not in text[:a] else "continuation"), ctx.where(b0),
                 "start tag at bytes %d..%d of the comment text %r (comment at %d:%d): reported from %d:%d to %d:%d; its `<` is at %d:%d and its `>` at %d:%d (byte columns; a continuation line's column counts from the last line break before the tag)" % (
                     a, b_, text, L, C, got[0][0], got[0][1], got[1][0], got[1][1], want[0][0], want[0][1], want[1][0], want[1][1]))
    out.inst(rule, n, 3, ["%d comment texts: first line / continuation lines / multi-byte text before the tag" % len(cases)], exhaustive=True)
    return not bad


def check_tagpos(ctx, out, rule):
    """A tag's position inside its comment: line = comment start line + lines before the tag; column
    on a continuation line = offset - position of the LAST newline before it."""
    tr = out.trial()
    try:
        verdict = tagpos_model(ctx, tr, rule)
    except Exception as e:      # noqa: BLE001
        ctx.view_fallbacks.append("%s: small-model analysis failed (%s: %s)" % (rule, type(e).__name__, e))
        verdict = None
    if verdict is not None:
        out.adopt(tr)
        return
    n_tp = 0
    f = ctx.facts
    cands = [b for b in f.bodies.values() if b.promoted is None and b.local_ty(0) == "blockwatch::Position"
             and any("Comment" in b.local_ty(i) for i in range(1, b.argc + 1)) and b.id in ctx.reach]
    for b in cands:
        col = ctx.prov.read_local(b, 0, ("character",))
        line = ctx.prov.read_local(b, 0, ("line",))
        where = ctx.where(b)
        if P.has_call(col, r"<impl str>::rfind$") and not any(l[0] == "call" and re.search(r"<impl str>::(find|split_once|split|splitn|lines)$", l[1]) for l in col):
            n_tp += 1
        else:
            out.viol(rule, "%s|column" % rule, where,
                     "the column of a tag on a continuation line of its comment derives from [%s]; expected the offset minus the position of the LAST newline before it (`rfind('\\n')`)" % util.origins_text({l for l in col if l[0] == "call"}, 6))
        if P.has_path(col, "position_range", "start", "character") and P.has_path(line, "position_range", "start", "line"):
            n_tp += 1
        else:
            out.viol(rule, "%s|base" % rule, where, "the tag position is not based on the comment's own start position")
        if P.has_call(line, r"<impl str>::lines$|Iterator>?::count$") or P.has_call(line, r"matches|bytes"):
            n_tp += 1
        else:
            out.viol(rule, "%s|line" % rule, where, "the tag's line does not derive from counting the lines of the comment text before the tag")
    out.inst(rule, n_tp, 3, [b.id for b in cands])


def check_col0_guard(ctx, out, rule="C10.col0guard"):
    """The content's start column is added on content line 0 only, and the test is on the content
    line index itself (not on a line number of the tag): every read of `content_position_range.start
    .character` in a (line, column) helper taking a line index is control-dependent on `index == 0`
    being true, and on nothing else."""
    n = 0
    cands = []
    for b in ctx.reachable_bodies():
        if b.promoted is not None or not b.local_ty(0).startswith("(usize, usize)"):
            continue
        if not any(b.local_ty(i) == "usize" for i in range(1, b.argc + 1)):
            continue
        E = ctx.expr(b)
        for bi, j, s in b.assigns():
            rv = s["rv"]
            p = None
            if rv["k"] == "use":
                p = util.op_place(rv["op"])
            if p is None:
                continue
            fs = [x["f"] for x in p["p"] if isinstance(x, dict) and "f" in x]
            if fs[-1:] != ["character"]:
                continue
            src = render(E.place(p), 300) if hasattr(E, "place") else ""
            labs = ctx.prov.read_operand(b, rv["op"])
            if not (P.has_path(labs, "content_position_range", "start", "character") or "content_position_range" in src):
                continue
            cands.append(b.id)
            gs = util.guards(ctx, b, bi)
            good = False
            for br, vals, e in gs:
                txt = render(e, 300)
                idx = e[0] == "bin" and e[1] in ("Eq", "Ne") and {x[0] for x in e[2:4]} == {"param", "const"} and ("const", 0) in e[2:4] \
                    and all(b.local_ty(x[1]) == "usize" for x in e[2:4] if x[0] == "param")
                if idx and ((e[1] == "Eq" and 0 not in vals) or (e[1] == "Ne" and vals == {0})):
                    good = True
                else:
                    out.viol(rule, "%s|extra-test" % rule, ctx.where(b, s["span"]),
                             "the content's start column is applied under `%s` (arm %s): it is content line index 0, and only that line, that starts at that column, wherever the start tag's comment ends" % (txt[:160], sorted(map(str, vals))))
            if good:
                n += 1
            else:
                out.viol(rule, "%s|guard" % rule, ctx.where(b, s["span"]), "the content's start column is not applied exactly when the content line index is 0")
    out.inst(rule, n, 1, cands)


def check_tagoffset(ctx, out, rule="C10.tagoffset"):
    """The tag scanner's offset arithmetic, decided symbolically (engine/affine.py, A16): the reported start of a
    tag is the offset of the `<` the tag parser succeeded on, the reported end and the new cursor are the
    offset of the end of what it consumed - as identities of linear forms, under the affine relations between
    the scanner's carried slice and its carried integers, which are themselves checked to be preserved by
    every path around the scan loop."""
    from engine import affine
    from engine.core import on_any_view
    cands = []
    for b in ctx.reachable_bodies():
        if b.promoted is None and "tag_parser" in b.id and b.kind in ("Fn", "AssocFn") and b.local_ty(0).startswith("std::result::Result<std::option::Option<blockwatch::tag_parser::BlockTag"):
            cands.append(b)
    if len(cands) != 1:
        out.inst(rule, 0, 3, note="tag scanner (fn .. -> Result<Option<BlockTag>>) not found")
        return
    b0 = cands[0]

    def on(v, o):
        rep = affine.scanner_report(ctx, v)
        good = [m for ok, m in rep if ok is True]
        for i, m in enumerate(sorted({m for ok, m in rep if ok is False})):
            o.viol(rule, "%s|%s|%d" % (rule, "invariant" if "loop entry" in m else ("cursor" if "cursor" in m else "position"), i), ctx.where(b0), m)
        und = sorted({m for ok, m in rep if ok is None})
        if und and not any(ok is False for ok, m in rep):
            o.viol(rule, "%s|undecided" % rule, ctx.where(b0), "the tag scanner's offset arithmetic could not be followed (%s): the positions it reports are undecided" % und[0])
        o.inst(rule, len(good), 3, good[:4], note="tag start / end / cursor identities and loop-invariant preservation (linear forms)")
    on_any_view(out, [b0, ctx.inl(b0, tag="all"), ctx.inl(b0, skip=ctx.domain_api, tag="domain", sugar=True)], on)


def meta():
    return {
        "explanation": "Decides, for every Violation::new site of the seven validators, where the four numbers of the reported range come from (origin-set dataflow through create_violation, Position::new, ViolationRange::new, content_line_position): content start line + enumerate index and content start column + pointer offset / Match::range for the line-level rules; start_tag_position_range.{start,end} for the tag-level rules; last-newline based column for tags inside multi-line comments. It decides these provenance facts, not the arithmetic (+1/-1) applied to them.",
        "undecided": "integer arithmetic on offsets; that tree-sitter reports correct node positions.",
        "assumptions": [],
    }
