"""C02 — Diff mode validates exactly the touched blocks, with full-scan verdicts.

Decided: the block filter's complete truth table (selected iff filter==All or content touched or
start tag touched) and that the two stored flags are the tested values; All at the walk site and
ModifiedOnly at the diff-only site; a walked file gets its own line changes, and the diff entry is
consumed only after the allow/ignore decision; the diff flags are read nowhere but in the affects
rule, the list report and the filter (so every other rule's verdict is a function of block and file
text only) and no validator carries state between blocks; the inclusive / half-open intersection
siblings differ in exactly one comparison; ordered searches are monotone and ranges are in bytes
(shared with C01); should_scan_files and the default `**` glob follow the documented table.
Not decided: the 0-/1-based and inclusive/exclusive arithmetic at the boundaries.
"""
import itertools
import os
import re

from engine.cfg import cfg_of
from engine.expr import render, walk, find_calls
from engine.facts import callee_name, callee_matches
from engine import prov as P
from engine import ordsearch as O
from rules import shared, util
from rules.C12 import file_parser
from rules.C01 import check_coord, check_search, check_units, check_queue


def check_filter_loop(ctx, out, fp, rule):
    """The per-block selection decided on the normalised view of the file parser, where
    `blocks.into_iter().filter_map(|b| ..).collect()` and `for b in blocks { if .. { continue } v.push(..) }`
    are the same loop: enumerate every path of one iteration from the item to the push of a
    BlockWithContext (selected) or back to the loop head (dropped), predicates uninterpreted, and compare
    with the specification on all 8 valuations (filter mode x content touched x start tag touched).
    Returns True if decided (violations reported or instances counted), None if this shape is absent."""
    from engine import tables
    fpv = ctx.inl(fp, skip=ctx.domain_api, tag="domain", sugar=True)
    cfg = cfg_of(fpv)
    pushes = [(bi, t) for bi, t in fpv.calls() if callee_matches(t, r"Vec::<T, A>::push$") and "blockwatch::blocks::BlockWithContext" in (t.get("arg_tys") or [""])[0] and bi in cfg.reachable]
    if len(pushes) != 1:
        return None
    pbi, pt = pushes[0]
    h = cfg.innermost_loop(pbi)
    if h is None:
        return None
    nexts = [(bi, t) for bi, t in fpv.calls() if bi in cfg.loops()[h] and cfg.innermost_loop(bi) == h and callee_matches(t, r"Iterator>?::next$")]
    if len(nexts) != 1 or not cfg.succ[nexts[0][0]]:
        return None
    nb = nexts[0][0]
    some = util.switch_arms(fpv, cfg.succ[nb][0]).get(1)
    enum = ctx.facts.adts.get("blockwatch::blocks::BlocksFilter")
    if some is None or enum is None:
        return None
    vmap = {v["name"]: v["vi"] for v in enum["variants"]}
    # loop-carried state: nothing assigned in the iteration may be read by the next one
    region = util.iter_region(fpv, nb) | cfg.loops()[h]
    for x in sorted(region):
        for s in fpv.blocks[x]["stmts"]:
            if s["k"] == "assign" and not s["lhs"]["p"]:
                l = s["lhs"]["l"]
                loc = fpv.locals[l]
                if loc.get("user") and loc.get("name") and not loc.get("as_upvar") and any(d[1] not in region for d in fpv.defs().get(l, [])) \
                        and not re.search(r"::Iter<|::IntoIter<|^\(\)$", loc["ty"]) and "BlockWithContext" not in loc["ty"] and s["rv"]["k"] not in ("agg",) :
                    if re.search(r"LineChange", loc["ty"]):
                        out.viol(rule, rule + "|mutable-capture|%s" % loc["name"], ctx.where(fp, s["span"]),
                                 "`%s` is declared outside the per-block iteration and re-assigned inside it: whether a block is selected then depends on the blocks visited before it (e.g. a nested block no longer sees a change its enclosing block has consumed)" % loc["name"])
    try:
        rows, complete = tables.decision_table(ctx.facts, fpv, start=some, stop=lambda x: x == pbi or x == h)
    except ValueError as e:
        out.viol(rule, rule + "|unanalysable", ctx.where(fp), "the per-block selection contains a loop (%s); its truth table cannot be enumerated" % e)
        return True

    def holds(pred, val, fname, c, t):
        txt = pred
        neg = False
        while txt.startswith("Not(") and txt.endswith(")"):
            txt = txt[4:-1]
            neg = not neg
        mk = re.match(r"^discr\((?:[\w<>, ]+::)*(Some|None|Ok|Err)\{", txt)
        if mk:
            # the value is an aggregate built on this very path: its variant is known
            vi = {"None": 0, "Some": 1, "Ok": 0, "Err": 1}[mk.group(1)]
            m = re.match(r"otherwise\(not ([\d,]+)\)", val)
            if m:
                return str(vi) not in m.group(1).split(",")
            return str(vi) in val.split(",")
        if re.match(r"^(\w+::)*content_intersects_with_any\(", txt):
            truth = c
        elif re.match(r"^(\w+::)*start_tag_intersects_with_any\(", txt):
            truth = t
        elif txt.startswith("discr(") and ("BlocksFilter" in txt or "blocks_filter" in txt or "filter" in txt.lower()):
            vi = vmap[fname]
            m = re.match(r"otherwise\(not ([\d,]+)\)", val)
            if m:
                return str(vi) not in m.group(1).split(",")
            return str(vi) in val.split(",")
        else:
            return None
        truth = (not truth) if neg else truth
        want = {"true": True, "false": False, "1": True, "0": False}.get(val)
        if want is None:
            m = re.match(r"otherwise\(not ([\d,]+)\)", val)
            if m:
                return (1 if truth else 0) not in [int(x) for x in m.group(1).split(",")]
            return None
        return truth == want

    n = 0
    shown = []
    for fname, c, t in itertools.product(vmap, (True, False), (True, False)):
        ends = set()
        for r in rows:
            ok = True
            for pred, val in r["preds"]:
                hv = holds(pred, val, fname, c, t)
                if hv is None:
                    # a test that is neither the mode nor one of the two intersection results: Try / Option
                    # plumbing of the iteration itself is neutral, anything else is not analysable
                    if re.search(r"Try>::branch|Iterator>?::next|discr\(_\d+\)$", pred):
                        continue
                    out.viol(rule, rule + "|unknown-input", ctx.where(fp), "the per-block selection depends on `%s`, which is neither the filter mode nor one of the two intersection tests" % pred[:120])
                    return True
                if not hv:
                    ok = False
                    break
            if ok:
                ends.add(r["path"][-1] == pbi)
        selected = True in ends
        want = (fname == "All") or c or t
        shown.append("%s c=%s t=%s -> %s" % (fname, c, t, selected))
        if len(ends) != 1:
            out.viol(rule, rule + "|unanalysable", ctx.where(fp), "with filter=%s, content touched=%s, start tag touched=%s the paths of the selection do not agree (%s)" % (fname, c, t, sorted(ends)))
            return True
        if selected != want:
            out.viol(rule, rule + "|row|%s|c=%s|t=%s" % (fname, c, t), ctx.where(fp),
                     "with filter=%s, content touched=%s, start tag touched=%s the block is %s; expected %s" % (fname, c, t, "selected" if selected else "dropped", "selected" if want else "dropped"))
        else:
            n += 1
    # the stored flags are the two test results; the tests see the file's complete change list
    arg = pt["args"][1]
    pl = util.op_place(arg)
    for fld, rx in (("is_content_modified", r"content_intersects_with_any$"), ("_is_start_tag_modified", r"start_tag_intersects_with_any$")):
        labs = ctx.prov.read_place(fpv, {"l": pl["l"], "p": pl["p"] + [{"f": fld}]}) if pl else set()
        if not P.has_call(labs, rx) or any(l[0] == "call" and re.search(r"(content|start_tag)_intersects_with_any$", l[1]) and not re.search(rx, l[1]) for l in labs):
            out.viol(rule, rule + "|flags|%s" % fld, ctx.where(fp, pt["span"]), "the stored flag `%s` does not derive from its own intersection test (origins: %s)" % (fld, util.origins_text(labs, 4)))
    for bi, t2 in fpv.calls():
        if callee_matches(t2, r"(content|start_tag)_intersects_with_any$") and bi in region:
            labs = ctx.prov.read_operand(fpv, t2["args"][1])
            ps = {l[1] for l in labs if l[0] == "param"}
            extra = sorted({l[1].split("::")[-1] for l in labs if l[0] == "call" and re.search(r"Index|split|partition_point|binary_search|iter|skip|take|get", l[1])})
            if ps != {2} or extra:
                out.viol(rule, rule + "|changes-arg", ctx.where(fp, t2["span"]),
                         "the intersection test is not made against the file's complete line-change list (parameters %s, through %s): every block must be tested against all changes of the file" % (sorted(ps), extra))
    out.inst(rule, n, 8, shown, exhaustive=True, note="2 filter modes x 2 x 2 valuations; all paths of one iteration of the block loop in the normalised view")
    return True


def check_filter_model(ctx, out, fp, rule):
    """The per-block selection on a small model (engine.casewalk + engine.listmodel): the file parser's
    normalised body is walked with the parsed blocks = [B1, B2], for both filter modes and every
    combination of (content touched, start tag touched) per block (32 cases). Expected: the returned
    FileBlocks holds exactly the blocks with `All or content touched or tag touched`, in order, each
    with the two flags it was tested with; every intersection test is asked with the file's complete
    change list (the selection of one block cannot depend on the blocks before it).
    True/False if decided, None if the model could not follow the code."""
    from engine import casewalk as CW
    from engine import listmodel as LM
    v = ctx.inl(fp, skip=ctx.domain_api, tag="domain", sugar=True)
    enum = ctx.facts.adts.get("blockwatch::blocks::BlocksFilter")
    if enum is None:
        return None
    pf = [i for i in range(1, v.argc + 1) if v.local_ty(i) == "blockwatch::blocks::BlocksFilter"]
    pc = [i for i in range(1, v.argc + 1) if re.match(r"^&\[blockwatch::diff_parser::LineChange\]$|^&std::vec::Vec<blockwatch::diff_parser::LineChange>$", v.local_ty(i))]
    if len(pf) != 1 or len(pc) != 1:
        return None
    std = CW.std_hooks()
    lm = LM.hooks()
    n = 0
    total = 0
    for var in enum["variants"]:
        for case in itertools.product((False, True), repeat=4):
            total += 1
            flags = {"B1": (case[0], case[1]), "B2": (case[2], case[3])}     # (content, tag)
            problems = []
            results = []

            def hook(w, bb, t, argv, env):
                nm = callee_name(t)
                a0 = w.deref_val(env, argv[0]) if argv else CW.TOP
                if re.search(r"block_parser::BlocksParser::parse$", nm):
                    return CW.adt("std::result::Result", "Ok", 0, [("0", LM.lst([CW.sym("B1"), CW.sym("B2")]))])
                if re.search(r"FileSystem::read_to_string$", nm):
                    return CW.adt("std::result::Result", "Ok", 0, [("0", CW.sym("TEXT"))])
                m = re.search(r"blocks::Block::(content|start_tag)_intersects_with_any$", nm)
                if m and a0[0] == "sym" and a0[1] in flags:
                    ch = w.deref_val(env, argv[1]) if len(argv) > 1 else CW.TOP
                    if ch != CW.sym("CHANGES"):
                        problems.append("%s is tested against %s instead of the file's complete change list" % (a0[1], "a value derived inside the loop" if ch == CW.TOP else str(ch)))
                    return CW.const(1 if flags[a0[1]][0 if m.group(1) == "content" else 1] else 0)
                if re.search(r"anyhow::Context.*::(context|with_context)$|anyhow::context::<impl anyhow::Context", nm) and a0[0] == "adt":
                    return a0 if a0[2] == "Ok" else None
                r = lm(w, bb, t, argv, env)
                if r is not None:
                    return r
                return std(w, bb, t, argv, env)
            w = CW.Walk(ctx, v, [hook], max_states=40000)

            def on_visit(bb, env):
                tm = v.blocks[bb]["term"]
                if tm and tm["k"] == "return":
                    r0 = env.get(0, CW.TOP)
                    if r0[0] == "adt" and r0[2] == "Ok":
                        o = w.field(r0, "0")
                        if o[0] == "adt" and o[2] == "Some":
                            fb = w.field(o, "0")
                            results.append(w.field(fb, "blocks_with_context") if fb[0] == "adt" else CW.TOP)
                        elif o[0] == "adt" and o[2] == "None":
                            results.append(("none",))
                        else:
                            results.append(CW.TOP)
            w.on_visit = on_visit
            env = {pf[0]: ("adt", "blockwatch::blocks::BlocksFilter", var["name"], var["vi"], ()), pc[0]: CW.sym("CHANGES")}
            try:
                w.explore(0, env)
            except CW.Limit:
                return None
            lists = [r for r in results if r != ("none",)]
            if not lists or any(r[0] != "list" for r in lists):
                return None
            want = [(b, flags[b][1], flags[b][0]) for b in ("B1", "B2") if var["name"] == "All" or flags[b][0] or flags[b][1]]
            desc = "filter=%s, B1(content=%s, tag=%s), B2(content=%s, tag=%s)" % ((var["name"],) + tuple(case))
            bad = None
            for r in lists:
                got = []
                for x in r[1]:
                    if x[0] != "adt":
                        return None
                    fl = dict(x[4])
                    blk = fl.get("block", CW.TOP)
                    tg = fl.get("_is_start_tag_modified", fl.get("is_start_tag_modified", CW.TOP))
                    cn = fl.get("is_content_modified", CW.TOP)
                    if blk[0] != "sym" or not CW.is_const(tg) or not CW.is_const(cn):
                        return None
                    got.append((blk[1], bool(tg[1]), bool(cn[1])))
                if got != want:
                    bad = got
            key = "%s|%s" % (var["name"], "".join("1" if x else "0" for x in case))
            if problems:
                out.viol(rule, "%s|stateful|%s" % (rule, key), ctx.where(fp), "%s: %s - whether a block is selected then depends on the blocks visited before it" % (desc, problems[0]))
            elif bad is not None:
                out.viol(rule, "%s|row|%s" % (rule, key), ctx.where(fp),
                         "%s: the file's selected blocks are %s; expected %s as (block, start tag touched, content touched): a block is kept iff the filter is All or one of the two tests holds, with the flags it was tested with"
                         % (desc, bad, want))
            else:
                n += 1
    out.inst(rule, n, total, ["blocks [B1, B2] x filter x (content, tag) per block: %d cases" % total], exhaustive=True)
    return n == total


def check_filter(ctx, out, fp, rule="C02.filter"):
    tr = out.trial()
    try:
        decided = check_filter_model(ctx, tr, fp, rule)
    except Exception as e:      # noqa: BLE001
        ctx.view_fallbacks.append("%s: small-model analysis failed (%s: %s)" % (rule, type(e).__name__, e))
        decided = None
    if decided is not None:
        out.adopt(tr)
        return
    _check_filter_structural(ctx, out, fp, rule)


def _check_filter_structural(ctx, out, fp, rule="C02.filter"):
    if check_filter_loop(ctx, out, fp, rule):
        return
    n = 0
    E = ctx.expr(fp)
    clos = None
    for bi, t in fp.calls():
        if callee_matches(t, r"Iterator::(filter_map|filter)$"):
            e = E.operand(t["args"][1])
            if e[0] == "agg" and e[1].startswith("closure:"):
                clos = ctx.facts.body(e[1][8:])
    if clos is None:
        out.inst(rule, 0, 8, note="block filter closure not found in the file parser")
        return
    enum = ctx.facts.adts.get("blockwatch::blocks::BlocksFilter")
    if enum is None:
        out.inst(rule, 0, 8, note="BlocksFilter enum not found")
        return
    # the filter carries no state from one block to the next
    for bi, j, s in fp.assigns():
        rv = s["rv"]
        if rv["k"] == "agg" and rv.get("path") == clos.defpath:
            for nm, op in zip(rv.get("fields", []), rv["ops"]):
                pl = util.op_place(op)
                if pl is not None and fp.local_ty(pl["l"]).startswith("&mut"):
                    out.viol(rule, rule + "|mutable-capture|%s" % nm, ctx.where(fp, s["span"]),
                             "the per-block filter captures `%s` mutably: whether a block is selected then depends on the blocks visited before it (e.g. a nested block no longer sees a change its enclosing block has consumed)" % nm)
    # the tests are made against the parser's own line-change argument
    for bi, t in clos.calls():
        if callee_matches(t, r"(content|start_tag)_intersects_with_any$"):
            labs = ctx.prov.resolve_upvars(clos, ctx.prov.read_operand(clos, t["args"][1]))
            ps = {l[1] for l in labs if l[0] == "param"}
            extra = sorted({l[1].split("::")[-1] for l in labs if l[0] == "call" and re.search(r"Index|split|partition_point|binary_search|iter|skip|take|get", l[1])})
            if ps != {2} or extra:
                out.viol(rule, rule + "|changes-arg", ctx.where(clos, t["span"]),
                         "the intersection test is not made against the file's complete line-change list (parameters %s, through %s): every block must be tested against all changes of the file" % (sorted(ps), extra))
    vmap = {v["name"]: v["vi"] for v in enum["variants"]}
    rows = []
    for fname, c, t in itertools.product(vmap, (True, False), (True, False)):
        m = O.Mini(ctx.facts, clos, {"__block": True}, {}, set())
        discr_atoms = {}

        def hook(nm, args, c=c, t=t):
            if re.search(r"content_intersects_with_any$", nm):
                return c
            if re.search(r"start_tag_intersects_with_any$", nm):
                return t
            raise O.Unknown("call to %s" % nm)
        m.call_hook = hook
        # any discriminant of a captured value is the filter's
        res = None
        for _ in range(4):
            try:
                res = m.run()
                break
            except O.NeedAtom as na:
                path = na.args[0]
                if path and path[-1] == "__discr":
                    m = O.Mini(ctx.facts, clos, {"__block": True}, {}, set())
                    m.call_hook = hook
                    discr_atoms[path] = vmap[fname]
                    m.atoms = dict(discr_atoms)
                else:
                    out.viol(rule, rule + "|unknown-input", ctx.where(clos), "the block filter depends on a captured value %s other than the filter mode and the two intersection tests" % (path,))
                    return
            except O.Unknown as u:
                out.viol(rule, rule + "|unanalysable", ctx.where(clos), "the block filter cannot be evaluated on its truth table: %s" % u)
                return
        selected = isinstance(res, dict) and res.get("__variant") == "Some"
        want = (fname == "All") or c or t
        rows.append((fname, c, t, selected))
        if selected != want:
            out.viol(rule, rule + "|row|%s|c=%s|t=%s" % (fname, c, t), ctx.where(clos),
                     "with filter=%s, content touched=%s, start tag touched=%s the block is %s; expected %s" % (fname, c, t, "selected" if selected else "dropped", "selected" if want else "dropped"))
        else:
            n += 1
        if selected:
            payload = res.get("0")
            if isinstance(payload, dict):
                if payload.get("is_content_modified") is not c or payload.get("_is_start_tag_modified") is not t:
                    out.viol(rule, rule + "|flags|%s|c=%s|t=%s" % (fname, c, t), ctx.where(clos),
                             "the stored flags are (content=%s, tag=%s) although the tests gave (content=%s, tag=%s)" % (payload.get("is_content_modified"), payload.get("_is_start_tag_modified"), c, t))
    out.inst(rule, n, 8, ["%s c=%s t=%s -> %s" % r for r in rows], exhaustive=True, note="2 filter modes x 2 x 2 valuations, evaluated on the closure's MIR")


def check_span_model(ctx, out, rule="C02.span"):
    """Whether a diff touches a block, decided on a small model (engine.casewalk + listmodel): the two methods of
    `Block` that take the ordered line changes (`&self, &[LineChange]) -> bool`) are walked, helpers inlined, on
    concrete positions - a single-line and a two-line start tag, content that ends at column 1 and further in -
    for changes on every line around the block, whole-line changes (`ranges: None`) and changed character ranges
    at, before, after and across the span's first and last character, alone and next to a change on another line.
    One of the methods must answer for the content span - half-open: from the end of the start tag's comment up
    to, not including, the start of the end tag's comment -, the other for the start tag - inclusive of its `>`:
        line outside [first.line, last.line]           -> untouched
        whole-line change on a line of the span        -> touched (the last line included, whatever the end column)
        ranges: touched iff some range r has r.end > lo and r.start < hi (content) / r.start <= hi (tag), where
        lo = first.character - 1 on the first line, else 0; hi = last.character - 1 on the last line, else MAX.
    (Line-change character ranges are 0-based, positions 1-based.) Returns True / False, or None if the model
    cannot follow the code (the structural rules C01.search / .incl remain)."""
    from engine import casewalk as CW
    from engine import listmodel as LM
    std = CW.std_hooks()
    lm = LM.hooks()
    MAXU = (1 << 64) - 1
    cands = [b for b in ctx.reachable_bodies() if b.promoted is None and b.kind == "AssocFn" and b.impl_self_adt == "blockwatch::blocks::Block" and b.argc == 2
             and b.local_ty(0) == "bool" and re.match(r"&\[blockwatch::diff_parser::LineChange\]$", b.local_ty(2))]
    if len(cands) != 2:
        return None

    def pos(l, c):
        return CW.adt("blockwatch::Position", "Position", 0, [("line", CW.const(l)), ("character", CW.const(c))])

    def rng(a, b):
        return CW.adt("std::ops::Range", "Range", 0, [("start", CW.const(a)), ("end", CW.const(b))])

    def change(line, ranges):
        rv = CW.adt("std::option::Option", "None", 0, []) if ranges is None else CW.adt("std::option::Option", "Some", 1, [("0", LM.lst([rng(a, b) for a, b in ranges]))])
        return CW.adt("blockwatch::diff_parser::LineChange", "LineChange", 0, [("line", CW.const(line)), ("ranges", rv)])

    def spec(first, last, inclusive, line, ranges):
        if line < first[0] or line > last[0]:
            return False
        if ranges is None:
            return True
        lo = first[1] - 1 if line == first[0] else 0
        hi = last[1] - 1 if line == last[0] else MAXU
        return any(b > lo and (a <= hi if inclusive else a < hi) for a, b in ranges)
    configs = [
        # (tag first, tag last, content first, content last)
        ((1, 3), (1, 9), (1, 10), (3, 1)),
        ((1, 3), (2, 4), (2, 5), (4, 3)),
    ]
    range_sets = [None, [(0, 1)], [(1, 2)], [(2, 3)], [(3, 4)], [(4, 5)], [(8, 9)], [(9, 10)], [(10, 11)], [(0, 30)], [(0, 1), (9, 10)], [(0, 2), (3, 5)],
                  [(0, 1), (3, 4), (9, 10)], [(0, 2), (2, 5), (8, 12)]]
    tables = {}
    nonmono = []
    for b0 in cands:
        v = ctx.inl(b0, skip=lambda cb: False, tag="all-sugar", sugar=True)
        rows = {}
        for ci, (tf, tl, cf, cl) in enumerate(configs):
            block = CW.adt("blockwatch::blocks::Block", "Block", 0, [
                ("start_tag_position_range", CW.adt("std::ops::RangeInclusive", "RangeInclusive", 0, [("start", pos(*tf)), ("end", pos(*tl))])),
                ("content_position_range", CW.adt("std::ops::Range", "Range", 0, [("start", pos(*cf)), ("end", pos(*cl))]))])
            for line in range(0, 6):
                for rs in range_sets:
                    for shape in ("alone", "after", "before", "between"):
                        lst_ = [change(line, rs)]
                        if shape in ("after", "between"):
                            lst_ = [change(0, None)] + lst_
                        if shape in ("before", "between"):
                            lst_ = lst_ + [change(9, None)]
                        results = set()

                        def hook(w, bb, t, argv, env):
                            nm = callee_name(t)
                            m = re.search(r"ops::RangeInclusive::<Idx>::(start|end)$", nm)
                            if m and argv:
                                a0 = w.deref_val(env, argv[0])
                                if a0[0] == "adt":
                                    return w.field(a0, m.group(1))
                            if re.search(r"ops::RangeInclusive::<Idx>::new$", nm) and len(argv) == 2:
                                return CW.adt("std::ops::RangeInclusive", "RangeInclusive", 0, [("start", w.deref_val(env, argv[0])), ("end", w.deref_val(env, argv[1]))])
                            if re.search(r"RangeInclusive::<Idx>::contains$|RangeInclusive<Idx>::contains$|ops::RangeInclusive<.*>::contains$", nm) and len(argv) == 2:
                                a0, x = w.deref_val(env, argv[0]), w.deref_val(env, argv[1])
                                lo_, hi_ = w.deref_val(env, w.field(a0, "start")), w.deref_val(env, w.field(a0, "end"))
                                if all(CW.is_const(z) and isinstance(z[1], int) for z in (lo_, hi_, x)):
                                    return CW.const(1 if lo_[1] <= x[1] <= hi_[1] else 0)
                            r_ = lm(w, bb, t, argv, env)
                            if r_ is not None:
                                return r_
                            r_ = std(w, bb, t, argv, env)
                            if r_ is None and os.environ.get("BW_DEBUG_MODEL"):
                                print("span model: unknown call", nm, [str(a)[:60] for a in argv])
                            return r_
                        w = CW.Walk(ctx, v, [hook], max_states=6000)

                        def on_visit(bb, env):
                            tm = v.blocks[bb]["term"]
                            if tm and tm["k"] == "return":
                                r0 = env.get(0, CW.TOP)
                                results.add(bool(r0[1]) if CW.is_const(r0) and r0[1] in (0, 1, True, False) else "?")
                        w.on_visit = on_visit
                        env = {-9: block, 1: ("ref", -9, (), False), 2: LM.lst(lst_)}
                        try:
                            w.explore(0, env)
                        except CW.Limit:
                            return None
                        if len(results) != 1 or "?" in results:
                            return None
                        if getattr(w, "nonmonotone", None):
                            nonmono.append((b0.id, w.nonmonotone[0]))
                        rows[(ci, line, tuple(rs) if rs is not None else None, shape)] = results.pop()
        tables[b0.id] = rows
    n = 0
    roles = {}
    ctx.__dict__["_span_monotone"] = not nonmono
    if nonmono:
        bid, (what, seq) = nonmono[0]
        out.viol(rule, "%s|nonmonotone|%s" % (rule, what), ctx.where(ctx.facts.body(bid)),
                 "on the small model's ordered lists the %s of `%s` answers %s along a sorted slice: not monotone, so the ordered search can miss elements that do intersect" % (
                     "predicate" if what == "partition_point" else "comparator", what, list(seq)))
    for bid, rows in tables.items():
        diffs = {"content": [], "tag": []}
        for (ci, line, rs, shape), got in rows.items():
            tf, tl, cf, cl = configs[ci]
            rl = list(rs) if rs is not None else None
            if got != spec(cf, cl, False, line, rl):
                diffs["content"].append((ci, line, rs, shape, got))
            if got != spec(tf, tl, True, line, rl):
                diffs["tag"].append((ci, line, rs, shape, got))
        role = min(diffs, key=lambda k: len(diffs[k]))
        roles[bid] = (role, diffs[role], len(rows))
    if sorted(r[0] for r in roles.values()) != ["content", "tag"]:
        # both methods answer (best) for the same span
        for bid, (role, d, tot) in roles.items():
            out.viol(rule, "%s|%s|role" % (rule, bid), ctx.where(ctx.facts.body(bid)), "both change tests of `Block` answer for the %s span on the small model; one must answer for the content, one for the start tag" % role)
        out.inst(rule, 0, 2)
        return False
    ok = True
    for bid, (role, d, tot) in roles.items():
        if d:
            ok = False
            ci, line, rs, shape, got = d[0]
            tf, tl, cf, cl = configs[ci]
            first, last = (cf, cl) if role == "content" else (tf, tl)
            out.viol(rule, "%s|%s|%s" % (rule, role, "whole-line" if rs is None else "ranges"), ctx.where(ctx.facts.body(bid)),
                     "`%s` (the %s span, %s from %d:%d to %d:%d): a %s on line %d%s is %s; expected %s (%d of %d cases of the small model differ) - a diff that %s" % (
                         bid.split("::")[-1], role, "half-open" if role == "content" else "inclusive", first[0], first[1], last[0], last[1],
                         "whole-line change" if rs is None else "change of characters %s" % (list(rs),), line,
                         {"alone": "", "after": " (listed after a change on another line)", "before": " (listed before a change on another line)", "between": " (listed between changes on other lines)"}[shape],
                         "reported as touching the span" if got else "not seen", "touching" if not got else "not touching", len(d), tot,
                         "edits the block goes unnoticed" if not got else "does not touch the block marks it modified"))
        else:
            n += 1
    out.inst(rule, n, 2, ["%s: %s span, %d cases" % (bid.split("::")[-1], r[0], r[2]) for bid, r in roles.items()], exhaustive=True,
             note="2 block layouts x 6 lines x 14 change shapes x 4 list positions per method; ordered searches monotone on every list")
    return ok and not nonmono


def span_verdict(ctx):
    """True / False / None of the span model (computed once per run)"""
    if "_span_verdict" not in ctx.__dict__:
        from engine.core import Out
        try:
            ctx.__dict__["_span_verdict"] = check_span_model(ctx, Out("span"), rule="span")
        except Exception:       # noqa: BLE001
            ctx.__dict__["_span_verdict"] = None
    return ctx.__dict__["_span_verdict"]


def _span(ctx, out, rule):
    tr = out.trial()
    try:
        verdict = check_span_model(ctx, tr, rule=rule)
    except Exception as e:      # noqa: BLE001
        ctx.view_fallbacks.append("%s: small-model analysis failed (%s: %s)" % (rule, type(e).__name__, e))
        verdict = None
    if verdict is None:
        out.inst(rule, 0, 0, note="the small model could not follow the change tests of `Block`; C01.search / .incl decide their structural part")
    else:
        out.adopt(tr)


def check_inclusive(ctx, out, rule="C02.incl"):
    """Inclusive and half-open position ranges are not confused. (a) In every function taking a
    `&RangeInclusive<Position>` the bound derived from `range.end.character` is an inclusive upper
    bound (`x <= bound` / `x > bound`), in every function taking a `&Range<Position>` it is an
    exclusive one (`x < bound` / `x >= bound`). (b) No half-open `Range<Position>` is built from the
    end of an inclusive range without adjustment (the last character - the closing `>` of a start tag -
    would fall outside)."""
    n = 0
    incl_fields = set()
    for a in ctx.facts.adts.values():
        for v in a.get("variants", []):
            for f in v.get("fields", []):
                if f["ty"].startswith("std::ops::RangeInclusive<blockwatch::Position>"):
                    incl_fields.add(f["name"])
    excl_fields = set()
    for a in ctx.facts.adts.values():
        for v in a.get("variants", []):
            for f in v.get("fields", []):
                if f["ty"].startswith("std::ops::Range<blockwatch::Position>"):
                    excl_fields.add(f["name"])
    for b in ctx.reachable_bodies():
        if b.promoted is not None:
            continue
        # (b)
        for bi, j, s in b.assigns():
            rv = s["rv"]
            if rv["k"] == "agg" and rv.get("path") == "std::ops::Range" and "blockwatch::Position" in (rv.get("ty") or b.local_ty(s["lhs"]["l"])):
                labs = ctx.prov.resolve_upvars(b, ctx.prov.read_operand(b, rv["ops"][1]))
                via = [lab for lab in labs if any(f in lab[2] for f in incl_fields) and "end" in lab[2]]
                if via and not P.has_const(labs):
                    out.viol(rule, "%s|%s|range-from-inclusive" % (rule, b.id), ctx.where(b, s["span"]),
                             "a half-open `Range<Position>` is built whose end is the (inclusive) end of `%s`: the last position of the inclusive range - for a start tag its closing `>` - is no longer inside" % [f for f in incl_fields if f in via[0][2]][0])
        # (c) the other direction: no inclusive range built from the (exclusive) end of a half-open position
        # range - the conversion needs `character - 1`, and for an end at column 1 the last position lies on
        # the previous line: whatever is put there, the whole-line changes on the end's own line fall outside
        for bi, t in b.calls():
            if callee_matches(t, r"ops::RangeInclusive::<Idx>::new$") and len(t["args"]) == 2 and "blockwatch::Position" in " ".join(t.get("arg_tys") or []):
                labs = ctx.prov.resolve_upvars(b, ctx.prov.read_operand(b, t["args"][1]))
                for lab in labs:
                    from_field = any(f in lab[2] for f in excl_fields) and "end" in lab[2]
                    from_param = lab[0] == "param" and lab[2][:1] == ("end",) and re.match(r"&?(mut )?std::ops::Range<blockwatch::Position>", b.local_ty(lab[1]) if 1 <= lab[1] <= b.argc else "") is not None
                    if from_field or from_param:
                        out.viol(rule, "%s|%s|inclusive-from-range" % (rule, b.id), ctx.where(b, t["span"]),
                                 "an inclusive `RangeInclusive<Position>` is built whose end derives from the exclusive end of a half-open position range: a change on the end's own line (the line of the end tag) is inside the half-open range's line span but outside the converted one")
                        break
        # (a)
        if not b.parent:
            continue
        parent = ctx.facts.body(b.parent)
        if parent is None:
            continue
        for bi, j, s in b.assigns():
            rv = s["rv"]
            if rv["k"] != "bin" or rv["op"] not in ("Lt", "Le", "Gt", "Ge"):
                continue
            for side in ("a", "b"):
                labs = ctx.prov.resolve_upvars(b, ctx.prov.read_operand(b, rv[side]))
                for lab in labs:
                    if lab[0] == "param" and tuple(lab[2][:2]) == ("end", "character"):
                        pty = parent.local_ty(lab[1])
                        incl = "RangeInclusive<blockwatch::Position>" in pty
                        excl = (not incl) and "Range<blockwatch::Position>" in pty
                        if not (incl or excl):
                            continue
                        op = rv["op"]
                        if side == "a":
                            op = {"Lt": "Gt", "Gt": "Lt", "Le": "Ge", "Ge": "Le"}[op]
                        # normalised: x OP bound
                        good = op in (("Le", "Gt") if incl else ("Lt", "Ge"))
                        if good:
                            n += 1
                        else:
                            out.viol(rule, "%s|%s|%s" % (rule, parent.id, "inclusive" if incl else "exclusive"), ctx.where(b, s["span"]),
                                     "`%s` takes %s range but compares a change against its end column with `%s`: %s" % (
                                         parent.name, "an INCLUSIVE" if incl else "a HALF-OPEN", {"Lt": "<", "Le": "<=", "Gt": ">", "Ge": ">="}[op],
                                         "a change touching only the last character of the range (the `>` of a start tag) is missed" if incl else "a change starting right after the range counts as inside it"))
                        break
    if n == 0:
        n += _inclusive_by_flag(ctx, out, rule, incl_fields)
    # the comparison at the span's end is also exercised by the span model (changes ending right at, on and behind
    # the last character of both spans): when that decides, a form of the comparison this reading cannot find
    # is not a missing anchor
    floor = 0 if (n == 0 and span_verdict(ctx) is True) else 2
    out.inst(rule, n, floor, ["RangeInclusive -> `start <= end_col`", "Range -> `start < end_col`"], exhaustive=True,
             note=None if floor else "end-column comparison not found in a form this rule reads; decided by the span model")


def _inclusive_by_flag(ctx, out, rule, incl_fields):
    """The same rule when the inclusive / half-open distinction is a *value*: a crate struct carrying
    `end` and a boolean, built with `true` from an inclusive range's end and with `false` from a
    half-open one's; the comparison against the end column must be inclusive under the flag and
    exclusive under its negation."""
    n = 0
    # (1) construction sites: struct aggregates with a constant bool field and a field from a range's end
    flag_of = {}      # (adt path, bool field) -> {True: 'incl'|'excl', False: ...}
    for b in ctx.reachable_bodies():
        if b.promoted is not None:
            continue
        for bi, j, s in b.assigns():
            rv = s["rv"]
            if rv["k"] != "agg" or rv.get("agg") != "adt" or not (rv.get("path") or "").startswith("blockwatch::"):
                continue
            names = rv.get("fields") or []
            consts = {}
            kinds = set()
            for nm, op in zip(names, rv["ops"]):
                k = op.get("k")
                if isinstance(k, dict) and k.get("ty") == "bool" and "int" in k:
                    consts[nm] = bool(k["int"])
                    continue
                labs = ctx.prov.resolve_upvars(b, ctx.prov.read_operand(b, op))
                if any(any(f in lab[2] for f in incl_fields) and ("end" in lab[2] or lab[0] == "call") for lab in labs) or P.has_call(labs, r"RangeInclusive::<Idx>::end$"):
                    kinds.add("incl")
                elif any("end" in lab[2] and any(str(x).endswith("position_range") for x in lab[2]) for lab in labs):
                    kinds.add("excl")
                else:
                    # a conversion (`From<&Range<Position>>` / `From<&RangeInclusive<Position>>`): the kind of
                    # range is the parameter's type
                    for lab in labs:
                        if lab[0] == "param" and lab[2][:1] == ("end",) and 1 <= lab[1] <= b.argc:
                            pty = b.local_ty(lab[1])
                            if "RangeInclusive<blockwatch::Position>" in pty:
                                kinds.add("incl")
                            elif "Range<blockwatch::Position>" in pty:
                                kinds.add("excl")
            if len(consts) == 1 and len(kinds) == 1:
                (fname, val), = consts.items()
                flag_of.setdefault((rv["path"], fname), {})[val] = kinds.pop()
    if not flag_of:
        return 0
    for (adtp, fname), m in flag_of.items():
        if m.get(True) == "excl" or m.get(False) == "incl":
            pol = {True: "excl", False: "incl"}
        else:
            pol = {True: "incl", False: "excl"}
        if set(m.values()) != {"incl", "excl"} or len(m) != 2:
            continue
        # (2) comparisons against the end column guarded by the flag
        for b in ctx.reachable_bodies():
            if b.promoted is not None:
                continue
            for bi, j, s in b.assigns():
                rv = s["rv"]
                if rv["k"] != "bin" or rv["op"] not in ("Lt", "Le", "Gt", "Ge"):
                    continue
                for side in ("a", "b"):
                    labs = ctx.prov.resolve_upvars(b, ctx.prov.read_operand(b, rv[side]))
                    if not any(tuple(lab[2][-2:]) == ("end", "character") or ("end" in lab[2] and "character" in lab[2]) for lab in labs if lab[0] in ("param", "upvar")):
                        continue
                    flagv = None
                    for br, vals, e in util.guards(ctx, b, bi):
                        txt = render(e, 300)
                        if txt.endswith("." + fname) or ("." + fname) in txt:
                            flagv = (0 not in vals)
                    if flagv is None:
                        continue
                    op = rv["op"]
                    if side == "a":
                        op = {"Lt": "Gt", "Gt": "Lt", "Le": "Ge", "Ge": "Le"}[op]
                    want_incl = pol[flagv] == "incl"
                    good = op in (("Le", "Gt") if want_incl else ("Lt", "Ge"))
                    if good:
                        n += 1
                    else:
                        out.viol(rule, "%s|%s|%s" % (rule, adtp, "inclusive" if want_incl else "exclusive"), ctx.where(b, s["span"]),
                                 "with `%s` = %s the span's end is %s, but a change is compared against the end column with `%s`" % (
                                     fname, str(flagv).lower(), "INCLUSIVE (built from an inclusive range's end)" if want_incl else "HALF-OPEN", {"Lt": "<", "Le": "<=", "Gt": ">", "Ge": ">="}[op]))
                    break
        # (3) the flag turned into a variant of a crate enum (`if flag { Bound::Closed(c) } else { Bound::Open(c) }`):
        # the comparisons against the payload in that variant's arm follow the flag's polarity
        variant_pol = {}    # (enum path, variant index) -> 'incl' | 'excl'
        for b in ctx.reachable_bodies():
            if b.promoted is not None:
                continue
            for bi, j, s in b.assigns():
                rv = s["rv"]
                if rv["k"] != "agg" or rv.get("agg") != "adt" or not (rv.get("path") or "").startswith("blockwatch::") or not rv.get("ops"):
                    continue
                ad = ctx.facts.adts.get(rv["path"]) or {}
                vs = [v.get("name") for v in ad.get("variants", [])]
                if ad.get("kind") not in (None, "enum") or len(vs) < 2 or rv.get("variant") not in vs:
                    continue
                flagv = None
                for br, vals, e in util.guards(ctx, b, bi):
                    txt = render(e, 300)
                    if txt.endswith("." + fname) or ("." + fname) in txt:
                        flagv = (0 not in vals)
                if flagv is None:
                    continue
                variant_pol[(rv["path"], vs.index(rv["variant"]))] = pol[flagv]
        if len({k[0] for k in variant_pol}) == 1 and set(variant_pol.values()) == {"incl", "excl"}:
            enum = next(iter(variant_pol))[0]
            for b in ctx.reachable_bodies():
                if b.promoted is not None:
                    continue
                eparams = [i for i in range(1, b.argc + 1) if re.match(r"&?(mut )?%s$" % re.escape(enum), b.local_ty(i))]
                if not eparams:
                    continue
                for bi, j, s in b.assigns():
                    rv = s["rv"]
                    if rv["k"] != "bin" or rv["op"] not in ("Lt", "Le", "Gt", "Ge"):
                        continue
                    for side in ("a", "b"):
                        labs = ctx.prov.read_operand(b, rv[side])
                        if not any(lab[0] == "param" and lab[1] in eparams for lab in labs):
                            continue
                        vi = None
                        for br, vals, e in util.guards(ctx, b, bi):
                            txt = render(e, 300)
                            if txt.startswith("discr(") and len(vals) == 1 and "otherwise" not in vals:
                                vi = next(iter(vals))
                        if (enum, vi) not in variant_pol:
                            continue
                        op = rv["op"]
                        if side == "a":
                            op = {"Lt": "Gt", "Gt": "Lt", "Le": "Ge", "Ge": "Le"}[op]
                        want_incl = variant_pol[(enum, vi)] == "incl"
                        good = op in (("Le", "Gt") if want_incl else ("Lt", "Ge"))
                        if good:
                            n += 1
                        else:
                            out.viol(rule, "%s|%s|%s" % (rule, enum, "inclusive" if want_incl else "exclusive"), ctx.where(b, s["span"]),
                                     "the `%s` variant of `%s` is built where `%s` says the span's end is %s, but its arm compares a change against the bound with `%s`" % (
                                         (ctx.facts.adts[enum]["variants"][vi].get("name")), enum.split("::")[-1], fname, "INCLUSIVE" if want_incl else "HALF-OPEN", {"Lt": "<", "Le": "<=", "Gt": ">", "Ge": ">="}[op]))
                        break
    return n


def parser_call_sites(ctx, fp):
    """Call sites of the file parser, read in the normalised view of the function(s) that (through
    closures and helpers) call it: [(view, block, call)]."""
    tops = []
    for b in ctx.reachable_bodies():
        if any((t.get("res") or "") == fp.id for bi, t in b.calls()):
            top = b
            for _ in range(6):
                while top.kind == "Closure" and top.parent and ctx.facts.body(top.parent) is not None:
                    top = ctx.facts.body(top.parent)
                # a helper (a method of a collector struct, a thin wrapper) that is itself only called
                # from one other library function: the rules are about that function's loop and guards
                callers = {c.id for c in ctx.reachable_bodies() if c.id != top.id and c.id.startswith(("blockwatch::", "<blockwatch::"))
                           and any((tt.get("res") or "") == top.id for _, tt in c.calls())}
                roots = set()
                for cid in callers:
                    cb = ctx.facts.body(cid)
                    while cb is not None and cb.kind == "Closure" and cb.parent and ctx.facts.body(cb.parent) is not None:
                        cb = ctx.facts.body(cb.parent)
                    if cb is not None:
                        roots.add(cb.id)
                if len(roots) == 1 and top.id != fp.id:
                    top = ctx.facts.body(next(iter(roots)))
                    continue
                break
            if top.id not in [x.id for x in tops]:
                tops.append(top)
    # helpers of the binary's / library's driver that only forward to it are looked through as well
    sites = []
    for top in tops:
        v = ctx.inl(top, skip=lambda cb: ctx.domain_api(cb) or cb.id == fp.id, tag="parser-sites", sugar=True) if not top.coroutine else top
        reach = cfg_of(v).reachable
        for bi, t in v.calls():
            if (t.get("res") or "") == fp.id and bi in reach:
                sites.append((v, bi, t))
    return sites


def check_consume(ctx, out, fp, rule):
    """A diff entry taken out of the per-file change map (`remove`) is parsed: from the removal, the
    enclosing loop cannot go on to its next file without passing the file parser (leaving through an
    error is fine). Otherwise the file named in the diff is parsed neither here nor by the later
    `remaining diff files` pass."""
    n = 0
    seen = set()
    for v, pbi, pt in parser_call_sites(ctx, fp):
        if v.cache_id in seen:
            continue
        seen.add(v.cache_id)
        cfg = cfg_of(v)
        parse_bbs = {bi for bi, t in v.calls() if (t.get("res") or "") == fp.id}
        for bi, t in v.calls():
            if bi not in cfg.reachable or not callee_matches(t, r"HashMap::<K, V, S, A>::(remove|remove_entry)$"):
                continue
            a0 = (t.get("arg_tys") or [""])[0]
            if not re.search(r"HashMap<std::path::PathBuf, std::vec::Vec<[^>]*LineChange", a0):
                continue
            h = cfg.innermost_loop(bi)
            if h is None:
                n += 1
                continue
            r = cfg.reach(cfg.succ[bi][0], avoid=parse_bbs) if cfg.succ[bi] else set()
            if h in r:
                out.viol(rule, "%s|%s|removed-not-parsed" % (rule, v.id), ctx.where(v, t["span"]),
                         "a file's entry is removed from the diff's change map and the loop can then continue with the next file without parsing it (e.g. because the file does not match the globs): a file named in the diff is silently dropped, together with its unbalanced tags and its blocks")
            else:
                n += 1
    out.inst(rule, n, 0, note="removals from the diff change map inside the scan loop: each is followed by the file parser on every path that stays in the loop")


def check_mode(ctx, out, fp, rule="C02.mode"):
    n = 0
    callers = parser_call_sites(ctx, fp)
    if len(callers) != 2:
        out.viol(rule, rule + "|sites", "-", "expected two call sites of the file parser (walk and diff-only), found %d" % len(callers))
    for b, bi, t in callers:
        cfg = cfg_of(b)
        E = ctx.expr(b)
        fe = E.operand(t["args"][2])
        variant = fe[1].split("::")[-1] if fe[0] == "agg" else "?"
        in_walk = any(bi in (util.iter_region(b, nb) | set(bl)) for h, bl, nb in util.loop_of_next(ctx, b, r"FileSystem::walk\("))
        want = "All" if in_walk else "ModifiedOnly"
        if variant == want:
            n += 1
        else:
            out.viol(rule, rule + "|%s" % ("walk" if in_walk else "diff"), ctx.where(b, t["span"]),
                     "the %s site parses with filter %s; expected %s" % ("walk" if in_walk else "diff-only", variant, want))
        labs = ctx.prov.read_operand(b, t["args"][1])
        if in_walk:
            if P.has_call(labs, r"HashMap::<K, V, S, A>::remove$"):
                n += 1
            else:
                out.viol(rule, rule + "|walk-changes", ctx.where(b, t["span"]), "a walked file is parsed without its own line changes from the diff")
            # the diff entry is consumed only for files that pass the allow / ignore decision
            for bj, tr in b.calls():
                if callee_matches(tr, r"HashMap::<K, V, S, A>::remove$") and "diff_parser::LineChange" in (tr.get("arg_tys") or [""])[0]:
                    gs = util.guard_texts(ctx, b, bj)
                    a = any("should_allow" in g[2] and "0" not in g[1] for g in gs)
                    i = any("should_ignore" in g[2] and g[1] == ["0"] for g in gs)
                    if a and i:
                        n += 1
                    else:
                        out.viol(rule, rule + "|remove-before-check", ctx.where(b, tr["span"]),
                                 "a file's entry is removed from the diff map before the allow/ignore decision: a diffed file outside the positional globs is consumed by the walk and then never validated")
        else:
            if P.has_call(labs, r"hash_map::IntoIter<.*Iterator>::next$|IntoIterator>?::into_iter$") or P.has_path(labs, "1"):
                n += 1
    out.inst(rule, n, 5, ["walk: All + remove(path) after allow/ignore; diff-only: ModifiedOnly"])


def check_nonint(ctx, out):
    """Who reads the two diff flags."""
    allowed = re.compile(r"validators::affects::|blocks::FileBlocks::to_serializable_report|blocks::parse_file")
    readers = {}
    for b in ctx.reachable_bodies():
        for bi, j, s in b.assigns():
            rv = s["rv"]
            places = []
            for key in ("op", "a", "b"):
                o = rv.get(key)
                if isinstance(o, dict):
                    p = o.get("c") or o.get("m")
                    if p:
                        places.append(p)
            if "place" in rv:
                places.append(rv["place"])
            for o in rv.get("ops", []):
                p = o.get("c") or o.get("m")
                if p:
                    places.append(p)
            for p in places:
                for e in p["p"]:
                    if isinstance(e, dict) and e.get("f") in ("is_content_modified", "_is_start_tag_modified") and "BlockWithContext" in (e.get("adt") or ""):
                        readers.setdefault(b.id, set()).add(e["f"])
    # a helper that reads the flags (an accessor such as `is_modified()`) is judged by who calls it
    callers = {}
    for b in ctx.reachable_bodies():
        for bi, t in b.calls():
            r = t.get("res") or ""
            if r:
                callers.setdefault(r, set()).add(b.id)

    # ... also when it is handed on as a function value (`.map(BlockWithContext::listing)`)
    for b in ctx.reachable_bodies():
        ops = [a for bi, t in b.calls() for a in t["args"]]
        for bi, j, s in b.assigns():
            rv = s["rv"]
            ops.extend(o for o in [rv.get("op"), rv.get("a"), rv.get("b")] if isinstance(o, dict))
            ops.extend(rv.get("ops", []))
        for o in ops:
            k = o.get("k") if isinstance(o, dict) else None
            if isinstance(k, dict) and k.get("fn"):
                callers.setdefault(k["fn"], set()).add(b.id)

    def only_from_allowed(bid, depth=4, seen=()):
        if allowed.search(bid):
            return True
        if depth == 0 or bid in seen:
            return False
        b = ctx.facts.bodies.get(bid)
        cs = set(callers.get(bid, ()))
        if b is not None and b.kind == "Closure" and b.parent:
            cs.add(b.parent)
        return bool(cs) and all(only_from_allowed(c, depth - 1, seen + (bid,)) for c in cs)
    # a detector shared by several validators (data-driven) may read the content flag for `affects`: that no other
    # validator's detection depends on the flags is decided on the detectors' small model (8 cases each)
    vals = ctx.roles().get("validators", {})
    shared_detects = {}
    for vn, vi_ in vals.items():
        if vi_.get("detect"):
            shared_detects.setdefault(vi_["detect"], []).append(vn)
    n = 0
    for bid, fields in sorted(readers.items()):
        if only_from_allowed(bid):
            n += 1
        elif bid in shared_detects and "affects" in shared_detects[bid] and all(shared.detect_cases_verdict(ctx, vn) is True for vn in shared_detects[bid]):
            n += 1
        else:
            out.viol("C02.nonint", "C02.nonint|%s" % bid, ctx.where(ctx.facts.bodies[bid]),
                     "`%s` reads the diff flag(s) %s: outside the affects rule and the list report a block's verdict must not depend on what the diff touched (diff mode must give the diagnostics of a full scan)" % (bid, sorted(fields)))
    # (the anchor: somebody reads the flags at all - the drift rule must; how many bodies share the reading is a matter of style)
    out.inst("C02.nonint", n, 1, sorted(readers), note="bodies that read is_content_modified / _is_start_tag_modified")
    for name in ("keep-sorted", "keep-unique", "line-pattern", "line-count", "check-lua", "check-ai"):
        shared.sh_state(ctx, out, name)


def features(ctx, b):
    f = []
    for x in ctx.facts.with_descendants(b):
        for bi, j, s in x.assigns():
            rv = s["rv"]
            if rv["k"] == "bin":
                f.append("bin:" + rv["op"])
            elif rv["k"] == "agg" and rv.get("agg") == "adt":
                f.append("agg:%s" % rv["variant"])
        for bi, t in x.calls():
            f.append("call:" + callee_name(t).split("::")[-1])
    return f


def check_siblings(ctx, out):
    if span_verdict(ctx) is True:
        # both tests are decided against the documented overlap rule on the span model, each on its own: their
        # agreement (same computation but for `<` / `<=` at the end column) follows and needs no shape comparison
        out.inst("C02.siblings", 1, 1, ["content and start-tag tests each agree with the overlap rule on the span model"])
        return
    a = ctx.facts.body("blockwatch::blocks::Block::intersects_with_line_change")
    b = ctx.facts.body("blockwatch::blocks::Block::intersects_with_line_change_inclusive")
    if a is None or b is None:
        # find by signature: fn(&Range<Position>|&RangeInclusive<Position>, &LineChange) -> bool
        cands = [x for x in ctx.facts.bodies.values() if x.promoted is None and x.kind == "AssocFn" and x.argc == 2 and x.local_ty(0) == "bool" and "LineChange" in x.local_ty(2)]
        a = next((x for x in cands if "std::ops::Range<" in x.local_ty(1)), None)
        b = next((x for x in cands if "std::ops::RangeInclusive<" in x.local_ty(1)), None)
    if a is None or b is None:
        # one shared implementation serving both spans (the inclusive / half-open choice is then a value,
        # decided by C02.incl): nothing to keep in agreement
        shared_impl = [x for x in ctx.facts.bodies.values() if x.promoted is None and x.kind in ("AssocFn", "Fn") and x.local_ty(0) == "bool"
                       and any("LineChange" in x.local_ty(i) and "[" not in x.local_ty(i) for i in range(1, x.argc + 1))
                       and any(callee_matches(t, r"binary_search_by$") for y in ctx.facts.with_descendants(x) for _, t in y.calls())]
        if len(shared_impl) == 1 and a is None and b is None:
            out.inst("C02.siblings", 1, 1, ["one shared span-intersection implementation: %s" % shared_impl[0].id])
            return
        out.inst("C02.siblings", 0, 1, note="span-intersection siblings not found")
        return
    from collections import Counter
    fa = Counter(x for x in features(ctx, a) if not x.startswith("call:start") and not x.startswith("call:end"))
    fb = Counter(x for x in features(ctx, b) if not x.startswith("call:start") and not x.startswith("call:end"))
    da = fa - fb
    db = fb - fa
    if dict(da) == {"bin:Lt": 1} and dict(db) == {"bin:Le": 1}:
        out.inst("C02.siblings", 1, 1, ["half-open vs inclusive differ in exactly one Lt/Le"])
    else:
        out.viol("C02.siblings", "C02.siblings|drift", ctx.where(a),
                 "the content-span (half-open) and tag-span (inclusive) intersection tests differ by %s vs %s; they must be the same computation except for one `<` vs `<=` on the end column" % (dict(da), dict(db)))
        out.inst("C02.siblings", 0, 1)


def check_scan(ctx, out, rule="C02.scan"):
    main = ctx.main_view()
    if main is None:
        out.inst(rule, 0, 3)
        return
    n = 0
    E = ctx.expr(main)
    for bi, t in main.calls():
        if callee_matches(t, r"blocks::parse_blocks$"):
            e = E.operand(t["args"][1])
            txt = render(e, 300)
            if re.match(r"^Not\(GlobSet::is_empty\(", txt):
                n += 1
            else:
                out.viol(rule, rule + "|should-scan", ctx.where(main, t["span"]), "should_scan_files is `%s`; expected `!glob_set.is_empty()`" % txt)
            labs = ctx.prov.read_operand(main, t["args"][0])
            if P.has_call(labs, r"diff_parser::line_changes_from_diff$"):
                n += 1
            else:
                out.viol(rule, rule + "|diff-arg", ctx.where(main, t["span"]), "the line changes handed to parse_blocks do not come from the diff parser")
    # the two mode decisions, as boolean functions of the atomic tests (engine/boolcond.py): however the
    # condition is written (directly, through named flags, through helpers of main that were inlined)
    from engine.boolcond import BoolCond, truth_table
    bc = BoolCond(ctx, main)

    def classify(a):
        nm = a["name"]
        e = a.get("expr")
        txt = render(e, 600) if e is not None else nm
        if a["kind"] == "call" and re.search(r"IsTerminal>?::is_terminal$", nm):
            return "tty"
        if a["kind"] == "call" and re.search(r"Result::<T, E>::(is_ok|is_err)$", nm) and "BLOCKWATCH_TERMINAL_MODE" in txt:
            return "env"
        if a["kind"] == "call" and re.search(r"GlobSet::is_empty$", nm):
            return "empty"
        if a["kind"] == "discr" and re.search(r"Try>::branch", txt):
            return 0 in a.get("vals", ())         # the `?` did not return
        if a["kind"] == "call" and re.search(r"Vec::<T, A>::is_empty$|<impl \[T\]>::is_empty$", nm):
            return "raw-empty"
        return None

    def decide(site_bb, spec, what, key, where):
        f = bc.site(site_bb)
        try:
            table, names, free = truth_table(bc, f, classify)
        except ValueError as ex:
            out.viol(rule, rule + "|" + key, where, "the condition of %s cannot be enumerated (%s)" % (what, ex))
            return False
        if "raw-empty" in names:
            out.viol(rule, rule + "|default-glob-source", where,
                     "the `no globs given` test is made on a raw argument list, not on the compiled set returned by `Args::globs()` (top-level and `list` globs merged): globs given to the `list` subcommand are replaced by `**`")
            return False
        bad = []
        for val, res in table.items():
            v = dict(val)
            want = spec(v)
            if res != {want}:
                bad.append((v, sorted(res), want))
        if bad:
            v, res, want = bad[0]
            dep = ("; it also depends on %s" % [a["name"][:60] for a in free][:3]) if free and len(res) > 1 else ""
            out.viol(rule, rule + "|" + key, where,
                     "%s happens %s when %s; expected %s%s" % (what, "on some runs and not on others" if len(res) > 1 else ("" if res[0] else "NOT"),
                                                               ", ".join("%s=%s" % kv for kv in sorted(v.items())), "it to happen" if want else "it not to happen", dep))
            return False
        return True

    interactive = lambda v: v.get("tty", False) or v.get("env", False)
    for bi, t in main.calls():
        if callee_matches(t, r"globset::Glob::new$") and util.const_val(ctx, main, t["args"][0]) == "**":
            where = ctx.where(main, t["span"])
            ok = decide(bi, lambda v: interactive(v) and v.get("empty", False), "installing the default `**` glob", "default-glob", where)
            # the tested set is the merged one (top-level and `list` globs): it comes from Args::globs()
            for br, vals, ge in util.guards(ctx, main, bi):
                if ge[0] == "call" and re.search(r"GlobSet::is_empty$", ge[1]):
                    ct = main.blocks[ge[3]]["term"]
                    gl = ctx.prov.read_operand(main, ct["args"][0])
                    if not P.has_call(gl, r"flags::Args::globs$"):
                        ok = False
                        out.viol(rule, rule + "|default-glob-source", ctx.where(main, ct["span"]),
                                 "the `no globs given` test is made on a value that does not come from `Args::globs()` (the merged top-level and `list` globs): globs given to a subcommand are replaced by `**`")
            if ok:
                n += 1
    # the diff is read iff not interactive
    for bi, t in main.calls():
        if callee_matches(t, r"diff_parser::line_changes_from_diff$"):
            if decide(bi, lambda v: not interactive(v), "reading the diff from stdin", "diff-read", ctx.where(main, t["span"])):
                n += 1
    out.inst(rule, n, 4, ["scan := !globs.is_empty(); '**' iff globs empty && interactive; diff read iff !interactive"], exhaustive=True)


def run(ctx, out, tier):
    fp = file_parser(ctx)
    if fp is None:
        out.inst("C02.filter", 0, 8, note="file parser not found")
    else:
        check_filter(ctx, out, fp)
        check_mode(ctx, out, fp)
    check_nonint(ctx, out)
    check_siblings(ctx, out)
    check_inclusive(ctx, out)
    _span(ctx, out, "C02.span")
    check_scan(ctx, out)
    # "editing only the attributes inside a start tag selects the block": the tag's own position range
    # must be right wherever the tag sits in its comment (shared with C10/C03)
    from rules.C10 import check_tagpos
    check_tagpos(ctx, out, "C02.tagpos")
    # ... and those of comments nested in Markdown HTML blocks are rebased completely (shared with C03 / C10):
    # diff selection compares these positions with the changed columns
    from rules.C03 import check_rebase
    check_rebase(ctx, out, rule="C02.rebase")
    check_search(ctx, out)
    check_units(ctx, out)
    check_coord(ctx, out)
    check_queue(ctx, out)
    bodies = [b for b in ctx.reachable_bodies() if b.id.startswith("blockwatch::blocks::") or b.id.startswith("blockwatch::diff_parser::") or b.id.startswith("bwbin::")]
    shared.sh_err(ctx, out, bodies, floor=30)
    shared.sh_main(ctx, out)
    shared.sh_traverse(ctx, out)
    from rules.C01 import check_skipfile
    check_skipfile(ctx, out, rule="C02.skipfile")
    shared.sh_units(ctx, out)
    # a rule only runs if the lazy detection loop creates its validator: every pending detector is asked
    # about every block (shared with C14)
    from rules.C14 import check_once as _detect_once, detect_fn as _detect_fn
    _dv = _detect_fn(ctx)
    if _dv is not None:
        _detect_once(ctx, out, _dv, rule="C02.detect")
    else:
        out.inst("C02.detect", 0, 4)
    shared.check_scan_state(ctx, out, "C02.scanstate")
    # a violation found in a touched block survives the merge of the validators' results (append-only)
    shared.sh_merge(ctx, out, ctx.reachable_bodies())
    from rules.C01 import check_linekind
    check_linekind(ctx, out, rule="C02.linekind")
    return meta()


def meta():
    return {
        "explanation": "Decides: the block filter's full truth table by evaluating the closure's MIR on all 8 valuations (calls replaced by the truth values); filter mode per call site and the position of the diff-map removal relative to the allow/ignore decision (control dependence); the complete reader set of the two diff flags (non-interference of the other validators) plus no carried state in the six per-block validators; sibling agreement of the two span intersections; the should_scan_files / default-glob table in main; and the search/unit/coordinate rules shared with C01. These are structural necessary conditions; boundary arithmetic is not decided.",
        "undecided": "0-/1-based and inclusive/exclusive arithmetic at span boundaries.",
        "assumptions": [],
    }
