"""Shared rules (DESIGN.md §4): SH.err, SH.merge, SH.state, SH.main, and small helpers."""
import json
import os
import re

from engine.cfg import cfg_of
from engine.expr import render, walk, find_calls
from engine.facts import callee_name, callee_matches
from engine import prov as P
from engine.resultflow import is_bad

SPEC = os.path.join(os.path.dirname(os.path.dirname(os.path.abspath(__file__))), "spec")


def load_exceptions():
    path = os.path.join(SPEC, "exceptions.json")
    with open(path) as f:
        data = json.load(f)
    return {e["key"]: e["reason"] for e in data}


def const_arg_text(ctx, body, t):
    """First string constant among a call's arguments (directly or via single-def chains)."""
    E = ctx.expr(body)
    for a in t["args"]:
        e = E.operand(a)
        for sub in walk(e):
            if sub[0] == "const" and isinstance(sub[1], str) and not sub[1].startswith("fn:"):
                return sub[1]
    return ""


def producer_origin_text(ctx, body, t):
    """For adaptor producers (as_deref, map_err …) name the call that produced the receiver."""
    E = ctx.expr(body)
    e = E.call(t, -1)
    names = []
    for sub in walk(e):
        if sub[0] == "call":
            names.append(sub[1].split("::")[-1])
        if sub[0] == "const" and isinstance(sub[1], str) and not sub[1].startswith("fn:"):
            names.append(repr(sub[1]))
    return ">".join(names[:4])


def env_names_of(ctx, body):
    """Constant variable names that reach the `env::var(name)` call(s) of a helper closure / function
    whose `name` is a parameter: read off the normalised view of the function(s) that use the helper."""
    names = set()
    tops = []
    if body.kind == "Closure" and body.parent:
        p = ctx.facts.body(body.parent)
        while p is not None and p.kind == "Closure" and p.parent:
            p = ctx.facts.body(p.parent)
        if p is not None:
            tops.append(p)
    else:
        for c in ctx.facts.bodies.values():
            if c.promoted is None and any((t.get("res") or "") == body.id for _, t in c.calls()):
                tops.append(c)
    for top in tops:
        v = ctx.inl(top, tag="all", sugar=True)
        for bi, t in v.calls():
            if re.search(r"^std::env::var(_os)?$", callee_name(t)) and t["args"]:
                nm = const_arg_text(ctx, v, t)
                if nm:
                    names.add(nm)
                else:
                    return set()
    return names


# -------------------------------------------------------------------------------------------------
# SH.err — no Result is swallowed
# -------------------------------------------------------------------------------------------------
def sh_err(ctx, out, bodies, rule="SH.err", floor=1):
    exc = load_exceptions()
    n_sites = 0
    samples = []
    used = set()
    counts = {}
    for b in bodies:
        if b.is_derive() or b.promoted is not None:
            continue
        for bi, t, paths in ctx.rf.producers(b):
            n_sites += 1
            for p, recs in ctx.rf.classify(b, bi, t, paths):
                classes = sorted(set(r["class"] for r in recs))
                if len(samples) < 4:
                    samples.append("%s -> %s : %s" % (ctx.where(b, t["span"]), callee_name(t).split("::")[-1], ",".join(classes)))
                for r in recs:
                    if not is_bad(r["class"]):
                        continue
                    cls = r["class"]
                    if cls.startswith("escape:"):
                        cls = "escape:" + cls[7:].split("::")[-1]
                    base = "%s|%s|%s|%s|%s" % (rule, b.id, callee_name(t), "/".join(p), cls)
                    detail = const_arg_text(ctx, b, t) or producer_origin_text(ctx, b, t)
                    key = base + "|" + detail
                    counts[key] = counts.get(key, 0) + 1
                    if counts[key] > 1:
                        key = key + "#%d" % counts[key]
                    if key in exc:
                        used.add(key)
                        out.exception(key, exc[key])
                        continue
                    if re.search(r"<impl \[T\]>::binary_search(_by|_by_key)?$", callee_name(t)) and "SH.err|found-or-not|binary_search" in exc:
                        used.add("SH.err|found-or-not|binary_search")
                        out.exception("SH.err|found-or-not|binary_search", exc["SH.err|found-or-not|binary_search"])
                        continue
                    fl = (t.get("span") or {}).get("file") or ""
                    if fl.endswith("tag_parser.rs") and "SH.err|not-a-tag|parse_peek" in exc and (
                            callee_name(t) == "winnow::Parser::parse_peek"
                            or (re.search(r"Result::<T, E>::(map|map_err|or_else|and_then|or)$", callee_name(t)) and find_calls(ctx.expr(b).call(t, bi), r"^winnow::Parser::parse_peek$"))):
                        # (also when the attempt's Result goes through map / or_else before it is tested)
                        used.add("SH.err|not-a-tag|parse_peek")
                        out.exception("SH.err|not-a-tag|parse_peek", exc["SH.err|not-a-tag|parse_peek"])
                        continue
                    if callee_name(t) == "std::path::Path::strip_prefix" and fl.endswith("blocks.rs") and "SH.err|outside-root|strip_prefix" in exc \
                            and re.search(r"swallow:unwrap_or|match-swallow|swallow:ok|swallow:unwrap_or_else", cls):
                        used.add("SH.err|outside-root|strip_prefix")
                        out.exception("SH.err|outside-root|strip_prefix", exc["SH.err|outside-root|strip_prefix"])
                        continue
                    # an environment variable read inside a helper closure / function that gets the
                    # variable's name as an argument: the names are those of its (inlined) uses
                    if re.search(r"^std::env::var(_os)?$", callee_name(t)) and not const_arg_text(ctx, b, t):
                        names = env_names_of(ctx, b)
                        if names and all(("SH.err|env|%s" % nm) in exc for nm in names):
                            for nm in sorted(names):
                                used.add("SH.err|env|%s" % nm)
                                out.exception("SH.err|env|%s" % nm, exc["SH.err|env|%s" % nm])
                            continue
                    # reading one of the documented environment variables: "unset" is not an error,
                    # wherever and with whichever idiom (unwrap_or, is_ok, match) the code reads it
                    envkey = "SH.err|env|%s" % detail
                    if envkey in exc and (re.search(r"^std::env::var(_os)?$", callee_name(t)) or
                                          (re.search(r"Result::<T, E>::(as_deref|as_ref)$", callee_name(t)) and find_calls(ctx.expr(b).call(t, bi), r"^std::env::var(_os)?$"))):
                        used.add(envkey)
                        out.exception(envkey, exc[envkey])
                        continue
                    out.viol(rule, key, ctx.where(b, t["span"]),
                             "the Result produced by `%s` is %s (%s): an error on this path would not reach the exit status"
                             % (callee_name(t), r["class"], r["detail"]))
    out.inst(rule, n_sites, floor, samples,
             note="Result-producing call sites followed to their consumers (A5); exceptions used: %d" % len(used))
    return n_sites


# -------------------------------------------------------------------------------------------------
# SH.merge — diagnostics maps are only ever appended to
# -------------------------------------------------------------------------------------------------
VIOL_MAP = re.compile(r"HashMap<std::path::PathBuf, std::vec::Vec<blockwatch::validators::Violation>")
DIAG_MAP = re.compile(r"HashMap<std::path::PathBuf, std::vec::Vec<(blockwatch::validators::Violation|serde_json::Value)>")
OVERWRITE = re.compile(r"HashMap::<K, V, S, A>::(insert|remove|remove_entry|clear|retain|drain)$|hash_map::(Occupied)?Entry<.*>::insert(_entry)?$|::Extend<.*>>::extend$|::Extend>::extend$|::extend_one$")


def _arg0_ty(t):
    tys = t.get("arg_tys") or []
    return tys[0] if tys else ""


def _insert_of_distinct_keys(ctx, b, bi, t):
    """`map.insert(k, v)` that cannot replace anything: the map is a local created empty in this function,
    this insert is its only write, it sits in the loop over another HashMap's entries (and in no inner
    loop), and its key is that loop's key - the keys of a HashMap are pairwise distinct, so every
    iteration inserts a different key."""
    from engine import prov as P
    from rules import util
    if len(t["args"]) < 2:
        return False
    m = util.base_local(b, t["args"][0])
    if m is None or m <= b.argc:
        return False
    md = b.single_def(m)
    if not (md and md[0] == "call" and re.search(r"HashMap::<K, V>::(new|with_capacity)$|Default>::default$", callee_name(md[3]))):
        return False
    for bj, tj in b.calls():
        if bj != bi and tj["args"] and VIOL_MAP.search(_arg0_ty(tj)) and util.base_local(b, tj["args"][0]) == m \
                and re.search(r"::(entry|insert|extend|remove|clear|retain|drain|get_mut|iter_mut|values_mut)$", tj.get("def") or ""):
            return False
    cfg = cfg_of(b)
    inside = cfg.loops_containing(bi)
    files = [(h, bl) for h, bl, kind in outer_block_loops(ctx, b) if kind == "files" and bi in bl]
    if len(inside) != 1 or len(files) != 1 or files[0][0] != inside[0]:
        return False
    # the key: (a clone of) the key component of the entry the files loop is at
    kl = ctx.prov.read_operand(b, t["args"][1])
    return bool(kl) and all((l[0] in ("param", "upvar") and "blocks" in l[2] and l[2][-1] == "0") or (l[0] == "call" and re.search(r"hash_map::Iter<.*Iterator>::next$", l[1]) and l[2][-1:] == ("0",)) for l in kl)


def sh_merge(ctx, out, bodies, rule="SH.merge", floor_entries=5):
    """No overwriting call on a `HashMap<PathBuf, Vec<Violation>>`; all writes go through
    entry().or_insert_with().push/extend."""
    entries = 0
    samples = []
    for b in bodies:
        if b.is_derive():
            continue
        for bi, t in b.calls():
            a0 = _arg0_ty(t)
            d = t.get("def") or ""
            self_ty = t.get("self_ty") or ""
            # a diagnostics map *built* by collecting (file, diagnostics) pairs keeps only the last pair of a
            # file: merging several producers' results that way loses every earlier one
            if re.search(r"Iterator::(collect|try_collect)$|FromIterator(<.*>)?>?::from_iter$|Itertools::try_collect$", d) and re.match(r"(std::result::Result<|std::option::Option<)?std::collections::HashMap<std::path::PathBuf, std::vec::Vec<blockwatch::validators::Violation>", t.get("dest_ty") or "") \
                    and not re.search(r"std::collections::hash_map::(IntoIter|Iter|Drain)<std::path::PathBuf", a0):
                key = "%s|%s|collect" % (rule, b.id)
                out.viol(rule, key, ctx.where(b, t["span"]),
                         "a diagnostics map (PathBuf -> Vec<Violation>) is built by `collect()` from (file, diagnostics) pairs: when two producers report the same file, the later pair replaces the earlier one instead of being appended to it")
                continue
            # `entry(file).and_modify(|old| old.extend(new)).or_default()`: the incoming diagnostics live only in the
            # closure, which runs for a file that is already there - for a new file they are dropped and an empty
            # list is inserted
            if re.search(r"hash_map::Entry::<'a, K, V>::and_modify$|hash_map::Entry::<'a, K, V(, A)?>::and_modify$", d) and re.search(r"Entry<'?_?\w*,? ?std::path::PathBuf, std::vec::Vec<blockwatch::validators::Violation>", a0) and len(t["args"]) > 1:
                pl = t["args"][1].get("m") or t["args"][1].get("c")
                adt = b.locals[pl["l"]].get("adt") if pl else None
                cb = ctx.facts.body(adt) if adt else None
                if cb is not None and cb.kind == "Closure":
                    ups = [l.get("ty") or "" for l in cb.locals[1:2]]
                    cap = [x for bi2, j2, s2 in b.assigns() if s2["rv"]["k"] == "agg" and s2["rv"].get("agg") == "closure" and s2["rv"].get("path") == cb.id
                           for x in s2["rv"]["ops"] if (x.get("m") or x.get("c")) and re.match(r"std::vec::Vec<blockwatch::validators::Violation>", b.local_ty((x.get("m") or x.get("c"))["l"]))]
                    if cap:
                        out.viol(rule, "%s|%s|and_modify" % (rule, b.id), ctx.where(b, t["span"]),
                                 "a file's diagnostics are merged with `entry(..).and_modify(|old| old.extend(new))`: the incoming list is owned by the closure, which only runs when the file already has an entry - for a file that has none the diagnostics are dropped (and whatever `or_default` / `or_insert` supplies is stored instead)")
                continue
            if not (VIOL_MAP.search(a0) or (("Extend" in d) and VIOL_MAP.search(self_ty))):
                continue
            if re.search(r"HashMap::<K, V, S, A>::entry$", d):
                entries += 1
                if len(samples) < 4:
                    samples.append(ctx.where(b, t["span"]))
                continue
            if re.search(r"HashMap::<K, V, S, A>::insert$", d) and _insert_of_distinct_keys(ctx, b, bi, t):
                entries += 1
                continue
            if OVERWRITE.search(d) or OVERWRITE.search(callee_name(t)):
                key = "%s|%s|%s" % (rule, b.id, d.split("::")[-1])
                out.viol(rule, key, ctx.where(b, t["span"]),
                         "`%s` on a diagnostics map (PathBuf -> Vec<Violation>) replaces or removes a file's earlier diagnostics instead of appending to them" % callee_name(t))
    out.inst(rule, entries, floor_entries, samples,
             note="entry() call sites on diagnostics maps; overwriting calls (insert/extend-of-map/remove/clear/retain) must be 0")
    return entries


# -------------------------------------------------------------------------------------------------
# SH.state — no state carried from one block to the next in a per-block validator
# -------------------------------------------------------------------------------------------------
CONTAINERish = re.compile(r"^(std::collections::|std::vec::Vec<|std::option::Option<|std::string::String|regex::Regex|std::result::Result<)")


def iterates_blocks(txt):
    """the rendered receiver of a `next()` iterates the blocks of a file (not, say, the lines of one block's
    content, which is also reached through `blocks_with_context`)"""
    return "blocks_with_context" in txt and not re.search(r"\blines\(|Block::content\(|split\w*\(|chars\(", txt)


def outer_block_loops(ctx, body):
    """Loops of `body` driven by iterating `context.blocks` / `blocks_with_context`:
    returns [(header, blocks, kind)] with kind 'files' or 'blocks'."""
    cfg = cfg_of(body)
    E = ctx.expr(body)
    res = []
    for h, blocks in cfg.loops().items():
        # find the `next()` call in the header region whose iterator comes from the field
        kind = None
        for x in blocks:
            t = body.blocks[x]["term"]
            if t and t["k"] == "call" and callee_matches(t, r"Iterator>?::next$"):
                e = E.operand(t["args"][0])
                txt = render(e, 2000)
                if cfg.innermost_loop(x) != h:
                    continue
                if "blocks_with_context" in txt and not re.search(r"\blines\(|Block::content\(|split\w*\(|chars\(", txt):
                    # (an iterator over the lines of a block's content is not the iteration over the blocks,
                    # although the content is reached through `blocks_with_context`)
                    kind = "blocks"
                elif re.search(r"\.blocks\b", txt):
                    kind = "files"
        if kind:
            # a `for` over a lazy pipeline (`for x in blocks.iter().filter_map(..)`) reads, normalised, as
            # the for-loop around an inner loop that pulls the next accepted item: the iteration is the
            # enclosing loop when that one has no driving next() of its own
            for H, HB in cfg.loops().items():
                if H == h or not (set(blocks) < set(HB)):
                    continue
                own = [x for x in HB if body.blocks[x]["term"] and body.blocks[x]["term"]["k"] == "call"
                       and callee_matches(body.blocks[x]["term"], r"Iterator>?::next$") and cfg.innermost_loop(x) == H]
                inner_parents = [H2 for H2, HB2 in cfg.loops().items() if H2 not in (h, H) and set(blocks) < set(HB2) and set(HB2) < set(HB)]
                if not own and not inner_parents:
                    h, blocks = H, HB
                    break
                # `for x in files.iter().flat_map(|f| f.blocks.iter()..)`: the loop that pulls the next
                # inner item (marked by the expansion) sits inside the for-loop, which also pulls the next
                # file when the inner iterator is exhausted: one iteration of the for-loop is one block
                if own and not inner_parents and kind == "blocks" and any(body.blocks[x].get("lazy_inner") for x in blocks):
                    h, blocks = H, HB
                    break
            res.append((h, blocks, kind))
    # a flattened iteration (`files.iter().flat_map(|f| f.blocks.iter())` driving one `for`): the files are
    # advanced inside the loop that is the per-block iteration - it is the per-file iteration as well
    if not any(k == "files" for _, _, k in res):
        for h, blocks, kind in list(res):
            if kind != "blocks":
                continue
            for x in blocks:
                t = body.blocks[x]["term"]
                if t and t["k"] == "call" and callee_matches(t, r"Iterator>?::next$"):
                    txt = render(E.operand(t["args"][0]), 2000)
                    if re.search(r"\.blocks\b", txt) and not iterates_blocks(txt):
                        res.append((h, blocks, "files"))
                        break
            if any(k == "files" for _, _, k in res):
                break
    return res


def sh_state(ctx, out, name, allowed_names=("violations", "tasks"), rule="SH.state"):
    """Inside the per-block loop of validator `name`, the only user variables defined outside the
    loop and mutated inside it are the diagnostics map and the task set."""
    vb = ctx.validate_body(name)
    if vb is None:
        out.inst(rule + "." + name, 0, 1)
        return
    from engine.core import on_any_view
    on_any_view(out, _validator_views(ctx, name, vb), lambda bodies, o: _sh_state(ctx, o, name, rule, bodies))


def _sh_state(ctx, out, name, rule, bodies):
    found = 0
    samples = []
    for body in bodies:
        cfg = cfg_of(body)
        loops = outer_block_loops(ctx, body)
        for h, blocks, kind in loops:
            found += 1
            # user locals written inside the loop …
            written_inside = {}
            for x in blocks:
                b = body.blocks[x]
                for s in b["stmts"]:
                    if s["k"] == "assign":
                        l = s["lhs"]["l"]
                        written_inside.setdefault(l, []).append(s.get("span"))
                t = b["term"]
                if t and t["k"] == "call":
                    written_inside.setdefault(t["dest"]["l"], []).append(t.get("span"))
                    # &mut borrows handed to calls mutate the borrowed local
            mut_borrowed = {}
            for x in blocks:
                for s in body.blocks[x]["stmts"]:
                    if s["k"] == "assign" and s["rv"]["k"] == "ref" and s["rv"].get("mut"):
                        l = s["rv"]["place"]["l"]
                        mut_borrowed.setdefault(l, []).append(s.get("span"))
            # … that are also initialised outside the loop (so they carry a value across iterations)
            for l, spans in list(written_inside.items()) + list(mut_borrowed.items()):
                loc = body.locals[l]
                if not loc.get("user") or not loc.get("name"):
                    continue
                nm = loc["name"]
                defs_outside = False
                for d in body.defs().get(l, []):
                    if d[1] not in blocks:
                        defs_outside = True
                if not defs_outside:
                    continue
                ty = loc["ty"]
                if VIOL_MAP.search(ty) or "tokio::task::JoinSet<" in ty or re.match(r"std::vec::Vec<blockwatch::validators::Violation>$", ty):
                    continue   # the diagnostics map (or a file's list of diagnostics) and the task set are the validator's outputs
                if re.search(r"::Iter<|::IterMut<|::IntoIter<|std::iter::|::Lines<|::Enumerate<", ty):
                    continue   # iterator state of the loop itself
                if re.search(r"std::task::Context|future::ResumeTy", ty) or nm == "_task_context":
                    continue   # the async runtime's resume argument
                if not CONTAINERish.search(loc["ty"]) and not loc.get("mut"):
                    continue
                if len(samples) < 3:
                    samples.append("%s loop@bb%d" % (body.id, h))
                key = "%s|%s|%s|%s" % (rule, name, body.id, nm)
                out.viol(rule, key, ctx.where(body, spans[0] if spans and spans[0] else None),
                         "variable `%s` (%s) is initialised outside the per-%s loop of the `%s` validator and mutated inside it: state is carried from one block to the next, so a block's verdict depends on the blocks before it"
                         % (nm, loc["ty"], "file" if kind == "files" else "block", name))
    out.inst(rule + "." + name, found, 2, samples, note="per-file and per-block loops of the validator examined for carried state")


def check_scan_state(ctx, out, rule):
    """Per-file isolation of the scan: in the function(s) that call the file parser in a loop (the walk
    over the repository, the loop over the diff's files), the only variables that are initialised outside
    such a loop and changed inside it are the result map, the diff map entries are taken from, and
    iterator state. Anything else - a `line_changes` buffer hoisted out of the loop, say - carries one
    file's data into the parsing of the next file whenever some path skips its reset, and which file is
    "next" depends on the directory order."""
    from rules.C12 import file_parser
    fp = file_parser(ctx)
    n = 0
    if fp is None:
        out.inst(rule, 0, 1, note="file parser not found")
        return
    for b0 in ctx.reachable_bodies():
        if b0.promoted is not None or not any((t.get("res") or "") == fp.id for bi, t in b0.calls()):
            continue
        body = b0
        cfg = cfg_of(body)
        sites = [bi for bi, t in body.calls() if (t.get("res") or "") == fp.id]
        for h, blocks in cfg.loops().items():
            bset = set(blocks)
            if not any(s in bset for s in sites):
                continue
            n += 1
            changed = {}
            for x in blocks:
                blk = body.blocks[x]
                for s in blk["stmts"]:
                    if s["k"] == "assign":
                        changed.setdefault(s["lhs"]["l"], s.get("span"))
                        if s["rv"]["k"] == "ref" and s["rv"].get("mut"):
                            changed.setdefault(s["rv"]["place"]["l"], s.get("span"))
                tt = blk["term"]
                if tt and tt["k"] == "call":
                    changed.setdefault(tt["dest"]["l"], tt.get("span"))
            for l, span in sorted(changed.items()):
                loc = body.locals[l]
                if not loc.get("user") or not loc.get("name") or l <= body.argc:
                    continue
                if not any(d[1] not in bset for d in body.defs().get(l, [])):
                    continue
                ty = loc.get("ty") or ""
                if re.search(r"HashMap<std::path::PathBuf, blockwatch::blocks::FileBlocks", ty):
                    continue        # the result
                a = ctx.facts.adts.get(re.sub(r"<.*$", "", ty))
                if a is not None and a.get("kind") == "struct" and any(re.search(r"HashMap<std::path::PathBuf, blockwatch::blocks::FileBlocks", f["ty"]) for f in a["variants"][0]["fields"]) \
                        and all(re.search(r"HashMap<std::path::PathBuf, blockwatch::blocks::FileBlocks", f["ty"]) or f["ty"].startswith("&") for f in a["variants"][0]["fields"]):
                    continue        # a collector around the result (its other fields are shared references)
                if re.search(r"::Iter<|::IterMut<|::IntoIter<|std::iter::|ignore::Walk|impl std::iter::Iterator|::Drain<", ty):
                    continue        # iterator state of the loop itself
                if not (CONTAINERish.search(ty) or loc.get("mut")):
                    continue
                out.viol(rule, "%s|%s|%s" % (rule, b0.id, loc["name"]), ctx.where(body, span),
                         "variable `%s` (%s) is initialised outside the loop that parses one file per iteration and changed inside it: what it holds after one file is still there when the next file is parsed on every path that skips its reset - the blocks of a file can then be judged with another file's data, depending on the order in which the files come" % (loc["name"], ty))
    out.inst(rule, n, 0, note="loops that call the file parser once per file, examined for carried state")


# -------------------------------------------------------------------------------------------------
# SH.main — order and error propagation in main
# -------------------------------------------------------------------------------------------------
def call_blocks(body, regex):
    return [(bi, t) for bi, t in body.calls() if callee_matches(t, regex)]


def sh_main(ctx, out, rule="SH.main"):
    main = ctx.main_view()
    if main is None:
        out.inst(rule, 0, 1)
        return
    cfg = cfg_of(main)
    found = 0
    want = [
        ("Args::validate", r"flags::Args::validate$"),
        ("parse_blocks", r"blocks::parse_blocks$"),
        ("detect_validators", r"validators::detect_validators$"),
        ("run", r"validators::run$"),
    ]
    sites = {}
    for nm, rx in want:
        cs = call_blocks(main, rx)
        if len(cs) != 1:
            out.viol(rule, "%s|main|%s|count" % (rule, nm), ctx.where(main),
                     "expected exactly one call to %s in main, found %d" % (nm, len(cs)))
        else:
            sites[nm] = cs[0][0]
            found += 1
    order = ["Args::validate", "parse_blocks", "detect_validators", "run"]
    for a, b in zip(order, order[1:]):
        if a in sites and b in sites and not cfg.dominates(sites[a], sites[b]):
            out.viol(rule, "%s|main|%s-before-%s" % (rule, a, b), ctx.where(main),
                     "%s does not dominate %s in main: some path reaches %s without it" % (a, b, b))
    # the list report is produced after parsing
    lst = call_blocks(main, r"to_serializable_report$")
    if "parse_blocks" in sites:
        for bi, t in lst:
            if not cfg.dominates(sites["parse_blocks"], bi):
                out.viol(rule, "%s|main|list-after-parse" % rule, ctx.where(main, t["span"]),
                         "the list report is not dominated by parse_blocks")
    # main returns a Result so that any Err is exit status 1
    if not main.local_ty(0).startswith("std::result::Result<(), anyhow::Error>"):
        out.viol(rule, "%s|main|return-type" % rule, ctx.where(main),
                 "main returns `%s`, not anyhow::Result<()>: an Err would no longer become a non-zero exit status" % main.local_ty(0))
    out.inst(rule, found, 4, ["%s@bb%d" % kv for kv in sites.items()],
             note="validate ≺ parse_blocks ≺ detect_validators ≺ run (dominance) in main")


# -------------------------------------------------------------------------------------------------
# SH.visit — every block of every file is visited by a per-block validator
# -------------------------------------------------------------------------------------------------
TRUNCATING = re.compile(r"Iterator::(map_while|take_while|skip_while|take|skip|step_by|nth|find|find_map|position|last|scan|peekable|fuse)$")


def _validator_views(ctx, name, vb):
    """The validator as written (with its closures / coroutine), then its normalised view."""
    views = [ctx.facts.with_descendants(vb)]
    if not vb.coroutine:
        sv = ctx.validate_body(name, inline=True, sugar=True)
        if sv is not None and sv is not vb:
            views.append([sv])
    for b in ctx.facts.with_descendants(vb):
        if b.coroutine and any(callee_matches(t, r"tokio::task::JoinSet::<T>::spawn$") for x in ctx.facts.with_descendants(b) if not (x.coroutine and x.id != b.id) for bi, t in x.calls()):
            views.append([ctx.inl(b, skip=ctx.domain_api, tag="domain", sugar=True)])
            break
    return views


def sh_visit(ctx, out, name, attr=None, rule="SH.visit"):
    """The loops over `context.blocks` and `blocks_with_context` iterate the collections directly
    (no truncating adaptor) and a block without the rule's attribute continues with the next block.
    Decided on the validator as written or, failing that, on its normalised view (loops over a helper's
    `impl Iterator`, pipelines)."""
    from engine.core import on_any_view
    vb = ctx.validate_body(name)
    if vb is None:
        out.inst(rule + "." + name, 0, 2)
        return
    views = _validator_views(ctx, name, vb)
    on_any_view(out, views, lambda bodies, o: _sh_visit(ctx, o, name, attr, rule, bodies))


def _sh_visit(ctx, out, name, attr, rule, bodies):
    attr = attr or name
    n = 0
    kinds = set()
    for body in bodies:
        cfg = cfg_of(body)
        E = ctx.expr(body)
        for h, blocks, kind in outer_block_loops(ctx, body):
            kinds.add(kind)
            # the driving next()
            for x in blocks:
                t = body.blocks[x]["term"]
                if t and t["k"] == "call" and callee_matches(t, r"Iterator>?::next$") and cfg.innermost_loop(x) == h:
                    e = E.operand(t["args"][0])
                    txt = render(e, 3000)
                    if not (("blocks_with_context" in txt) or re.search(r"\.blocks\b", txt)):
                        continue
                    bad = [c[1].split("::")[-1] for c in walk(e) if c[0] == "call" and TRUNCATING.search(c[1])]
                    if bad:
                        out.viol(rule, "%s|%s|truncated|%s" % (rule, name, kind), ctx.where(body, t["span"]),
                                 "the %s loop of the `%s` validator iterates through %s: iteration can stop before every %s has been visited, so later blocks are never checked" % (kind, name, bad, "file" if kind == "files" else "block"))
                    else:
                        n += 1
            # the iteration ends only when its iterator is exhausted or with an error: any other edge out of
            # the loop (a `break` left over from an inner loop, say) stops the validator after the first
            # block / file that reached it
            n += _loop_exits_ok(ctx, out, rule, name, body, cfg, h, blocks, kind)
            if kind != "blocks":
                continue
            # a block without the attribute continues (does not leave the loop)
            region = None
            for x in blocks:
                t = body.blocks[x]["term"]
                if t and t["k"] == "call" and callee_matches(t, r"HashMap::<K, V, S, A>::(get|contains_key)$") and cfg.innermost_loop(x) == h:
                    from rules import util as U
                    k = U.const_val(ctx, body, t["args"][1]) if len(t["args"]) > 1 else None
                    if k != attr:
                        continue
                    succ = cfg.succ[x]
                    if not succ:
                        continue
                    sw = succ[0]
                    tt = body.blocks[sw]["term"]
                    if not tt or tt["k"] != "switch":
                        continue
                    arms = U.switch_arms(body, sw)
                    is_get = callee_name(t).endswith("::get")
                    missing = arms.get(0, arms["otherwise"]) if is_get or True else None
                    # find the driving next() block of this loop for the iteration region
                    nb = [y for y in blocks if body.blocks[y]["term"] and body.blocks[y]["term"]["k"] == "call" and callee_matches(body.blocks[y]["term"], r"Iterator>?::next$") and cfg.innermost_loop(y) == h]
                    if not nb:
                        continue
                    reg = U.iter_region(body, nb[0]) | set(blocks)
                    okc, r = U.continue_only(cfg, missing, reg, h)
                    if okc:
                        n += 1
                    else:
                        out.viol(rule, "%s|%s|missing-attr-not-continue" % (rule, name), ctx.where(body, t["span"]),
                                 "a block without `%s` does not simply continue with the next block of the file: blocks after it would not be validated" % attr)
    if "blocks" not in kinds:
        # the floor below could be met by the file loop alone: a reading in which the per-block iteration is
        # not a loop (a pipeline ending in `collect`, say) decides nothing about it
        out.viol(rule, "%s|%s|no-block-loop" % (rule, name), "-", "no per-block loop found in this reading of the `%s` validator: whether every block is visited cannot be decided on it" % name)
    out.inst(rule + "." + name, n, 2, note="block/file loops iterate the collections directly; missing attribute -> continue")


def _err_blocks(body):
    """blocks that produce the function's Err / residual return value"""
    eb = set()
    for bi, j, s in body.assigns():
        rv = s["rv"]
        if s["lhs"]["l"] == 0 and rv["k"] == "agg" and rv.get("variant") in ("Err",):
            eb.add(bi)
    for bi, t in body.calls():
        if callee_matches(t, r"FromResidual<.*>>?::from_residual$|FromResidual::from_residual$") and t["dest"]["l"] == 0:
            eb.add(bi)
    return eb


def _error_edge(ctx, body, cfg, x, y, h, enclosing):
    """The edge x -> y leaves the loop on the `Err` / `None` arm of a test of a Result / Option, and with that
    value every feasible continuation ends in an error return (path-sensitive constant propagation from y): the
    way `try_for_each(|..| -> Result)` and `?` inside an expanded pipeline leave a loop. Statically the `?` that
    follows has an Ok arm too - but not for this value."""
    from engine import casewalk as CW
    tt = body.blocks[x]["term"]
    if not tt or tt["k"] != "switch":
        return False
    from rules import util as U
    sp = U.op_place(tt["op"])
    if sp is None or sp["p"]:
        return False
    src = None
    for s in body.blocks[x]["stmts"]:
        if s["k"] == "assign" and s["lhs"] == {"l": sp["l"], "p": []} and s["rv"]["k"] == "discr" and not s["rv"]["place"]["p"]:
            src = s["rv"]["place"]["l"]
    if src is None:
        return False
    ty = body.local_ty(src) or ""
    vals = [v for v, tg in zip(tt["vals"], tt["targets"]) if tg == y]
    if ty.startswith("std::result::Result<"):
        if vals != [1] and not (not vals and tt["otherwise"] == y and tt["vals"] == [0]):
            return False
        val = CW.adt("std::result::Result", "Err", 1, [("0", CW.sym("ERROR"))])
    elif ty.startswith("std::option::Option<"):
        if vals != [0] and not (not vals and tt["otherwise"] == y and tt["vals"] == [1]):
            return False
        val = CW.adt("std::option::Option", "None", 0, [])
    else:
        return False
    w = CW.Walk(ctx, body, [CW.std_hooks()], max_states=8000)
    outcome = {"ok": False, "loop": False}

    def on_visit(bb, env):
        tm = body.blocks[bb]["term"]
        if tm and tm["k"] == "return":
            r0 = env.get(0, CW.TOP)
            if not (r0[0] == "adt" and r0[2] in ("Err", "None")):
                outcome["ok"] = True
        if bb == h or bb in enclosing:
            outcome["loop"] = True
    w.on_visit = on_visit
    try:
        w.explore(y, {src: val})
    except CW.Limit:
        return False
    return not outcome["ok"] and not outcome["loop"]


def _loop_exits_ok(ctx, out, rule, name, body, cfg, h, blocks, kind):
    from rules import util as U
    if body.blocks[h].get("lazy_inner"):
        # the inner pull loop of a lazily consumed `flat_map`: handing an item to the consumer's body is
        # not an exit of the iteration (the enclosing loop is the iteration and is checked as such)
        return 1
    nb = [y for y in blocks if body.blocks[y]["term"] and body.blocks[y]["term"]["k"] == "call" and callee_matches(body.blocks[y]["term"], r"Iterator>?::next$")]
    # the exhausted-iterator exits: None arms of the driving next() calls of this loop nest level
    none_targets = set()
    none_edges = set()      # the edges on which an exhausted iterator is left: only those are "exhaustion"
    for y in nb:
        succ = cfg.succ[y]
        if succ and body.blocks[succ[0]]["term"] and body.blocks[succ[0]]["term"]["k"] == "switch":
            arms = U.switch_arms(body, succ[0])
            tgt = arms.get(0, arms["otherwise"])
            none_targets.add(tgt)
            none_targets.add(U.skip_trivial(body, tgt))
            none_edges.add((succ[0], tgt))
            cur = tgt
            for _ in range(6):
                nx = cfg.succ[cur]
                tt = body.blocks[cur]["term"]
                if len(nx) != 1 or (tt and tt["k"] == "call"):
                    break
                none_edges.add((cur, nx[0]))
                cur = nx[0]
    eb = _err_blocks(body)
    bset = set(blocks)
    bad = None
    for x in blocks:
        for y in cfg.succ[x]:
            if y in bset or (y in none_targets and (x, y) in none_edges):
                continue
            # (a pipeline stage that gives up - `map_while` / `take_while` returning None - is expanded into a
            # jump to the same block as the exhausted base iterator: it is an exit like any other)
            # an exit that is not the exhausted-iterator exit: fine iff it can only end in an error return
            r = cfg.reach(y, avoid=eb)
            normal = [z for z in r if z in cfg.exits] or [z for z in r if z == h]
            # leaving through a block that sets the error first is handled by `avoid`; reaching a return
            # (or an enclosing loop's next iteration) without passing an error producer is a break
            enclosing = [H for H, HB in cfg.loops().items() if H != h and bset < set(HB)]
            # a lazily pulled pipeline hands each item to the loop body and is resumed afterwards: an edge
            # from which this loop's head is reached again before the enclosing iteration advances is not
            # an exit of the iteration
            if enclosing and h in cfg.reach(y, avoid=set(enclosing) | eb):
                continue
            if normal or any(H in r for H in enclosing):
                # the exit edge of an inner exhausted iterator (nested pull loops) is not a break
                if x in eb:
                    continue
                if _error_edge(ctx, body, cfg, x, y, h, enclosing):
                    continue
                bad = (x, y)
    if bad:
        sp = body.blocks[bad[0]]["term"].get("span") if body.blocks[bad[0]]["term"] else None
        out.viol(rule, "%s|%s|break|%s" % (rule, name, kind), ctx.where(body, sp),
                 "the %s loop of the `%s` validator can be left early without an error (a `break` / early exit): the %s after the one that reached it are never checked, so their violations (and malformed rules) go unreported" % (
                     kind, name, "blocks of the file" if kind == "blocks" else "files"))
        return 0
    return 1


WORK_ITEMS = re.compile(r"unidiff::(PatchedFile|Hunk|Line)\b|blockwatch::blocks::(Block|BlockWithContext|FileBlocks)\b|blockwatch::language_parsers::Comment\b|blockwatch::tag_parser::\w+|blockwatch::validators::Violation\b|dyn blockwatch::validators::\w+|tree_sitter::(Node|QueryMatch|QueryCapture)\b")


def sh_traverse(ctx, out, rule="SH.traverse", bodies=None):
    """Traversals of the work collections are complete: no truncating iterator adaptor (take_while,
    map_while, take, skip, step_by, find, position, ...) is applied to an iterator over the diff's
    files / hunks / lines, the comments, tags, blocks, validators or violations. (Ordered searches over
    `LineChange` lists are the one legitimate use; C01.search decides their monotonicity.)"""
    n = 0
    sites = []
    for b in (bodies or ctx.reachable_bodies()):
        if b.promoted is not None:
            continue
        for bi, t in b.calls():
            nm = callee_name(t)
            if not re.search(r"Iterator>?::\w+$|Itertools::\w+$", nm):
                continue
            it = (t.get("arg_tys") or [""])[0]
            if not WORK_ITEMS.search(it):
                continue
            n += 1
            if TRUNCATING.search(nm) or re.search(r"Itertools::(take_while_ref|take_while_inclusive|dedup|unique|dedup_by|unique_by)$", nm):
                m = WORK_ITEMS.search(it).group(0)
                out.viol(rule, "%s|%s|%s|%s" % (rule, b.id, nm.split("::")[-1], m.split("::")[-1]), ctx.where(b, t["span"]),
                         "`%s` is applied to an iterator over `%s`: the traversal can stop early or skip elements, so some files / blocks / lines are never examined (depending on their order)" % (nm.split("::")[-1], m))
            elif len(sites) < 6:
                sites.append("%s:%s" % (b.name, nm.split("::")[-1]))
    out.inst(rule, n, 40, sites, note="iterator adaptor calls over work collections, none truncating")


# -------------------------------------------------------------------------------------------------
# SH.units — character counts never stand in for byte offsets (engine.units, A14)
# -------------------------------------------------------------------------------------------------
def sh_units(ctx, out, rule="SH.units", floor=20):
    """Crate-wide: no value counted in characters (count()/position()/enumerate() over chars()) is
    used as a bound of a `str` slice or added to / subtracted from a byte quantity (str::len, find,
    pointer differences). Every column, offset and slice bound in blockwatch is a byte offset; the
    two units coincide on ASCII text only, which is all the test-suite contains."""
    from engine.units import Units, ENUM_CHARS_TY, CHARS_TY
    examined = 0
    seeds = 0
    samples = []
    seen = set()
    bodies = [b for b in ctx.facts.bodies.values() if not b.is_derive()]
    # closures handed to a method of an Enumerate<Chars> iterator: their item parameter
    item_params = {}
    for b in bodies:
        for bi, t in b.calls():
            if len(t["args"]) < 2:
                continue
            pl0 = t["args"][0].get("c") or t["args"][0].get("m")
            if pl0 is None:
                continue
            ty0 = b.locals[pl0["l"]].get("ty") or ""
            if not ENUM_CHARS_TY.search(ty0) or "CharIndices" in ty0:
                continue
            for a in t["args"][1:]:
                pl = a.get("c") or a.get("m")
                if pl is None:
                    continue
                adt = b.locals[pl["l"]].get("adt")
                cb = ctx.facts.body(adt) if adt else None
                if cb is not None and cb.kind == "Closure":
                    item_params.setdefault(cb.id, set()).add(2)
    # closures handed to a method of a plain `Chars` iterator: called once per character
    per_char = set()
    for b in bodies:
        for bi, t in b.calls():
            if len(t["args"]) < 2 or not re.search(r"Iterator::(fold|try_fold|for_each|try_for_each|map|scan|inspect|filter_map|flat_map)$", t.get("def") or ""):
                continue
            pl0 = t["args"][0].get("c") or t["args"][0].get("m")
            ty0 = (b.locals[pl0["l"]].get("ty") or "") if pl0 is not None else ""
            if not CHARS_TY.search(ty0) or "CharIndices" in ty0 or "Enumerate" in ty0:
                continue
            for a in t["args"][1:]:
                pl = a.get("c") or a.get("m")
                adt = b.locals[pl["l"]].get("adt") if pl is not None else None
                cb = ctx.facts.body(adt) if adt else None
                if cb is not None and cb.kind == "Closure":
                    per_char.add(cb.id)
    for b in bodies:
        views = [(b, item_params.get(b.id, ()))]
        if any(CHARS_TY.search(l.get("ty") or "") for l in b.locals) and b.kind != "Closure":
            v = ctx.inl(b, skip=ctx.domain_api, tag="domain", sugar=True)
            if v is not b:
                views.append((v, ()))
        for v, items in views:
            u = Units(ctx, v, items, per_char=(v is b and b.id in per_char))
            seeds += len(u.seeds)
            found, n = u.sinks()
            if v is b:
                examined += n
            for kind, bi, span, why in found:
                where = ctx.where(v, span)
                key = "%s|%s|%s" % (rule, b.id, kind)
                if key in seen:
                    continue
                seen.add(key)
                src = "%s at %s" % (why[2], ctx.where(v, why[1]))
                if kind == "position-column":
                    out.viol(rule, key, where, "the column of a reported position is counted in characters (%s): every column blockwatch reports is a byte column, so the position falls short of the text it is about by one for every multi-byte character before it on the line" % src)
                elif kind == "str-index":
                    out.viol(rule, key, where, "a `str` is sliced / split at an index counted in characters (%s): byte offsets and character counts differ as soon as a multi-byte character precedes the position — the slice starts at the wrong place or panics inside a character" % src)
                else:
                    out.viol(rule, key, where, "a character count (%s) is added to / subtracted from a byte quantity: the result is neither; every column and offset blockwatch reports is in bytes" % src)
            if len(samples) < 4 and u.seeds and v is b:
                samples.append(ctx.where(b, u.seeds[0][1]))
    out.inst(rule, examined, floor, samples,
             note="str slice/split sites and +/- sites over unit-carrying values examined; %d character-count source(s) in the crate" % seeds)


# -------------------------------------------------------------------------------------------------
# SH.flags — only the drift validator consults the modification flags
# -------------------------------------------------------------------------------------------------
FLAG_FIELDS = ("is_content_modified", "_is_start_tag_modified", "is_start_tag_modified")


def sh_flags(ctx, out, name, rule):
    """Which blocks are validated is decided once, by the selection (C02); a rule validator (sort, unique,
    pattern, count, Lua, AI) judges every block it is handed: its code reads `BlockWithContext.block`
    and never the modification flags."""
    from rules import util as U
    n = 0
    region = ctx.validator_bodies(name)
    for b in region:
        if not ("blockwatch::validators::" in b.id):
            continue
        if b.id.startswith("blockwatch::validators::affects") or b.id.startswith("<blockwatch::validators::affects"):
            continue
        seen = set()
        for bi, span, pl in U.all_places(b):
            for e in pl["p"]:
                if isinstance(e, dict) and e.get("f") in FLAG_FIELDS and e["f"] not in seen:
                    seen.add(e["f"])
                    out.viol(rule, "%s|%s|%s" % (rule, name, e["f"]), ctx.where(b, span),
                             "the `%s` validator reads the modification flag `%s`: whether a block is checked then depends on which of its lines the diff touched, so a block selected because its start tag (the rule itself) changed, or by a glob, can pass although its content violates the rule" % (name, e["f"]))
                elif isinstance(e, dict) and e.get("f") == "block":
                    n += 1
    out.inst(rule, n, 1, note="reads of BlockWithContext.block in the validator's code; reads of the modification flags must be 0")


def run_renamed(out, fn, old, new):
    """Runs a rule function of another property on a trial outcome and adopts it under this
    property's rule names (`old.` prefix -> `new.`): shared necessary conditions are reported per property."""
    tr = out.trial()
    fn(tr)
    for v in tr.violations:
        out.viol(v["rule"].replace(old + ".", new + ".", 1) if v["rule"].startswith(old + ".") else v["rule"],
                 v["key"].replace(old + ".", new + ".", 1) if v["key"].startswith(old + ".") else v["key"], v["where"], v["msg"].replace("rule " + old + ".", "rule " + new + "."))
    for r, d in tr.rules.items():
        out.rules[r.replace(old + ".", new + ".", 1) if r.startswith(old + ".") else r] = d
    out.notes.extend(tr.notes)
    out.exceptions_used.extend(tr.exceptions_used)


def detect_cases_verdict(ctx, name):
    """True: the detector of `name` was followed on all 8 cases of the small model and fires exactly as expected;
    False: it was followed and does not; None: the model could not follow it."""
    key = "_detect_verdict_" + name
    if key not in ctx.__dict__:
        from engine.core import Out
        o = Out("detectcase")
        try:
            check_detect_cases(ctx, o, [name], "X.detectcase")
            r = o.rules.get("X.detectcase", {})
            if o.violations:
                ctx.__dict__[key] = False
            elif r.get("found") == 8:
                ctx.__dict__[key] = True
            else:
                ctx.__dict__[key] = None
        except Exception:       # noqa: BLE001
            ctx.__dict__[key] = None
    return ctx.__dict__[key]


def detector_region(ctx, name):
    """The code a detector can run: its `detect` with callees, plus - for a data-driven detector - the functions
    held in the detector value's fields (`new_validator: fn() -> ValidatorType`)."""
    info = ctx.validator(name) or {}
    det = ctx.facts.bodies.get(info.get("detect") or "")
    bodies = list(ctx.region(det)) if det is not None else []
    dself = info.get("detect_self")

    def fns(v):
        if isinstance(v, tuple):
            if len(v) == 2 and v[0] == "fn" and isinstance(v[1], str):
                yield v[1]
            for x in v:
                for y in fns(x):
                    yield y
    for fid in set(fns(dself)) if dself is not None else ():
        fb = ctx.facts.body(fid)
        if fb is not None:
            bodies.extend(ctx.region(fb))
    if info.get("detect_subst"):
        # a blanket impl: the methods of the detector type's own impl of the small trait
        for imp in ctx.facts.impls:
            if imp.get("self_ty") in info["detect_subst"].values() or imp.get("self_adt") in info["detect_subst"].values():
                for m in imp.get("methods", []):
                    mb = ctx.facts.body(m.get("def") or "")
                    if mb is not None:
                        bodies.extend(ctx.region(mb))
    seen = set()
    return [b for b in bodies if not (b.id in seen or seen.add(b.id))]


def check_detect_cases(ctx, out, names, rule):
    """A validator exists only if its detector fires on some block, so which blocks fire it is part of every
    rule's behaviour: a block carrying the attribute - with any value, the empty and the blank one included -
    fires the detector (the `affects` detector besides requires modified content), a block without it does not,
    and nothing else about the block matters. Decided on a small model (engine.casewalk + strmodel): the
    detector's MIR, with crate-local helpers inlined, is walked for {attribute absent, "", "  ", "x"} x
    {content modified or not}; lookups of the attribute map are answered from the case, every other attribute
    is absent. A detector the model cannot follow gives no verdict here (the structural readings of C14.names
    and C01.guard remain)."""
    from engine import casewalk as CW
    from engine import strmodel as SM
    from engine import listmodel as LM
    std = CW.std_hooks()
    sm = SM.hooks()
    lmh = LM.hooks()
    vals = ctx.roles().get("validators", {})
    n = 0
    total = 0
    samples = []
    bwc = ctx.facts.adts.get("blockwatch::blocks::BlockWithContext") or {}
    flag_fields = [f["name"] for v in bwc.get("variants", [])[:1] for f in v.get("fields", []) if f["ty"] == "bool"]
    for name in names:
        info = vals.get(name) or {}
        det0 = ctx.facts.bodies.get(info.get("detect") or "")
        if det0 is None or det0.argc != 2:
            continue
        # (a data-driven detector is walked on its own value; a blanket impl is instantiated for the detector's type)
        dself = info.get("detect_self")
        v = ctx.inl(det0, skip=lambda cb: False, tag="all-sugar", sugar=True, subst=info.get("detect_subst"))
        undecided = False
        for value in (None, "", "  ", "x"):
            for modified in (0, 1):
                results = set()

                def hook(w, bb, t, argv, env, value=value):
                    nm = callee_name(t)
                    if re.search(r"HashMap::<K, V, S, A>::(get|contains_key)$", nm) and len(argv) > 1:
                        k = w.deref_val(env, argv[1])
                        if not (CW.is_const(k) and isinstance(k[1], str)):
                            return None
                        hit = (k[1] == name and value is not None)
                        if nm.endswith("contains_key"):
                            return CW.const(1 if hit else 0)
                        return CW.adt("std::option::Option", "Some", 1, [("0", CW.const(value))]) if hit else CW.adt("std::option::Option", "None", 0, [])
                    r_ = sm(w, bb, t, argv, env)
                    if r_ is not None:
                        return r_
                    r_ = lmh(w, bb, t, argv, env)
                    if r_ is not None:
                        return r_
                    return std(w, bb, t, argv, env)
                w = CW.Walk(ctx, v, [hook], max_states=6000)

                def on_visit(bb, env):
                    tm = v.blocks[bb]["term"]
                    if tm and tm["k"] == "return":
                        r0 = env.get(0, CW.TOP)
                        if r0[0] == "adt" and r0[2] == "Ok":
                            p0 = w.deref_val(env, w.field(r0, "0"))
                            results.add("fires" if (p0[0] == "adt" and p0[2] == "Some") else "silent" if (p0[0] == "adt" and p0[2] == "None") else "?")
                        elif r0[0] == "adt" and r0[2] == "Err":
                            results.add("error")
                        else:
                            results.add("?")
                w.on_visit = on_visit
                block = CW.adt("blockwatch::blocks::Block", "Block", 0, [("attributes", CW.sym("ATTRS"))])
                fields = [("block", block)] + [(f, CW.const(modified)) for f in flag_fields]
                env = {-9: CW.adt("blockwatch::blocks::BlockWithContext", "BlockWithContext", 0, fields), 2: ("ref", -9, (), False)}
                if dself is not None:
                    env[-8] = dself
                    env[1] = ("ref", -8, (), False)
                try:
                    w.explore(0, env)
                except CW.Limit:
                    results = {"?"}
                if "?" in results or not results:
                    undecided = True
                    continue
                total += 1
                want = "fires" if (value is not None and (name != "affects" or modified)) else "silent"
                if results == {want}:
                    n += 1
                else:
                    out.viol(rule, "%s|%s|%s|%s" % (rule, name, "absent" if value is None else repr(value), "modified" if modified else "unmodified"), ctx.where(det0),
                             "the `%s` detector, asked about a block %s whose content is %s: %s; expected: %s - a validator that is not created cannot report anything, a malformed (empty, blank) attribute included, and one that is created for other blocks runs where its rule was not asked for" % (
                                 name, "without the attribute" if value is None else "with %s=%r" % (name, value), "modified" if modified else "not modified",
                                 " / ".join(sorted(results)), want))
        if undecided:
            out.note("%s: the `%s` detector could not be followed on every case of the small model" % (rule, name))
        else:
            samples.append("%s: 8 cases" % name)
    out.inst(rule, n, 0, samples, note="%d of %d decided detector cases as expected ({absent, \"\", blank, value} x {modified, not})" % (n, total), exhaustive=True)


STRING_BUILDING = r"<impl str>::(trim\w*|strip_\w+|to_\w+case|to_lowercase|to_uppercase|replace\w*|split\w*|get|lines|chars|repeat|escape_\w+)$|Index<.*> for str>::index$|string::String::(push\w*|insert\w*|truncate|remove|replace_range|retain|drain)$|alloc::fmt::format|fmt::Arguments::<'a>::new\w*|regex::escape$|Cow<.*>::(into_owned|to_mut)$|ops::Add<&str>>::add$|<impl \\[T\\]>::(concat|join)$|Concat<str>>::concat$|Join<&str>>::join$"


def check_raw_patterns(ctx, out, rule):
    """A user's regular expression is compiled as written: at every `Regex::new` reachable from the validators the
    pattern text has not passed through a call that builds or changes a string (`format!`, concatenation, `trim`,
    `replace`, an escape, a slice). Wrapping or editing the text changes which patterns are malformed (a wrapper's
    own parentheses re-balance `a)|(b`) and what a well-formed one matches."""
    n = 0
    for b in ctx.reachable_bodies():
        if b.promoted is not None or not (b.id.startswith("blockwatch::validators") or "blockwatch::validators::" in b.id):
            continue
        for bi, t in b.calls():
            if not callee_matches(t, r"^regex::Regex::new$|^regex::RegexBuilder::new$") or not t["args"]:
                continue
            la = ctx.prov.resolve_upvars(b, ctx.prov.read_operand(b, t["args"][0]))
            calls = sorted({l[1].split("::")[-1] for l in la if l[0] == "call" and re.search(STRING_BUILDING, l[1])})
            if calls:
                out.viol(rule, "%s|%s" % (rule, b.id), ctx.where(b, t["span"]),
                         "a regular expression is compiled from text that went through `%s`: the user's pattern is no longer judged (malformed or not) and matched as written" % "`, `".join(calls[:4]))
            else:
                n += 1
    out.inst(rule, n, 4, note="Regex::new sites in the validators: the pattern is the attribute's text, unchanged")
