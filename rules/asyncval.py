"""Rules shared by the two async validators (check-lua, check-ai): one task per block, every joined
result reaches the diagnostics map, failures leave the collector with Err, content selection."""
import re

from engine.cfg import cfg_of
from engine.expr import render, walk, find_calls
from engine.facts import callee_name, callee_matches
from engine import prov as P
from rules import shared, util
from rules.C12 import only_err_from


def validate_coroutine(ctx, name):
    """The async block of `validate` (async_trait wraps it in a boxed future)."""
    vb = ctx.validate_body(name)
    if vb is None:
        return None, None
    def spawns(x):
        return any(callee_matches(t, r"tokio::task::JoinSet::<T>::spawn$") for bi, t in x.calls())
    cands = []
    for b in ctx.facts.with_descendants(vb):
        if spawns(b):
            # the spawn may sit in a closure of the coroutine (`..try_for_each(|..| { tasks.spawn(..) })`): the
            # body to read is the enclosing coroutine, where the pipeline is expanded around it
            top = b
            while top.kind == "Closure" and not top.coroutine and top.parent and ctx.facts.body(top.parent) is not None:
                top = ctx.facts.body(top.parent)
            if top.id not in [c.id for c in cands]:
                cands.append(top)
    for b in cands:
        # normalised view: block selection written as a pipeline reads like the `if let … else continue`
        return vb, ctx.inl(b, skip=ctx.domain_api, tag="domain", sugar=True)
    return vb, None


def spawned_tasks(ctx, name):
    """The coroutine bodies handed to `JoinSet::spawn` by validator `name` (an async block, or the body of an
    `async fn` / async method whose future is spawned)."""
    vb, co = validate_coroutine(ctx, name)
    out = []
    if co is None:
        return out
    E = ctx.expr(co)
    for bi, t in co.calls():
        if not callee_matches(t, r"tokio::task::JoinSet::<T>::spawn(_local|_on|_blocking)?$") or len(t["args"]) < 2:
            continue
        te = E.operand(t["args"][1])
        task = None
        for x in walk(te):
            if x[0] == "agg" and (str(x[1]).startswith("closure:") or str(x[1]).startswith("coroutine:")):
                tb = ctx.facts.body(str(x[1]).split(":", 1)[1])
                if tb is not None and tb.coroutine:
                    task = tb
        if task is None and te[0] == "call":
            cand = ctx.facts.body(te[1]) if isinstance(te[1], str) else None
            for c in ([cand] if cand is not None else [c for c in ctx.facts.bodies.values() if c.promoted is None and c.kind in ("Fn", "AssocFn") and c.id.endswith(str(te[1]).split("::")[-1])]):
                for bi2, j2, s2 in c.assigns():
                    if s2["rv"]["k"] == "agg" and s2["rv"].get("agg") in ("coroutine", "closure") and s2["lhs"]["l"] == 0:
                        tb = ctx.facts.body(s2["rv"]["path"])
                        if tb is not None and tb.coroutine:
                            task = tb
        if task is not None and task not in out:
            out.append(task)
    return out


def check_once(ctx, out, prefix, name, per_task_call_rx, per_task_what, per_task_alt=None):
    """One spawn per block with the attribute; the task calls the per-block operation once."""
    vb, co = validate_coroutine(ctx, name)
    rule = prefix + ".once"
    n = 0
    if co is None:
        out.inst(rule, 0, 4, note="validate coroutine with JoinSet::spawn not found")
        return None
    cfg = cfg_of(co)
    spawns = [(bi, t) for bi, t in co.calls() if callee_matches(t, r"tokio::task::JoinSet::<T>::spawn(_local|_on|_blocking)?$")]
    if len(spawns) != 1:
        out.viol(rule, "%s|spawn-count" % rule, ctx.where(co), "expected exactly one task spawn site per block loop, found %d" % len(spawns))
        out.inst(rule, 0, 4)
        return None
    sbi, st = spawns[0]
    loops = shared.outer_block_loops(ctx, co)
    block_loops = [(h, bl) for h, bl, kind in loops if kind == "blocks"]
    if block_loops and any(sbi in bl for h, bl in block_loops):
        n += 1
    else:
        out.viol(rule, "%s|spawn-outside-block-loop" % rule, ctx.where(co, st["span"]), "the task spawn is not inside the per-block loop")
    # no inner loop between the block loop and the spawn (one spawn per block)
    inner = [h for h in cfg.loops_containing(sbi)]
    if set(inner) == {h for h, bl, kind in loops if sbi in bl} and {kind for h, bl, kind in loops if sbi in bl} == {"files", "blocks"}:
        n += 1
    else:
        out.viol(rule, "%s|spawn-nesting" % rule, ctx.where(co, st["span"]), "the spawn is nested in %d loops; expected the file loop and the block loop only (one task per block)" % len(inner))
    # guarded by the attribute being present (and non-empty)
    gs = util.guard_texts(ctx, co, sbi)
    has_attr = any(re.search(r"HashMap::(get|contains_key)\(.*'%s'\)" % re.escape(name), g[2]) and "0" not in g[1] for g in gs)
    nonempty = any(re.search(r"is_empty\(str::trim\(", g[2]) and g[1] == ["0"] for g in gs)
    if has_attr and nonempty:
        n += 1
    else:
        out.viol(rule, "%s|spawn-guard" % rule, ctx.where(co, st["span"]),
                 "a task is spawned on a path not guarded by `attributes.get(\"%s\")` being present with a non-empty value (guards: %s)" % (name, [(g[2][:60], g[1]) for g in gs[:4]]))
    # the task body
    E = ctx.expr(co)
    te = E.operand(st["args"][1])
    task = None
    for x in walk(te):
        if x[0] == "agg" and x[1].startswith("closure:"):
            task = ctx.facts.body(x[1][8:])
    if task is None and te[0] == "call":
        # `tasks.spawn(check_one(args..))`: the future of an async fn of the crate - its body is the task
        for cand in [c for c in ctx.facts.bodies.values() if c.promoted is None and c.kind in ("Fn", "AssocFn")]:
            if te[1].endswith(cand.id.split("::")[-1]) and (te[1] == cand.id or cand.id.endswith(te[1].split("::")[-1])):
                for bi2, j2, s2 in cand.assigns():
                    if s2["rv"]["k"] == "agg" and s2["rv"].get("agg") in ("coroutine", "closure") and s2["lhs"]["l"] == 0:
                        tb = ctx.facts.body(s2["rv"]["path"])
                        if tb is not None and tb.coroutine:
                            task = tb
    if task is None:
        out.viol(rule, "%s|task-body" % rule, ctx.where(co, st["span"]), "the spawned future is not an async block of the validator")
        out.inst(rule, n, 4)
        return co
    tcfg = cfg_of(task)
    calls = [(bi, t) for bi, t in task.calls() if callee_matches(t, per_task_call_rx)]
    if len(calls) == 1 and not tcfg.loops_containing(calls[0][0]):
        n += 1
    elif not calls and per_task_alt is not None and per_task_alt(task):
        # the operation is reached through other functions than the one named: counted on the task's
        # normalised view by the caller
        n += 1
    else:
        in_loop = [1 for bi, t in calls if tcfg.loops_containing(bi)]
        out.viol(rule, "%s|per-task-call" % rule, ctx.where(task),
                 "the task performs %s %d time(s)%s; expected exactly once per block" % (per_task_what, len(calls), " (inside a loop)" if in_loop else ""))
    out.inst(rule, n, 4, ["one spawn per block with `%s`; task -> one %s" % (name, per_task_what)])
    return co, task, calls


def check_collector(ctx, out, prefix, name):
    """Every join_next result reaches the diagnostics map; the join loop ends only on None or Err."""
    vb, co = validate_coroutine(ctx, name)
    rule = prefix + ".collect"
    if co is None:
        out.inst(rule, 0, 3)
        return
    cfg = cfg_of(co)
    joins = [(bi, t) for bi, t in co.calls() if callee_matches(t, r"tokio::task::JoinSet::<T>::(join_next|try_join_next|join_next_with_id|join_all)$")]
    pushes = util.violation_push_sites(co)
    n = 0
    if not joins:
        out.viol(rule, "%s|no-join" % rule, ctx.where(co), "the spawned tasks are never joined: their diagnostics and errors are lost")
    join_bbs = {bi for bi, t in joins}
    for bi, t in joins:
        h = cfg.innermost_loop(bi)
        avoid = (join_bbs - {bi}) | ({h} if h is not None else set())
        r = cfg.reach(bi, avoid=avoid)
        mine = [p for p in pushes if p[0] in r]
        # the pushed violation derives from this join
        ok = False
        for pb, pt in mine:
            labs = ctx.prov.read_operand(co, pt["args"][1])
            if P.has_call(labs, r"JoinSet::<T>::join_next"):
                ok = True
        if ok:
            n += 1
        else:
            out.viol(rule, "%s|dropped-result" % rule, ctx.where(co, t["span"]),
                     "the result of this `join_next` never reaches the diagnostics map: a violation produced by a task joined here is silently dropped")
        if h is None:
            out.viol(rule, "%s|single-join" % rule, ctx.where(co, t["span"]), "`join_next` is not in a loop: only the first finished task is collected")
            continue
        # loop exits: None (normal) or return Err
        region = util.iter_region(co, bi) | cfg.loops()[h]
        for x, y in util.loop_exits(co, cfg, cfg.loops()[h]):
            tt = co.blocks[x]["term"]
            if tt["k"] == "switch":
                e = util.switch_operand_expr(ctx, co, x)
                txt = render(e, 3000)
                okexit = False
                # the None arm of the joined Option
                if e[0] == "discr" and "join_next" in txt and "Ready" in txt and not re.search(r"as:Some", txt.split("join_next")[-1]):
                    arms = util.switch_arms(co, x)
                    if arms.get(0, arms["otherwise"]) == y or util.skip_trivial(co, arms.get(0, arms["otherwise"])) == util.skip_trivial(co, y):
                        okexit = True
                if not okexit:
                    okerr, rr = only_err_from(ctx, co, y)
                    if okerr:
                        okexit = True
                if not okexit:
                    out.viol(rule, "%s|early-exit" % rule, ctx.where(co),
                             "the join loop can be left on `%s` without returning Err: tasks still running are never collected, so a later failure is masked" % txt[:120])
        n += 1
    # spawn loop must not consume results (bounded concurrency that drops them is caught above); after
    # the join loop, the map is returned
    out.inst(rule, n, 2, ["while let Some(r) = tasks.join_next().await { Ok(Some)->push | Ok(None)->continue | Err->return }"])


def content_selector_model(ctx, out, prefix, fn_body, pattern_key):
    """The content selector on a small model (engine.casewalk + strmodel): for the pattern attribute {absent,
    "", "p"} x the regex's outcome on the content {no match, a match without a `value` group, a match with one}
    the function is walked and what it returns is compared with the documented selection: without the attribute
    the trimmed content; with it - whatever its value, the empty one included: an empty pattern is a pattern -
    the `value` group, else the whole first match, else "", of the content as it is in the file.
    True / False if decided, None if the model cannot follow the code."""
    from engine import casewalk as CW
    from engine import strmodel as SM
    rule = prefix + ".content"
    std = CW.std_hooks()
    sm = SM.hooks()
    v = ctx.inl(fn_body, skip=lambda cb: cb.id == "blockwatch::blocks::Block::content", tag="selector-model", sugar=True)
    pfile = [i for i in range(1, v.argc + 1) if re.match(r"&('\w+ )?str$", v.local_ty(i))]
    if len(pfile) != 1:
        return None
    n = 0
    total = 0
    bad = []
    for pat in (None, "", "p"):
        for outcome in ("none", "whole", "value"):
            if pat is None and outcome != "none":
                continue
            results = set()
            seen_input = []

            def hook(w, bb, t, argv, env, pat=pat, outcome=outcome):
                nm = callee_name(t)
                a0 = w.deref_val(env, argv[0]) if argv else CW.TOP
                if re.search(r"HashMap::<K, V, S, A>::(get|contains_key)$", nm) and len(argv) > 1:
                    k = w.deref_val(env, argv[1])
                    if not (CW.is_const(k) and isinstance(k[1], str)):
                        return None
                    hit = (k[1] == pattern_key and pat is not None)
                    if nm.endswith("contains_key"):
                        return CW.const(1 if hit else 0)
                    return CW.adt("std::option::Option", "Some", 1, [("0", CW.const(pat))]) if hit else CW.adt("std::option::Option", "None", 0, [])
                if re.search(r"blocks::Block::content$", nm):
                    return CW.sym("CONTENT")
                if re.search(r"<impl str>::trim$", nm) and a0 == CW.sym("CONTENT"):
                    return CW.sym("TRIMMED")
                if re.search(r"regex::Regex::new$", nm) and argv:
                    return CW.adt("std::result::Result", "Ok", 0, [("0", CW.sym("RE", a0))])
                if re.search(r"anyhow::Context.*::(context|with_context)$|result::Result::<T, E>::map_err$", nm) and a0[0] == "adt":
                    return a0
                if re.search(r"regex::Regex::(captures|find)$", nm) and len(argv) > 1:
                    seen_input.append(w.deref_val(env, argv[1]))
                    if outcome == "none":
                        return CW.adt("std::option::Option", "None", 0, [])
                    if nm.endswith("find"):
                        return CW.adt("std::option::Option", "Some", 1, [("0", CW.sym("M", "whole"))])
                    return CW.adt("std::option::Option", "Some", 1, [("0", CW.sym("CAPS"))])
                if re.search(r"regex::Captures::<'h>::name$|regex::Captures::name$", nm) and len(argv) > 1:
                    k = w.deref_val(env, argv[1])
                    if CW.is_const(k) and k[1] == "value" and outcome == "value":
                        return CW.adt("std::option::Option", "Some", 1, [("0", CW.sym("M", "value"))])
                    return CW.adt("std::option::Option", "None", 0, [])
                if re.search(r"regex::Captures::<'h>::get$|regex::Captures::get$", nm) and len(argv) > 1:
                    k = w.deref_val(env, argv[1])
                    if CW.is_const(k) and k[1] == 0:
                        return CW.adt("std::option::Option", "Some", 1, [("0", CW.sym("M", "whole"))])
                    return CW.adt("std::option::Option", "None", 0, [])
                if re.search(r"regex::Match::<'h>::as_str$|regex::Match::as_str$", nm) and a0[0] == "sym" and a0[1] == "M":
                    return CW.sym("STR", a0[2])
                r_ = sm(w, bb, t, argv, env)
                if r_ is not None:
                    return r_
                return std(w, bb, t, argv, env)
            w = CW.Walk(ctx, v, [hook], max_states=8000)

            def on_visit(bb, env):
                tm = v.blocks[bb]["term"]
                if tm and tm["k"] == "return":
                    r0 = env.get(0, CW.TOP)
                    if r0[0] == "adt" and r0[2] == "Ok":
                        p0 = w.deref_val(env, w.field(r0, "0"))
                        if p0 == CW.sym("TRIMMED"):
                            results.add("trimmed content")
                        elif p0 == CW.sym("CONTENT"):
                            results.add("untrimmed content")
                        elif p0[0] == "sym" and p0[1] == "STR":
                            results.add("the %s" % ("`value` group" if p0[2] == "value" else "whole match"))
                        elif CW.is_const(p0) and p0[1] == "":
                            results.add("the empty string")
                        else:
                            results.add("?")
                    elif r0[0] == "adt" and r0[2] == "Err":
                        results.add("an error")
                    else:
                        results.add("?")
            w.on_visit = on_visit
            env = {pfile[0]: CW.sym("FILE")}
            try:
                w.explore(0, env)
            except CW.Limit:
                return None
            if not results or "?" in results:
                return None
            total += 1
            want = "trimmed content" if pat is None else {"none": "the empty string", "whole": "the whole match", "value": "the `value` group"}[outcome]
            if results != {want}:
                bad.append((pat, outcome, sorted(results), want))
            elif pat is not None and any(x != CW.sym("CONTENT") for x in seen_input):
                bad.append((pat, outcome, ["a match against something other than the content as it is in the file"], want))
            else:
                n += 1
    for pat, outcome, got, want in bad:
        out.viol(rule, "%s|model|%s|%s" % (rule, "absent" if pat is None else repr(pat), outcome), ctx.where(fn_body),
                 "content selection with %s and a regex that finds %s: the script / model is given %s; documented: %s" % (
                     "no `%s`" % pattern_key if pat is None else "%s=%r" % (pattern_key, pat),
                     {"none": "no match", "whole": "a match without a `value` group", "value": "a match with a `value` group"}[outcome], " / ".join(got), want))
    out.inst(rule, n, 7, ["%s: {absent, \"\", \"p\"} x {no match, whole, value}: trimmed content / value | whole | \"\" of the raw content" % fn_body.id], exhaustive=True)
    return not bad


def check_content_selector(ctx, out, prefix, fn_body, pattern_key):
    """With `<name>-pattern`: value group else whole match of the RAW content else ""; without: trim."""
    rule = prefix + ".content"
    n = 0
    b = fn_body
    if b is None:
        out.inst(rule, 0, 5, note="content selector not found")
        return
    # decided on the small model when it can follow the code; the structural reading below otherwise
    tr = out.trial()
    try:
        verdict = content_selector_model(ctx, tr, prefix, fn_body, pattern_key)
    except Exception as e:      # noqa: BLE001
        ctx.view_fallbacks.append("%s: small-model analysis failed (%s: %s)" % (rule, type(e).__name__, e))
        verdict = None
    if verdict is not None:
        out.adopt(tr)
        return
    if not getattr(b, "is_inlined", False):
        b = ctx.inl(b, skip=ctx.domain_api, tag="domain", sugar=True)
    cfg = cfg_of(b)
    E = ctx.expr(b)
    keys = [util.const_val(ctx, b, t["args"][1]) for bi, t in b.calls() if callee_matches(t, r"HashMap::<K, V, S, A>::get$")]
    if keys == [pattern_key]:
        n += 1
    else:
        out.viol(rule, "%s|pattern-key" % rule, ctx.where(b), "the content selector reads attribute(s) %s; expected `%s`" % (keys, pattern_key))
    caps = [(bi, t) for bi, t in b.calls() if callee_matches(t, r"regex::Regex::captures$")]
    if len(caps) == 1:
        labs = ctx.prov.read_operand(b, caps[0][1]["args"][1])
        tr = sorted({l[1].split("::")[-1] for l in labs if l[0] == "call" and re.search(r"trim|to_lowercase|replace|lines|split", l[1])})
        if P.has_call(labs, r"blocks::Block::content$") and not tr:
            n += 1
        else:
            out.viol(rule, "%s|pattern-input" % rule, ctx.where(b, caps[0][1]["span"]),
                     "the pattern is matched against the content after %s; documented: the `value` group or whole first match of the block's content (the pattern sees the content as it is in the file)" % (tr or "something other than Block::content"))
    else:
        out.viol(rule, "%s|captures" % rule, ctx.where(b), "expected one `Regex::captures` call, found %d" % len(caps))
    # group precedence
    from rules.C06 import check_regex_key
    labs0 = ctx.prov.read_local(b, 0, ("0",))
    n += check_regex_key(ctx, out, b, rule, labs0 | {("call", "regex::Match::as_str", ())} if P.has_call(labs0, r"Match(::<'h>)?::as_str$") else labs0)
    # the no-pattern branch: trim of the content
    ok = False
    for bi, t in b.calls():
        if callee_matches(t, r"<impl str>::trim$"):
            e = E.operand(t["args"][0])
            if find_calls(e, r"blocks::Block::content$"):
                gs = util.guard_texts(ctx, b, bi)
                if any("HashMap::get" in g[2] and "1" not in g[1] for g in gs):
                    ok = True
    if ok:
        n += 1
    else:
        out.viol(rule, "%s|no-pattern" % rule, ctx.where(b), "without a pattern the content is not `content.trim()`")
    # empty string when nothing matches
    empties = [1 for bi, j, s in b.assigns() if s["rv"]["k"] == "use" and util.const_of(ctx, s["rv"]["op"]) == ""]
    if empties:
        n += 1
    else:
        out.viol(rule, "%s|no-match" % rule, ctx.where(b), "no empty-string result for a pattern without a match")
    out.inst(rule, n, 7, ["%s: pattern -> value|whole|'' of raw content; else content.trim()" % b.id])


def features(ctx, b):
    f = []
    for x in ctx.facts.with_descendants(b):
        for bi, j, s in x.assigns():
            rv = s["rv"]
            if rv["k"] == "bin":
                f.append("bin:" + rv["op"])
            if rv["k"] == "use" and "k" in rv["op"]:
                v = util.const_of(ctx, rv["op"])
                if isinstance(v, (str, int)):
                    f.append("const:%r" % (v,))
        for bi, t in x.calls():
            f.append("call:" + callee_name(t).split("::")[-1])
            for a in t["args"]:
                v = util.const_of(ctx, a)
                if isinstance(v, str):
                    f.append("arg:%s" % v)
    return f


def check_sibling_selectors(ctx, out, rule="C18.siblings"):
    a = ctx.facts.body("blockwatch::validators::check_lua::block_content")
    b = ctx.facts.body("blockwatch::validators::check_ai::block_content")
    if a is None or b is None:
        out.inst(rule, 0, 1, note="the two content selectors were not found by name")
        return
    from collections import Counter
    norm = lambda f: Counter(re.sub(r"check-(lua|ai)", "check-X", x) for x in f)
    fa, fb = norm(features(ctx, a)), norm(features(ctx, b))
    if fa == fb:
        out.inst(rule, 1, 1, ["check-lua and check-ai content selectors agree modulo the attribute key"])
    else:
        out.viol(rule, "%s|drift" % rule, ctx.where(a), "the content selectors of check-lua and check-ai differ: only-lua %s, only-ai %s" % (dict(fa - fb), dict(fb - fa)))
        out.inst(rule, 0, 1)


ADAPTORS = r"Iterator::(filter|filter_map|skip|skip_while|take|take_while|map_while|step_by|rev|chain|flat_map|flatten|scan|peekable|dedup\w*|unique\w*|sorted\w*)$"


def check_index_alignment(ctx, out, rule, name):
    """A task finds its block again by index (`file_blocks.blocks_with_context[block_idx]`): the index
    captured at spawn time must count positions in that very vector - `iter().enumerate()` directly (or a zip
    with a counter over the direct iteration), not positions in a filtered / skipped / reversed sequence, in
    which case the task would look at another block (and panic on `attributes["..."]` when that one lacks the
    attribute)."""
    n = 0
    vb = ctx.validate_body(name)
    if vb is None:
        out.inst(rule, 0, 0)
        return
    region = []
    for b in list(ctx.facts.with_descendants(vb)) + list(ctx.validator_bodies(name)):
        for x in ctx.facts.with_descendants(b):
            if x not in region:
                region.append(x)
    spawners = {b.id for b in region if any(callee_matches(t, r"tokio::task::JoinSet::<T>::spawn") for bi, t in b.calls())}
    # is an index used to find a block again in a task?
    used = False
    for tb in region:
        if not tb.coroutine or tb.id in spawners:
            continue
        for bj, tj in tb.calls():
            if callee_matches(tj, r"vec::Vec<.*> as std::ops::Index<.*>>::index$|<impl .*Index<.*> for std::vec::Vec<.*>>::index$|slice::<impl .*Index<I> for \\[T\\]>::index$") and len(tj["args"]) > 1 \
                    and re.search(r"usize", (tj.get("arg_tys") or ["", ""])[1]):
                used = True
    for b in region:
        if b.coroutine and b.id not in spawners:
            continue
        Ev = ctx.expr(b)
        for bi, t in b.calls():
            if callee_matches(t, r"Iterator::zip$") and len(t["args"]) == 2:
                # `iter().zip(0usize..)`: a counter running along the sequence - the same as enumerate
                ce = Ev.operand(t["args"][1])
                if not (ce[0] == "agg" and re.search(r"Range(From)?$", ce[1])):
                    continue
            elif not callee_matches(t, r"Iterator::enumerate$") or not t["args"]:
                continue
            e = Ev.operand(t["args"][0])
            if "blocks_with_context" not in render(e, 3000) and not any(c[0] == "call" and re.search(ADAPTORS, c[1]) for c in walk(e)):
                continue
            through = sorted({c[1].split("::")[-1] for c in walk(e) if c[0] == "call" and re.search(ADAPTORS, c[1])})
            if through and used:
                out.viol(rule, "%s|%s|filtered-enumerate" % (rule, name), ctx.where(b, t["span"]),
                         "`enumerate()` counts the items of a sequence that went through %s, but the spawned task uses the index to find its block again in the unfiltered vector: as soon as a block without the attribute precedes one with it, the task reads another block (and `attributes[..]` panics there)" % through)
            elif used:
                n += 1
    out.inst(rule, n, 0, ["enumerate() directly over blocks_with_context; the task indexes the same vector"])


def task_resolver(ctx, co, task):
    """labels of the task body -> labels at the spawn site. Captures of an async block are resolved
    through the closure environment; when the task is the body of an `async fn` of the crate
    (`tasks.spawn(check_one(ctx, path, idx))`) its upvars are that function's parameters, which are
    replaced by the origins of the arguments at the call in the spawning body."""
    parent = ctx.facts.body(task.parent) if task.parent else None
    site = None
    if parent is not None and parent.kind in ("Fn", "AssocFn") and co is not None:
        for bi, t in co.calls():
            if (t.get("res") or t.get("def") or "") == parent.id:
                site = t

    # in the normalised view the async fn's constructor is inlined: the coroutine is built in the spawning
    # body itself, from the arguments
    built = None
    if parent is not None and parent.kind in ("Fn", "AssocFn") and co is not None and site is None:
        for bi, j, s in co.assigns():
            rv = s["rv"]
            if rv["k"] == "agg" and rv.get("agg") in ("coroutine", "closure") and rv.get("path") == task.id and bi in cfg_of(co).reachable:
                built = dict(zip(rv.get("fields") or [], rv["ops"]))

    def resolve(labs):
        if built is not None:
            out = set()
            for lab in labs:
                if lab[0] == "upvar" and lab[1] in built:
                    base = ctx.prov.read_operand(co, built[lab[1]])
                    out |= {(b[0], b[1], (tuple(b[2]) + tuple(lab[2]))[:8]) for b in base}
                else:
                    out.add(lab)
            return ctx.prov.resolve_upvars(co, out)
        labs = ctx.prov.resolve_upvars(task, labs)
        if site is None:
            return labs
        out = set()
        for lab in labs:
            if lab[0] == "param" and 1 <= lab[1] <= len(site["args"]):
                base = ctx.prov.read_operand(co, site["args"][lab[1] - 1])
                out |= {(b[0], b[1], (tuple(b[2]) + tuple(lab[2]))[:8]) for b in base}
            else:
                out.add(lab)
        return out
    return resolve
