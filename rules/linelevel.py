"""Rules shared by the three line-level validators (keep-sorted, keep-unique, line-pattern):
line loop discovery, key-extraction provenance, "first violation wins", predicate atoms."""
import re

from engine.cfg import cfg_of, dag_of
from engine.expr import render, walk, find_calls
from engine.facts import callee_name, callee_matches
from engine import prov as P
from rules import util


def line_loops(ctx, body):
    """Loops driven by `content(..).lines()[.enumerate()]`: [(header, blocks, next_bb)]."""
    return util.loop_of_next(ctx, body, r"str::lines\(")


def streq_atom(ctx, e, vals):
    """A guard (operand expr, taken values) as ('streq', lhs_text, const, polarity) when it is a
    string (in)equality against a constant, else None."""
    neg = False
    while e[0] == "un" and e[1] == "Not":
        neg = not neg
        e = e[2]
    if e[0] != "call":
        return None
    name = e[1]
    if not re.search(r"PartialEq<.*>>::(eq|ne)$|PartialEq>::(eq|ne)$|::eq_ignore_ascii_case$", name):
        return None
    is_ne = name.endswith("::ne")
    consts = [a for a in e[2] if a[0] == "const" and isinstance(a[1], str)]
    others = [a for a in e[2] if not (a[0] == "const")]
    if len(consts) != 1 or not others:
        return None
    truthy = vals and 0 not in vals   # branch taken when the call returned true
    falsy = vals == {0}
    if not (truthy or falsy):
        return None
    holds = truthy
    if is_ne:
        holds = not holds
    if neg:
        holds = not holds
    return ("streq", render(others[0], 300), consts[0][1], holds)


def first_wins(ctx, out, rule, body, region, header, pushes, what):
    """Every violation push inside the line loop leaves the loop (no path back to the header that
    stays inside the loop's iteration region)."""
    cfg = cfg_of(body)
    n = 0
    outside = set(range(cfg.n)) - set(region) - {header}
    if not any(bi in region for bi, t in pushes):
        # the violation is built inside the line loop and appended after it (a per-block helper returning
        # Option<Violation>): the construction site is then the reporting point
        pushes = [(bi, t) for bi, t in body.calls() if bi in region and (callee_matches(t, r"validators::Violation::new$") or
                  (ctx.facts.body(t.get("res") or "") is not None and "blockwatch::validators::Violation" in ctx.facts.body(t.get("res")).local_ty(0)))]
    for bi, t in pushes:
        if bi not in region:
            continue
        n += 1
        inside = cfg.reach(bi, avoid=outside)
        if header in inside:
            out.viol(rule, "%s|continues" % rule, ctx.where(body, t["span"]),
                     "after reporting a %s violation the line loop goes on to the next line: more than one violation per block can be reported and the reported one need not be the first" % what)
    return n


def key_calls_allowed(ctx, out, rule, body, labs, where, what, allowed):
    """All call labels in a key's origin set are on the allow-list."""
    bad = sorted({l[1] for l in labs if l[0] == "call" and not any(re.search(a, l[1]) for a in allowed)})
    for b in bad:
        out.viol(rule, "%s|via|%s" % (rule, b.split("::")[-1]), where,
                 "%s is derived through `%s`, which is not part of the documented key extraction (trimmed line, or the `value` group / whole match of the regex)" % (what, b))
    return not bad


KEY_ALLOWED = [
    r"<impl str>::trim$", r"<impl str>::lines$", r"Iterator::enumerate$", r"Iterator>?::next$", r"IntoIterator>?::into_iter$",
    r"blocks::Block::content$", r"Index<.*>::index$|ops::Index::index$", r"regex::Regex::captures$", r"regex::Captures::<'h>::name$|regex::Captures::name$",
    r"regex::Captures::<'h>::get$|regex::Captures::get$", r"regex::Match::<'h>::as_str$|regex::Match::as_str$", r"Option::<T>::map$",
    r"HashMap::<K, V, S, A>::get$", r"regex::Regex::new$", r"Option::<T>::unwrap_or_default$", r"Deref>?::deref$",
    r"KeepSortedValidator::(trimmed_line_value|regex_value)$",
]
