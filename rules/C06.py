"""C06 — keep-sorted reports a block iff its keys are out of order.

Decided: the direction table (empty -> asc, lower-cased otherwise, Err unless asc/desc; violating
ordering Greater for asc and Less otherwise; Equal never violates), comparator identity and
argument order per sort format (str Ord / f64::total_cmp, (previous, current)), adjacency (the
previous key is replaced by the current key on every non-violating path), first-violation-wins, key
extraction provenance, no carried state between blocks, no swallowed error.
Not decided: the verdict on a concrete sequence (string / number comparison, regex matching).
"""
import os
import re

from engine.cfg import cfg_of, dag_of
from engine.expr import render, walk, find_calls
from engine.facts import callee_name, callee_matches
from engine import prov as P
from rules import shared, util, linelevel

NAME = "keep-sorted"


def work_view(ctx):
    """`validate` with its own helpers looked through (a per-block `validate_block`, methods of a
    direction enum, …) - except the comparator and the key extractors, which stay calls: the rules
    about them anchor on the call sites."""
    def keep(cb):
        r = cb.local_ty(0)
        return ctx.domain_api(cb) or r.startswith("std::result::Result<std::cmp::Ordering") or key_shape(ctx, cb) is not None
    return ctx.validate_body(NAME, inline=True, skip=keep, tag="c06", sugar=True)


def comparator_fn(ctx, vb):
    """Crate-local callee returning Result<Ordering, _>."""
    for bi, t in vb.calls():
        cb = ctx.facts.body(t.get("res") or "")
        if cb is not None and cb.local_ty(0).startswith("std::result::Result<std::cmp::Ordering"):
            # read in its normalised view: local closures / helpers inlined, combinators expanded
            return ctx.inl(cb, skip=ctx.domain_api, tag="domain", sugar=True), bi, t
    return None, None, None


def key_shape(ctx, cb):
    """How a key extractor hands out (key text, column range): `Option<(&str, RangeInclusive<usize>)>` ->
    ("tuple", None, "0"); `Option<S>` with S a struct of the crate that has exactly one `&str` field ->
    ("struct", S's path, that field's name). None if the function is not a key extractor."""
    r = cb.local_ty(0)
    if re.match(r"std::option::Option<\(&'?\w* ?str, std::ops::RangeInclusive<usize>\)>", r):
        return ("tuple", None, "0")
    m = re.match(r"std::option::Option<(blockwatch::[\w:]+)(<.*>)?>$", r)
    if m:
        a = ctx.facts.adts.get(m.group(1))
        if a is not None and a.get("kind") == "struct":
            fs = a["variants"][0]["fields"]
            texts = [f["name"] for f in fs if re.match(r"&'?\w* ?str$", f["ty"])]
            if len(texts) == 1 and any("RangeInclusive<usize>" in f["ty"] or f["ty"] == "usize" for f in fs):
                return ("struct", m.group(1), texts[0])
    return None


def key_value(ctx, cb, text):
    """the abstract value a key extractor returns for a line with the key `text`"""
    from engine import casewalk as CW
    kind, path, fname = key_shape(ctx, cb)
    if kind == "tuple":
        return ("tuple", (text, CW.TOP))
    a = ctx.facts.adts[path]
    return ("adt", path, a["variants"][0]["name"], 0, tuple((f["name"], text if f["name"] == fname else CW.TOP) for f in a["variants"][0]["fields"]))


def key_fns(ctx, vb):
    out = []
    for bi, t in vb.calls():
        cb = ctx.facts.body(t.get("res") or "")
        if cb is not None and key_shape(ctx, cb) is not None:
            out.append((ctx.inl(cb, skip=ctx.domain_api, tag="domain", sugar=True), bi, t))
    return out


def check_key_fn(ctx, out, cb, rule="C06.key"):
    """Key = trimmed line (no regex parameter) or value-group / whole match (regex parameter)."""
    n = 0
    labs = ctx.prov.read_local(cb, 0, ("0", key_shape(ctx, cb)[2]))
    has_regex = any("regex::Regex" in cb.local_ty(i) for i in range(1, cb.argc + 1))
    where = ctx.where(cb)
    linelevel.key_calls_allowed(ctx, out, rule, cb, labs, where, "the sort key", linelevel.KEY_ALLOWED)
    if not has_regex:
        if P.has_call(labs, r"<impl str>::trim$") and any(l[0] == "param" and l[1] == 1 for l in labs):
            n += 1
        else:
            out.viol(rule, "%s|%s|not-trim" % (rule, cb.id), where,
                     "the key returned by %s derives from [%s]; expected `line.trim()` of the line" % (cb.id, util.origins_text(labs, 5)))
        # None exactly when the trimmed line is empty
        ok = False
        for bi, j, s in cb.assigns():
            rv = s["rv"]
            if s["lhs"]["l"] == 0 and rv["k"] == "agg" and rv.get("variant") == "None":
                gs = util.guards(ctx, cb, bi)
                for br, vals, e in gs:
                    txt = render(e, 300)
                    if re.search(r"str::is_empty\(str::trim\(", txt) and 0 not in vals:
                        ok = True
        if ok:
            n += 1
        else:
            out.viol(rule, "%s|%s|blank" % (rule, cb.id), where, "a line is skipped (None) on a condition other than `line.trim().is_empty()`")
    else:
        n += check_regex_key(ctx, out, cb, rule, labs)
    return n


def check_regex_key(ctx, out, body, rule, labs, scope_blocks=None):
    """value group preferred, else whole match, else skip."""
    n = 0
    where = ctx.where(body)
    if not P.has_call(labs, r"regex::Match(::<'h>)?::as_str$"):
        out.viol(rule, "%s|%s|regex-key" % (rule, body.id), where,
                 "with a pattern the key derives from [%s]; expected the text of a regex match (`Match::as_str`)" % util.origins_text(labs, 5))
        return 0
    names = [(bi, t) for bi, t in body.calls() if callee_matches(t, r"regex::Captures(::<'h>)?::name$")]
    gets = [(bi, t) for bi, t in body.calls() if callee_matches(t, r"regex::Captures(::<'h>)?::get$")]
    caps = [(bi, t) for bi, t in body.calls() if callee_matches(t, r"regex::Regex::captures$")]
    if scope_blocks is not None:
        names = [x for x in names if x[0] in scope_blocks]
        gets = [x for x in gets if x[0] in scope_blocks]
        caps = [x for x in caps if x[0] in scope_blocks]
    if len(caps) != 1 or len(names) != 1 or len(gets) != 1:
        out.viol(rule, "%s|%s|regex-shape" % (rule, body.id), where,
                 "expected one `captures`, one `name(\"value\")` and one `get(0)` in the regex key extraction, found %d/%d/%d" % (len(caps), len(names), len(gets)))
        return 0
    nbi, nt = names[0]
    gbi, gt = gets[0]
    gname = util.const_val(ctx, body, nt["args"][1]) if len(nt["args"]) > 1 else None
    gidx = util.const_val(ctx, body, gt["args"][1]) if len(gt["args"]) > 1 else None
    if gname != "value":
        out.viol(rule, "%s|%s|group-name" % (rule, body.id), ctx.where(body, nt["span"]), "the named group used as key is %r, documented is `value`" % gname)
    else:
        n += 1
    if gidx != 0:
        out.viol(rule, "%s|%s|group-index" % (rule, body.id), ctx.where(body, gt["span"]), "the fallback key is capture group %r, documented is the whole match (group 0)" % gidx)
    else:
        n += 1
    # get(0) only when name("value") is None
    cfg = cfg_of(body)
    if not cfg.dominates(nbi, gbi):
        out.viol(rule, "%s|%s|group-order" % (rule, body.id), ctx.where(body, gt["span"]),
                 "the whole match is taken without first looking for the `value` group")
    else:
        gs = util.guards(ctx, body, gbi)
        ok = False
        for br, vals, e in gs:
            txt = render(e, 400)
            if re.search(r"discr\(.*Captures(::<'h>)?::name\(", txt) and 1 not in vals:
                ok = True
        if ok:
            n += 1
        else:
            out.viol(rule, "%s|%s|group-precedence" % (rule, body.id), ctx.where(body, gt["span"]),
                     "the whole match is used on a path where the `value` group exists (it must only be the fallback)")
    # the regex is applied to the raw line of the loop / the parameter, not to something else
    ct = caps[0][1]
    clabs = ctx.prov.read_operand(body, ct["args"][1])
    bad = [l for l in clabs if l[0] == "call" and re.search(r"trim|to_lowercase|to_uppercase|replace", l[1])]
    if bad:
        out.viol(rule, "%s|%s|regex-input" % (rule, body.id), ctx.where(body, ct["span"]),
                 "the pattern is matched against a transformed line (%s), so match offsets no longer index the source line" % P.label_str(bad[0]))
    else:
        n += 1
    return n


def check_cmp_results(ctx, out, rule, vb=None):
    """Every ordering returned by the sort comparator is produced by the format's own comparison
    (str Ord::cmp for lexicographic, f64::total_cmp of the parsed numbers for numeric)."""
    vb = vb or work_view(ctx)
    n = 0
    if vb is None:
        return 0
    cmpf, cbi, ct = comparator_fn(ctx, vb)
    if cmpf is None:
        out.viol(rule, "%s|no-comparator" % rule, ctx.where(vb), "comparator function not found")
        return 0
    ccfg = cfg_of(cmpf)
    arms = {}
    enum = None
    for bi, j, s in cmpf.assigns():
        if s["rv"]["k"] == "discr" and (s["rv"].get("adt") or "").startswith("blockwatch::"):
            enum = s["rv"]["adt"]
            dl = s["lhs"]["l"]
            for bj, t in cmpf.terms():
                if t["k"] == "switch" and (util.op_place(t["op"]) or {}).get("l") == dl:
                    for v, tg in util.switch_arms(cmpf, bj).items():
                        if v != "otherwise":
                            arms[v] = tg
    vnames = {v["vi"]: v["name"] for v in ctx.facts.adts.get(enum, {"variants": []})["variants"]} if enum else {}
    def result_defs(op, at, depth=6):
        """[(block, labels)]: where the ordering wrapped at block `at` is computed - through copies and, when
        it is assigned once per arm of the format switch (`let o = match self {..}; Ok(o)`), per assignment"""
        pl = util.op_place(op)
        if pl is None or pl["p"] or depth == 0:
            return [(at, ctx.prov.read_operand(cmpf, op))]
        ds = [d for d in cmpf.defs().get(pl["l"], []) if d[0] == "call" or not d[3]["lhs"]["p"]]
        if not ds:
            return [(at, ctx.prov.read_operand(cmpf, op))]
        res = []
        for d in ds:
            if d[0] == "call":
                labs = {("call", callee_name(d[3]), ())}
                for a in d[3]["args"]:
                    labs |= ctx.prov.read_operand(cmpf, a)
                res.append((d[1], labs))
            elif d[3]["rv"]["k"] == "use":
                res.extend(result_defs(d[3]["rv"]["op"], d[1], depth - 1))
            else:
                res.append((d[1], ctx.prov.read_operand(cmpf, op)))
        return res
    for bi, j, s in cmpf.assigns():
        rv = s["rv"]
        if s["lhs"]["l"] == 0 and rv["k"] == "agg" and rv.get("variant") == "Ok":
            for dbi, labs in result_defs(rv["ops"][0], bi):
                arm = None
                for v, tg in arms.items():
                    if ccfg.dominates(tg, dbi):
                        arm = vnames.get(v)
                cmps = sorted({l[1] for l in labs if l[0] == "call" and re.search(r"::(cmp|total_cmp|partial_cmp|then|then_with|reverse|max|min)$|PartialOrd|::(lt|le|gt|ge)$", l[1])})
                if arm is None:
                    out.viol(rule, "%s|unconditional-result" % rule, ctx.where(cmpf, s["span"]),
                             "the comparator returns a result (derived from [%s]) on a path that does not depend on the sort format: this ordering is not produced by the format's comparison (and skips e.g. numeric parsing, so non-numeric keys under numeric sort are not rejected)" % util.origins_text(labs, 4))
                    continue
                want = r"impl std::cmp::Ord for str>::cmp$|impl std::cmp::Ord for \[.*\]>::cmp$" if arm == "Lexicographic" else r"f64>::total_cmp$"
                if len(cmps) == 1 and re.search(want, cmps[0]):
                    n += 1
                else:
                    out.viol(rule, "%s|%s|comparison" % (rule, arm), ctx.where(cmpf, s["span"]),
                             "under the %s format the ordering derives from %s; expected exactly %s" % (arm, cmps or util.origins_text(labs, 4), "str's Ord::cmp (code-point order)" if arm == "Lexicographic" else "f64::total_cmp of the two parsed numbers"))
    return n


ORD_DISCR = {"Less": -1, "Equal": 0, "Greater": 1}


def check_direction(ctx, out, vb, rule="C06.dir", only_other=False):
    """The direction table, decided by case analysis (engine.casewalk, A15) instead of by reading one
    spelling of it: for the attribute value in each of the classes {blank, asc, desc, other} (classes
    of `value.trim().is_empty()` / `value.to_lowercase() == "asc" | "desc"`) and the comparator
    returning each of {Less, Equal, Greater} for a pair (previous key, current key), which of
    {a violation is built, the block is accepted, an error is returned} can happen.
    Expected: blank/asc -> violation iff Greater; desc -> violation iff Less; other -> never accepted,
    never a violation (the run fails)."""
    from engine import casewalk as CW
    cfg = cfg_of(vb)
    loops = [(h, bl) for h, bl, kind in shared.outer_block_loops(ctx, vb) if kind == "blocks"]
    if len(loops) != 1:
        out.viol(rule, "%s|block-loop" % rule, ctx.where(vb), "expected one per-block loop in the keep-sorted validator, found %d" % len(loops))
        out.inst(rule, 0, 3)
        return None
    h, lblocks = loops[0]
    drivers = {bi for bi, t in vb.calls() if bi in lblocks and callee_matches(t, r"Iterator>?::next$")
               and shared.iterates_blocks(render(ctx.expr(vb).operand(t["args"][0]), 3000))}
    cmp_sites = {bi for bi, t in vb.calls() if (ctx.facts.body(t.get("res") or "") is not None) and ctx.facts.body(t.get("res")).local_ty(0).startswith("std::result::Result<std::cmp::Ordering")}
    viol_sites = {bi for bi, t in vb.calls() if callee_matches(t, r"validators::Violation::new$") or
                  (ctx.facts.body(t.get("res") or "") is not None and re.search(r"Result<blockwatch::validators::Violation,|^blockwatch::validators::Violation$", ctx.facts.body(t.get("res")).local_ty(0)))}
    if not cmp_sites or not viol_sites or not drivers:
        out.viol(rule, "%s|anchors" % rule, ctx.where(vb), "comparator call / violation construction / block iteration not found in the keep-sorted validator (%d/%d/%d)" % (len(cmp_sites), len(viol_sites), len(drivers)))
        out.inst(rule, 0, 12)
        return None
    std = CW.std_hooks()
    n = 0
    samples = []
    results = {}
    for cls in ("blank", "asc", "desc", "other"):
        for o in ("Less", "Equal", "Greater"):
            seen = set()

            def hook(w, bb, t, argv, env, cls=cls, o=o):
                nm = callee_name(t)
                d = t.get("def") or ""
                if bb in drivers:
                    return CW.adt("std::option::Option", "Some", 1, [("0", CW.TOP)])
                if bb in cmp_sites:
                    return CW.adt("std::result::Result", "Ok", 0, [("0", ("adt", "std::cmp::Ordering", o, ORD_DISCR[o], ()))])
                if re.search(r"HashMap::<K, V, S, A>::(get|contains_key)$", nm) and len(argv) > 1:
                    k = w.deref_val(env, argv[1])
                    if k == CW.const(NAME):
                        return CW.const(1) if nm.endswith("contains_key") else CW.adt("std::option::Option", "Some", 1, [("0", CW.sym("ATTR"))])
                    return None
                if re.search(r"ops::Index<.*>>?::index$", nm) and len(argv) > 1 and w.deref_val(env, argv[1]) == CW.const(NAME):
                    return CW.sym("ATTR")
                a0 = w.deref_val(env, argv[0]) if argv else CW.TOP
                if re.search(r"<impl str>::trim(_ascii)?$", nm) and a0[0] == "sym":
                    return CW.sym("trim", a0)
                if re.search(r"<impl str>::to_(ascii_)?lowercase$", nm) and a0[0] == "sym":
                    return CW.sym("lower", a0)
                if re.search(r"<impl str>::is_empty$|string::String::is_empty$", nm) and a0[0] == "sym":
                    if a0[1] == "trim" and a0[2] == CW.sym("ATTR"):
                        return CW.const(1 if cls == "blank" else 0)
                    if a0 == CW.sym("ATTR"):
                        return None if cls == "blank" else CW.const(0)
                    return None
                if re.search(r"::eq_ignore_ascii_case$", nm) and len(argv) > 1:
                    b0 = w.deref_val(env, argv[1])
                    s, k = (a0, b0) if a0[0] == "sym" else (b0, a0)
                    if s == CW.sym("ATTR") and CW.is_const(k) and isinstance(k[1], str):
                        return _lower_eq(cls, k[1])
                    return None
                if re.search(r"cmp::PartialEq.*>::(eq|ne)$", nm) or re.search(r"cmp::PartialEq::(eq|ne)$", d):
                    b0 = w.deref_val(env, argv[1]) if len(argv) > 1 else CW.TOP
                    s, k = (a0, b0) if a0[0] == "sym" else (b0, a0)
                    if s[0] == "sym" and CW.is_const(k) and isinstance(k[1], str):
                        r = None
                        if s == CW.sym("lower", CW.sym("ATTR")):
                            r = _lower_eq(cls, k[1])
                        if r is None:
                            return None
                        if nm.endswith("::ne") or d.endswith("::ne"):
                            r = CW.const(1 - r[1])
                        return r
                    return std(w, bb, t, argv, env)
                if re.search(r"anyhow::Context.*::(context|with_context)$|anyhow::context::<impl anyhow::Context|Result::<T, E>::map_err$", nm):
                    if a0[0] == "adt" and a0[2] == "Ok":
                        return a0
                    if a0[0] == "adt" and a0[2] == "Err":
                        return CW.adt("std::result::Result", "Err", 1, [("0", CW.TOP)])
                    return None
                if re.search(r"FromResidual<.*>>?::from_residual$", nm) or re.search(r"FromResidual::from_residual$", d):
                    dt = t.get("dest_ty") or ""
                    if dt.startswith("std::result::Result"):
                        return CW.adt("std::result::Result", "Err", 1, [("0", CW.TOP)])
                    return None
                return std(w, bb, t, argv, env)

            w = CW.Walk(ctx, vb, [hook])
            first = [True]

            def on_visit(bb, env, seen=seen):
                if bb in viol_sites:
                    seen.add("violation")
                if bb in cmp_sites:
                    seen.add("compared")
                tt = vb.blocks[bb]["term"]
                if tt and tt["k"] == "return":
                    r0 = env.get(0, CW.TOP)
                    if r0[0] == "adt" and r0[2] == "Err":
                        seen.add("error")
                    else:
                        seen.add("accepted")
            w.on_visit = on_visit

            def stop(bb, env, seen=seen, first=first):
                if bb == h:
                    if first[0]:
                        first[0] = False
                        return False
                    seen.add("accepted")
                    return True
                return False
            try:
                w.explore(h, {}, stop)
            except CW.Limit as e:
                out.viol(rule, "%s|limit" % rule, ctx.where(vb), "case analysis of the direction table did not finish (%s)" % e)
                out.inst(rule, 0, 12)
                return None
            results[(cls, o)] = seen
    for (cls, o), seen in sorted(results.items()):
        if only_other and cls != "other":
            continue
        if cls == "other":
            bad = [x for x in ("accepted", "violation") if x in seen]
            if bad or "error" not in seen:
                out.viol(rule, "%s|other|%s" % (rule, "+".join(bad) or "no-error"), ctx.where(vb),
                         "with a keep-sorted value that is neither blank, `asc` nor `desc` (any letter case) the block can be %s; expected: the run fails with an error" % (" / ".join(bad) or "processed without any error exit"))
            else:
                n += 1
            continue
        want = (o == "Greater") if cls in ("blank", "asc") else (o == "Less")
        got = "violation" in seen
        if "compared" not in seen:
            out.viol(rule, "%s|%s|rejected" % (rule, cls), ctx.where(vb),
                     "with a %s keep-sorted value the keys are never compared (%s): %s is a documented direction" % (cls, sorted(seen), "an empty value / `asc`" if cls != "desc" else "`desc`"))
        elif got != want:
            out.viol(rule, "%s|%s|%s" % (rule, cls, o), ctx.where(vb),
                     "keep-sorted value %s, comparator(previous, current) = %s: a violation is %s; expected %s (ascending: violation iff previous > current; descending: iff previous < current; equal neighbours are in order)"
                     % ({"blank": "blank", "asc": "`asc` (any case)", "desc": "`desc` (any case)"}[cls], o, "built" if got else "not built", "one" if want else "none"))
        elif "accepted" not in seen:
            out.viol(rule, "%s|%s|never-accepted" % (rule, cls), ctx.where(vb), "with a %s keep-sorted value no path finishes the block without an error" % cls)
        else:
            n += 1
    samples.append("cases {blank,asc,desc,other} x {Less,Equal,Greater}: violation iff (blank|asc, Greater) or (desc, Less); other -> error only")
    out.inst(rule, n, 3 if only_other else 12, samples, exhaustive=True, note="direction table by case analysis over the normalised validator (12 cases)")
    return None


def _lower_eq(cls, s):
    """truth of lower(value) == s in the class"""
    from engine import casewalk as CW
    if cls == "asc":
        return CW.const(1 if s == "asc" else 0)
    if cls == "desc":
        return CW.const(1 if s == "desc" else 0)
    if s in ("asc", "desc"):
        return CW.const(0)
    return None


def check_line_index(ctx, out, vb, rule="C06.lineidx"):
    """Which content line a keep-sorted violation designates, on the small model: three content lines (keyed /
    not keyed), the comparator answering `out of order` for exactly one pair - the position asked of
    `Block::content_line_position` for the violation is the index (among *all* content lines) of the later
    line of that pair. True / False, None if the model cannot follow the code."""
    from engine import casewalk as CW
    from engine import listmodel as LM
    loops = [(h, bl) for h, bl, kind in shared.outer_block_loops(ctx, vb) if kind == "blocks"]
    keyfn_at = {bi: cb for cb, bi, t in key_fns(ctx, vb)}
    keysites = set(keyfn_at)
    cmp_sites = {bi for bi, t in vb.calls() if (ctx.facts.body(t.get("res") or "") is not None) and ctx.facts.body(t.get("res")).local_ty(0).startswith("std::result::Result<std::cmp::Ordering")}
    vsites = {bi for bi, t in vb.calls() if callee_matches(t, r"validators::Violation::new$") or
              (ctx.facts.body(t.get("res") or "") is not None and re.search(r"Result<blockwatch::validators::Violation,|^blockwatch::validators::Violation$", ctx.facts.body(t.get("res")).local_ty(0)))}
    if len(loops) != 1 or not keysites or not cmp_sites or not vsites:
        return None
    h, lblocks = loops[0]
    drivers = {bi for bi, t in vb.calls() if bi in lblocks and callee_matches(t, r"Iterator>?::next$")
               and shared.iterates_blocks(render(ctx.expr(vb).operand(t["args"][0]), 3000))}
    std = CW.std_hooks()
    lm = LM.hooks()
    n = 0
    cases = [("SSS", ("K1", "K2"), 1), ("SSS", ("K2", "K3"), 2), ("SNS", ("K1", "K3"), 2), ("NSS", ("K2", "K3"), 2)]
    for pat, bad_pair, want in cases:
        got = set()

        def hook(w, bb, t, argv, env, pat=pat, bad_pair=bad_pair):
            nm = callee_name(t)
            if bb in drivers:
                return CW.adt("std::option::Option", "Some", 1, [("0", CW.TOP)])
            if re.search(r"blocks::Block::content$", nm):
                return CW.sym("CONTENT")
            if re.search(r"<impl str>::lines$", nm) and argv and w.deref_val(env, argv[0]) == CW.sym("CONTENT"):
                return LM.itr((CW.sym("L0"), CW.sym("L1"), CW.sym("L2")))
            if re.search(r"blocks::Block::content_line_position$", nm) and len(argv) > 1:
                i = w.deref_val(env, argv[1])
                env[-5] = ("tuple", env.get(-5, ("tuple", ()))[1] + (i,))
                return ("tuple", (CW.sym("LINE-NO", i), CW.sym("COL0")))
            if bb in keysites:
                i = env.get(-1, CW.const(0))[1]
                if i >= 3:
                    return "diverge"
                env[-1] = CW.const(i + 1)
                if pat[i] == "N":
                    return CW.adt("std::option::Option", "None", 0, [])
                return CW.adt("std::option::Option", "Some", 1, [("0", key_value(ctx, keyfn_at[bb], CW.sym("K%d" % (i + 1))))])
            if bb in cmp_sites:
                vals = [w.deref_val(env, a) for a in argv]
                ks = tuple(v[1] for v in vals if v[0] == "sym" and str(v[1]).startswith("K"))
                o = "Greater" if ks == bad_pair else "Less"
                return CW.adt("std::result::Result", "Ok", 0, [("0", ("adt", "std::cmp::Ordering", o, ORD_DISCR[o], ()))])
            if re.search(r"HashMap::<K, V, S, A>::(get|contains_key)$", nm) and len(argv) > 1 and w.deref_val(env, argv[1]) == CW.const(NAME):
                return CW.const(1) if nm.endswith("contains_key") else CW.adt("std::option::Option", "Some", 1, [("0", CW.const("asc"))])
            if re.search(r"anyhow::Context.*::(context|with_context)$|anyhow::context::<impl anyhow::Context|Result::<T, E>::map_err$", nm):
                a0 = w.deref_val(env, argv[0]) if argv else CW.TOP
                return a0 if a0[0] == "adt" and a0[2] == "Ok" else None
            if re.search(r"<impl str>::to_(ascii_)?lowercase$|<impl str>::trim$", nm):
                a0 = w.deref_val(env, argv[0]) if argv else CW.TOP
                return a0 if CW.is_const(a0) else None
            if re.search(r"<impl str>::is_empty$|string::String::is_empty$", nm):
                a0 = w.deref_val(env, argv[0]) if argv else CW.TOP
                return CW.const(1 if a0[1] == "" else 0) if CW.is_const(a0) and isinstance(a0[1], str) else None
            if re.search(r"cmp::PartialEq.*>::(eq|ne)$", nm):
                a0 = w.deref_val(env, argv[0]) if argv else CW.TOP
                b0 = w.deref_val(env, argv[1]) if len(argv) > 1 else CW.TOP
                if CW.is_const(a0) and CW.is_const(b0):
                    return CW.const(1 if ((a0[1] == b0[1]) != nm.endswith("::ne")) else 0)
            r = lm(w, bb, t, argv, env)
            if r is not None:
                return r
            return std(w, bb, t, argv, env)
        w = CW.Walk(ctx, vb, [hook])

        def on_visit(bb, env, got=got):
            if bb in vsites:
                idx = env.get(-5, ("tuple", ()))[1]
                last = idx[-1] if idx else None
                got.add(last[1] if (last is not None and CW.is_const(last)) else "?")
        w.on_visit = on_visit
        first = [True]

        def stop(bb, env, first=first):
            if bb == h:
                if first[0]:
                    first[0] = False
                    return False
                return True
            return False
        try:
            w.explore(h, {}, stop)
        except CW.Limit:
            return None
        if got == {want}:
            n += 1
        elif "?" in got or not got:
            if os.environ.get("BW_DEBUG_MODEL"):
                print("C06.lineidx undecided:", pat, bad_pair, "got", got)
            return None
        else:
            out.viol(rule, "%s|%s|%s" % (rule, pat, "-".join(bad_pair)), ctx.where(vb),
                     "lines %s (S: has a key, N: none), the pair (%s, %s) out of order: the violation designates content line index %s; expected %d (the later line of the pair, counted over all content lines)" % (pat, bad_pair[0], bad_pair[1], sorted(got), want))
    out.inst(rule, n, 4, ["the violation's line = index of the later line of the offending pair (4 cases)"], exhaustive=True)
    return n == 4


def check_pairs(ctx, out, vb, rule="C06.adjacent"):
    """Which keys meet in the comparator: for every pattern of three content lines, each with a key
    (S) or without one (N: blank / non-matching), the comparator must be called exactly for the
    consecutive pairs of keyed lines, as (earlier key, later key). Decided by case analysis
    (engine.casewalk): the i-th key extraction yields the symbol K_i (or None), the comparator
    answers Equal, and the pairs of symbols that reach the comparator are collected."""
    from engine import casewalk as CW
    loops = [(h, bl) for h, bl, kind in shared.outer_block_loops(ctx, vb) if kind == "blocks"]
    keyfn_at = {bi: cb for cb, bi, t in key_fns(ctx, vb)}
    keysites = set(keyfn_at)
    cmp_sites = {bi for bi, t in vb.calls() if (ctx.facts.body(t.get("res") or "") is not None) and ctx.facts.body(t.get("res")).local_ty(0).startswith("std::result::Result<std::cmp::Ordering")}
    if len(loops) != 1 or not keysites or not cmp_sites:
        out.viol(rule, "%s|shape" % rule, ctx.where(vb), "per-block loop / key extraction calls / comparator call not found (%d/%d/%d)" % (len(loops), len(keysites), len(cmp_sites)))
        out.inst(rule, 0, 8)
        return
    h, lblocks = loops[0]
    drivers = {bi for bi, t in vb.calls() if bi in lblocks and callee_matches(t, r"Iterator>?::next$")
               and shared.iterates_blocks(render(ctx.expr(vb).operand(t["args"][0]), 3000))}
    std = CW.std_hooks()
    from engine import listmodel as LM
    lm = LM.hooks()
    n = 0
    import itertools
    for pat in itertools.product("SN", repeat=3):
        pairs = set()
        undecided = []

        def hook(w, bb, t, argv, env, pat=pat):
            nm = callee_name(t)
            d = t.get("def") or ""
            if bb in drivers:
                return CW.adt("std::option::Option", "Some", 1, [("0", CW.TOP)])
            # the block's content is exactly three lines: every path that goes on to the next block must have
            # looked at all of them
            if re.search(r"blocks::Block::content$", nm):
                return CW.sym("CONTENT")
            if re.search(r"<impl str>::lines$", nm) and argv and w.deref_val(env, argv[0]) == CW.sym("CONTENT"):
                return LM.itr((CW.sym("L0"), CW.sym("L1"), CW.sym("L2")))
            if bb in keysites:
                i = env.get(-1, CW.const(0))[1]
                if i >= 3:
                    return "diverge"
                env[-1] = CW.const(i + 1)
                if pat[i] == "N":
                    return CW.adt("std::option::Option", "None", 0, [])
                return CW.adt("std::option::Option", "Some", 1, [("0", key_value(ctx, keyfn_at[bb], CW.sym("K%d" % (i + 1))))])
            if bb in cmp_sites:
                vals = [w.deref_val(env, a) for a in argv]
                ks = [v for v in vals if v[0] == "sym" and str(v[1]).startswith("K")]
                if len(ks) == 2:
                    pairs.add((ks[0][1], ks[1][1]))
                    env[-9] = ("tuple", env.get(-9, ("tuple", ()))[1] + (CW.const("%s,%s" % (ks[0][1], ks[1][1])),))
                else:
                    undecided.append([v[0] for v in vals])
                return CW.adt("std::result::Result", "Ok", 0, [("0", ("adt", "std::cmp::Ordering", "Equal", 0, ()))])
            if re.search(r"HashMap::<K, V, S, A>::(get|contains_key)$", nm) and len(argv) > 1 and w.deref_val(env, argv[1]) == CW.const(NAME):
                return CW.const(1) if nm.endswith("contains_key") else CW.adt("std::option::Option", "Some", 1, [("0", CW.const("asc"))])
            if re.search(r"anyhow::Context.*::(context|with_context)$|anyhow::context::<impl anyhow::Context|Result::<T, E>::map_err$", nm):
                a0 = w.deref_val(env, argv[0]) if argv else CW.TOP
                return a0 if a0[0] == "adt" and a0[2] == "Ok" else None
            if re.search(r"<impl str>::to_(ascii_)?lowercase$|<impl str>::trim$", nm):
                a0 = w.deref_val(env, argv[0]) if argv else CW.TOP
                return a0 if CW.is_const(a0) else None
            if re.search(r"<impl str>::is_empty$|string::String::is_empty$", nm):
                a0 = w.deref_val(env, argv[0]) if argv else CW.TOP
                return CW.const(1 if a0[1] == "" else 0) if CW.is_const(a0) and isinstance(a0[1], str) else None
            r = lm(w, bb, t, argv, env)
            if r is not None:
                return r
            return std(w, bb, t, argv, env)
        w = CW.Walk(ctx, vb, [hook])
        first = [True]

        ends = []

        def stop(bb, env, first=first, ends=ends):
            if bb == h:
                if first[0]:
                    first[0] = False
                    return False
                # one block done, the next one is examined: what was compared on this path, and how many
                # of the block's lines had been looked at
                ends.append((frozenset(x[1] for x in env.get(-9, ("tuple", ()))[1]), env.get(-1, CW.const(0))[1]))
                return True
            return False
        try:
            w.explore(h, {}, stop)
        except CW.Limit as e:
            out.viol(rule, "%s|limit" % rule, ctx.where(vb), "case analysis of the neighbour pairs did not finish (%s)" % e)
            out.inst(rule, n, 8)
            return
        keys = ["K%d" % (i + 1) for i in range(3) if pat[i] == "S"]
        want = {(keys[j], keys[j + 1]) for j in range(len(keys) - 1)}
        p = "".join(pat)
        short = [e for e in ends if e[0] != frozenset("%s,%s" % x for x in want) or e[1] != 3]
        if undecided:
            out.viol(rule, "%s|%s|opaque" % (rule, p), ctx.where(vb), "lines %s (S: has a key, N: none): the comparator is called with arguments that are not keys of content lines (%s)" % (p, undecided[0]))
        elif pairs == want and short:
            out.viol(rule, "%s|%s|passed-over" % (rule, p), ctx.where(vb),
                     "lines %s (S: has a key, N: none): on some path the block is left for the next one after %d of its lines, with the pairs %s compared instead of %s - a block can be passed over (or cut short) without its keys being compared" % (
                         p, short[0][1], sorted(short[0][0]) or "none", sorted("%s,%s" % x for x in want) or "none"))
        elif pairs != want:
            extra = sorted(pairs - want)
            missing = sorted(want - pairs)
            swapped = [x for x in extra if (x[1], x[0]) in want]
            if swapped:
                msg = "the comparator is called as (%s, %s) - (later key, earlier key): the order of the arguments is reversed, so ascending blocks are judged as descending" % swapped[0]
                key = "swapped"
            elif missing and not extra:
                msg = "the neighbouring keys %s are never compared" % (missing,)
                key = "missing"
            else:
                msg = "the comparator sees the pairs %s; expected exactly the consecutive keyed lines %s (a key compared with an older key than its neighbour, or a pair left out)" % (sorted(pairs), sorted(want))
                key = "pairs"
            out.viol(rule, "%s|%s|%s" % (rule, p, key), ctx.where(vb), "lines %s (S: has a key, N: none): %s" % (p, msg))
        else:
            n += 1
    out.inst(rule, n, 8, ["for each of the 8 key patterns of 3 lines: comparator pairs == consecutive keyed lines, in (earlier, later) order"], exhaustive=True)
    # ---- first violation wins: three keyed lines, the comparator reports every pair as out of order
    #      (ascending block, answer Greater): the scan must stop at the first pair - one violation,
    #      no further comparison
    vsites = {bi for bi, t in vb.calls() if callee_matches(t, r"validators::Violation::new$") or
              (ctx.facts.body(t.get("res") or "") is not None and re.search(r"Result<blockwatch::validators::Violation,|^blockwatch::validators::Violation$", ctx.facts.body(t.get("res")).local_ty(0)))}
    calls = []
    built = []

    def hook2(w, bb, t, argv, env):
        nm = callee_name(t)
        if bb in drivers:
            return CW.adt("std::option::Option", "Some", 1, [("0", CW.TOP)])
        if bb in keysites:
            i = env.get(-1, CW.const(0))[1]
            if i >= 3:
                return "diverge"
            env[-1] = CW.const(i + 1)
            return CW.adt("std::option::Option", "Some", 1, [("0", key_value(ctx, keyfn_at[bb], CW.sym("K%d" % (i + 1))))])
        if bb in cmp_sites:
            k = env.get(-7, CW.const(0))[1] + 1
            env[-7] = CW.const(k)
            calls.append(k)
            return CW.adt("std::result::Result", "Ok", 0, [("0", ("adt", "std::cmp::Ordering", "Greater", 1, ()))])
        if re.search(r"HashMap::<K, V, S, A>::(get|contains_key)$", nm) and len(argv) > 1 and w.deref_val(env, argv[1]) == CW.const(NAME):
            return CW.const(1) if nm.endswith("contains_key") else CW.adt("std::option::Option", "Some", 1, [("0", CW.const("asc"))])
        if re.search(r"anyhow::Context.*::(context|with_context)$|anyhow::context::<impl anyhow::Context|Result::<T, E>::map_err$", nm):
            a0 = w.deref_val(env, argv[0]) if argv else CW.TOP
            return a0 if a0[0] == "adt" and a0[2] == "Ok" else None
        if re.search(r"<impl str>::to_(ascii_)?lowercase$|<impl str>::trim$", nm):
            a0 = w.deref_val(env, argv[0]) if argv else CW.TOP
            return a0 if CW.is_const(a0) else None
        if re.search(r"<impl str>::is_empty$|string::String::is_empty$", nm):
            a0 = w.deref_val(env, argv[0]) if argv else CW.TOP
            return CW.const(1 if a0[1] == "" else 0) if CW.is_const(a0) and isinstance(a0[1], str) else None
        if re.search(r"cmp::PartialEq.*>::(eq|ne)$", nm):
            a0 = w.deref_val(env, argv[0]) if argv else CW.TOP
            b0 = w.deref_val(env, argv[1]) if len(argv) > 1 else CW.TOP
            if CW.is_const(a0) and CW.is_const(b0):
                r = a0[1] == b0[1]
                return CW.const(1 if (r != nm.endswith("::ne")) else 0)
        return std(w, bb, t, argv, env)
    w2 = CW.Walk(ctx, vb, [hook2])

    def on_visit2(bb, env):
        if bb in vsites:
            k = env.get(-8, CW.const(0))[1] + 1
            env[-8] = CW.const(k)
            built.append(k)
    w2.on_visit = on_visit2
    first2 = [True]

    def stop2(bb, env):
        if bb == h:
            if first2[0]:
                first2[0] = False
                return False
            return True
        return False
    nf = 0
    try:
        w2.explore(h, {}, stop2)
        if max(calls or [0]) > 1 or max(built or [0]) > 1:
            out.viol("C06.first", "C06.first|continues", ctx.where(vb),
                     "after a pair of neighbouring keys was found out of order the scan goes on (the comparator is consulted %d times, %d violation(s) are built for one block): at most one violation per block is reported, and it is the first" % (max(calls or [0]), max(built or [0])))
        elif not built:
            out.viol("C06.first", "C06.first|none", ctx.where(vb), "no violation is built although the comparator reports the first pair of an ascending block as out of order")
        else:
            nf = 1
    except CW.Limit as e:
        out.viol("C06.first", "C06.first|limit", ctx.where(vb), "case analysis did not finish (%s)" % e)
    out.inst("C06.first", nf, 1, ["every pair out of order: one comparison, one violation, then the scan of the block ends"])


def check_key_table(ctx, out, kfs, rule="C06.keytab"):
    """The key of a line, as a table decided by case analysis over the key extractor(s): without a
    pattern the key is `line.trim()` and the line is skipped exactly when that is empty; with a
    pattern the line is skipped exactly when the regex has no match, the key is the text of the
    `value` group when that group took part in the match and the text of the whole match otherwise -
    whether or not that text is empty."""
    from engine import casewalk as CW
    import itertools
    std = CW.std_hooks()
    n = 0
    seen_modes = set()
    for cb, bi, t in kfs:
        rparams = [i for i in range(1, cb.argc + 1) if "regex::Regex" in cb.local_ty(i)]
        opt_regex = bool(rparams) and cb.local_ty(rparams[0]).startswith("std::option::Option<")
        modes = []
        if not rparams or opt_regex:
            modes.append("plain")
        if rparams:
            modes.append("regex")
        for mode in modes:
            seen_modes.add(mode)
            cases = [dict(empty=e) for e in (True, False)] if mode == "plain" else \
                [dict(caps=c, name=nm, get0=g, empty=e) for c, nm, g, e in itertools.product((True, False), repeat=4)]
            for case in cases:
                results = set()

                def hook(w, bb, tt, argv, env, case=case, mode=mode):
                    nm = callee_name(tt)
                    a0 = w.deref_val(env, argv[0]) if argv else CW.TOP
                    if re.search(r"regex::Regex::captures$", nm):
                        return CW.adt("std::option::Option", "Some", 1, [("0", CW.sym("CAPS"))]) if case["caps"] else CW.adt("std::option::Option", "None", 0, [])
                    if re.search(r"regex::Regex::(find|captures_iter|find_iter|is_match|shortest_match)", nm):
                        return CW.sym("OTHER-REGEX-API")
                    if re.search(r"regex::Captures(::<'h>)?::name$", nm):
                        k = w.deref_val(env, argv[1]) if len(argv) > 1 else CW.TOP
                        if k != CW.const("value"):
                            return CW.adt("std::option::Option", "Some", 1, [("0", CW.sym("WRONG-GROUP"))])
                        return CW.adt("std::option::Option", "Some", 1, [("0", CW.sym("M"))]) if case["name"] else CW.adt("std::option::Option", "None", 0, [])
                    if re.search(r"regex::Captures(::<'h>)?::get$", nm):
                        k = w.deref_val(env, argv[1]) if len(argv) > 1 else CW.TOP
                        if k != CW.const(0):
                            return CW.adt("std::option::Option", "Some", 1, [("0", CW.sym("WRONG-GROUP"))])
                        return CW.adt("std::option::Option", "Some", 1, [("0", CW.sym("M0"))]) if case["get0"] else CW.adt("std::option::Option", "None", 0, [])
                    if re.search(r"regex::Match(::<'h>)?::as_str$", nm) and a0[0] == "sym":
                        return CW.sym("text", a0)
                    if re.search(r"<impl str>::trim$", nm) and a0[0] == "sym":
                        return CW.sym("trim", a0)
                    if re.search(r"<impl str>::(trim_\w+|to_\w+|replace\w*|strip_\w+)$", nm) and a0[0] == "sym":
                        return CW.sym(nm.split("::")[-1], a0)
                    if re.search(r"<impl str>::is_empty$|string::String::is_empty$", nm) and a0[0] == "sym":
                        return CW.const(1 if case["empty"] else 0)
                    if re.search(r"<impl str>::len$", nm) and a0[0] == "sym":
                        return None
                    return std(w, bb, tt, argv, env)
                w = CW.Walk(ctx, cb, [hook])

                def on_visit(bb, env, results=results):
                    tm = cb.blocks[bb]["term"]
                    if tm and tm["k"] == "return":
                        r0 = env.get(0, CW.TOP)
                        if r0[0] == "adt" and r0[2] == "None":
                            results.add("skip")
                        elif r0[0] == "adt" and r0[2] == "Some":
                            key = w.field(w.field(r0, "0"), key_shape(ctx, cb)[2])
                            results.add("key:%s" % _show(key))
                        else:
                            results.add("?")
                w.on_visit = on_visit
                env = {1: CW.sym("LINE")}
                if rparams:
                    if opt_regex:
                        env[rparams[0]] = CW.adt("std::option::Option", "Some", 1, [("0", CW.sym("RE"))]) if mode == "regex" else CW.adt("std::option::Option", "None", 0, [])
                    else:
                        env[rparams[0]] = CW.sym("RE")
                try:
                    w.explore(0, env)
                except CW.Limit as e:
                    out.viol(rule, "%s|%s|limit" % (rule, cb.id), ctx.where(cb), "case analysis of the key extractor did not finish (%s)" % e)
                    continue
                if mode == "plain":
                    want = {"skip"} if case["empty"] else {"key:trim(LINE)"}
                    desc = "no pattern, trimmed line %s" % ("empty" if case["empty"] else "non-empty")
                else:
                    if not case["caps"]:
                        want = {"skip"}
                    elif case["name"]:
                        want = {"key:text(M)"}
                    elif case["get0"]:
                        want = {"key:text(M0)"}
                    else:
                        want = {"skip"}
                    desc = "pattern; match: %s, `value` group: %s, whole match: %s, extracted text %s" % (
                        "yes" if case["caps"] else "no", "took part" if case["name"] else "absent", "present" if case["get0"] else "absent", "empty" if case["empty"] else "non-empty")
                if results == want:
                    n += 1
                else:
                    out.viol(rule, "%s|%s|%s" % (rule, mode, "+".join("%s=%d" % (k, int(v)) for k, v in sorted(case.items()))), ctx.where(cb),
                             "key extraction (%s): the outcome is %s; expected %s (`skip`: the line takes no part in the comparison; M: the `value` group, M0: the whole match)" % (desc, sorted(results), sorted(want)))
    out.inst(rule, n, 18, ["plain: 2 cases; pattern: 16 cases (match x value group x whole match x empty text)"], exhaustive=True)
    if seen_modes != {"plain", "regex"}:
        out.viol(rule, "%s|modes" % rule, "-", "key extractors cover the modes %s; expected both the plain and the pattern mode" % sorted(seen_modes))


def _show(v):
    if v[0] == "sym":
        if len(v) == 2:
            return str(v[1])
        return "%s(%s)" % (v[1], ", ".join(_show(x) if isinstance(x, tuple) else str(x) for x in v[2:]))
    if v[0] == "const":
        return repr(v[1])
    return v[0]


def run(ctx, out, tier):
    vb = work_view(ctx)
    if vb is None:
        out.inst("C06.anchor", 0, 1)
        return meta()
    out.inst("C06.anchor", 1, 1, [vb.id])
    cfg = cfg_of(vb)
    E = ctx.expr(vb)

    # ------------------------------------------------------------------ C06.dir
    viol_ord = check_direction(ctx, out, vb)

    # ------------------------------------------------------------------ line loop
    loops = linelevel.line_loops(ctx, vb)
    if len(loops) != 1:
        out.inst("C06.loop", len(loops), 1, note="exactly one loop over content.lines() expected")
        return meta()
    header, blocks, next_bb = loops[0]
    region = util.iter_region(vb, next_bb) | set(blocks)
    out.inst("C06.loop", 1, 1, ["line loop header bb%d, %d blocks" % (header, len(region))])
    pushes = util.violation_push_sites(vb)

    # ------------------------------------------------------------------ C06.cmp
    n_cmp = 0
    cmpf, cbi, ct = comparator_fn(ctx, vb)
    if cmpf is None:
        out.inst("C06.cmp", 0, 4, note="comparator function not found")
    else:
        ccfg = cfg_of(cmpf)
        # arms of the switch on the format
        arms = {}
        enum = None
        for bi, j, s in cmpf.assigns():
            if s["rv"]["k"] == "discr" and (s["rv"].get("adt") or "").startswith("blockwatch::"):
                enum = s["rv"]["adt"]
                dl = s["lhs"]["l"]
                for bj, t in cmpf.terms():
                    if t["k"] == "switch" and (util.op_place(t["op"]) or {}).get("l") == dl:
                        for v, tg in util.switch_arms(cmpf, bj).items():
                            if v != "otherwise":
                                arms[v] = tg
        vnames = {v["vi"]: v["name"] for v in ctx.facts.adts.get(enum, {"variants": []})["variants"]} if enum else {}
        if set(vnames.values()) != {"Lexicographic", "Numeric"}:
            out.viol("C06.cmp", "C06.cmp|formats", ctx.where(cmpf),
                     "the sort format enum has variants %s; the documented formats are lexicographic (default) and numeric (variant names are the accepted attribute values)" % sorted(vnames.values()))
        # every ordering returned is produced by the format's own comparison (shared with C13.numeric)
        n_cmp += check_cmp_results(ctx, out, "C06.cmp", vb)
        # argument order of the comparison calls: (a, b) = (param 2, param 3)
        for bi, t in cmpf.calls():
            if callee_matches(t, r"Ord for str>::cmp$|f64>::total_cmp$"):
                la = ctx.prov.read_operand(cmpf, t["args"][0])
                lb = ctx.prov.read_operand(cmpf, t["args"][1])
                pa = {l[1] for l in la if l[0] == "param"}
                pb = {l[1] for l in lb if l[0] == "param"}
                if pa == {2} and pb == {3}:
                    n_cmp += 1
                else:
                    out.viol("C06.cmp", "C06.cmp|arg-order|%s" % callee_name(t).split("::")[-1], ctx.where(cmpf, t["span"]),
                             "`%s` compares (param %s, param %s); expected (a, b) = (first key, second key)" % (callee_name(t), sorted(pa), sorted(pb)))
        # numeric: both keys parsed as f64, parse failure -> Err (SH.err covers the propagation)
        parses = [t for bi, t in cmpf.calls() if callee_matches(t, r"<impl str>::parse$") and "f64" in (t.get("path") or "")]
        if len(parses) == 2:
            n_cmp += 1
        else:
            out.viol("C06.cmp", "C06.cmp|numeric-parse", ctx.where(cmpf), "expected both keys to be parsed as f64 under the numeric format, found %d parse call(s)" % len(parses))
        out.inst("C06.cmp", n_cmp, 5, ["%s: Lexicographic -> str::cmp(a,b); Numeric -> total_cmp(parse(a)?, parse(b)?)" % cmpf.id])

        # (C06.violates - `push iff cmp == violating ordering` - is part of the C06.dir case table now)

        check_pairs(ctx, out, vb)

    # (C06.first is decided together with C06.adjacent by case analysis, see check_pairs)

    # ------------------------------------------------------------------ C06.key
    n_key = 0
    kfs = key_fns(ctx, vb)
    for cb, bi, t in kfs:
        n_key += check_key_fn(ctx, out, cb)
        # the line handed to the extractor is the loop's line
        la = ctx.prov.read_operand(vb, t["args"][0])
        if not P.has_call(la, r"<impl str>::lines$"):
            out.viol("C06.key", "C06.key|input|%s" % cb.id, ctx.where(vb, t["span"]), "the key extractor is not applied to a line of the block content")
        else:
            n_key += 1
        extra = sorted({l[1] for l in la if l[0] == "call" and re.search(r"trim|to_lowercase|replace|skip|take|rev|filter", l[1])})
        if extra:
            out.viol("C06.key", "C06.key|input-transformed|%s" % cb.id, ctx.where(vb, t["span"]), "the line is transformed (%s) before key extraction" % extra)
    out.inst("C06.key", n_key, 8, [k[0].id for k in kfs])
    check_key_table(ctx, out, kfs)
    # which line the violation designates (small model; undecided = the provenance rules of C10 decide)
    tr_li = out.trial()
    try:
        li = check_line_index(ctx, tr_li, vb)
    except Exception as e:      # noqa: BLE001
        ctx.view_fallbacks.append("C06.lineidx: small-model analysis failed (%s: %s)" % (type(e).__name__, e))
        li = None
    if li is not None:
        out.adopt(tr_li)

    shared.sh_err(ctx, out, ctx.validator_bodies(NAME), floor=10)
    shared.sh_state(ctx, out, NAME)
    shared.sh_visit(ctx, out, NAME)
    # the validator's diagnostics survive the merge with other validators' (append-only), and the
    # attribute text reaches it unmodified (comment delimiters are blanked exactly once)
    shared.sh_merge(ctx, out, ctx.reachable_bodies())
    from rules.C03 import check_blank
    check_blank(ctx, out)
    # the validator only runs if the lazy detection loop creates it: every pending detector is asked
    # about every block (shared with C11/C13/C14)
    from rules.C14 import check_once as _detect_once, detect_fn as _detect_fn
    _dv = _detect_fn(ctx)
    if _dv is not None:
        _detect_once(ctx, out, _dv, rule="C06.detect")
    else:
        out.inst("C06.detect", 0, 4)
    # what the rule judges is the text between the tags: the content's ends and its byte range (shared with C03 / C04)
    from rules.C03 import check_content as _check_content
    shared.run_renamed(out, lambda o: _check_content(ctx, o), "C03", "C06")
    from rules.C04 import check_content_range as _check_content_range
    _check_content_range(ctx, out, rule="C06.contentrange")
    # a block is only judged if its file is parsed at all: no successful return of the file parser without parsing but
    # "no grammar for this name" (shared with C12)
    from rules.C12 import check_noskip as _check_noskip
    _check_noskip(ctx, out, "C06.noskip")
    # what a validator found is only reported if the report keeps every violation (shared with C11)
    from rules.C11 import check_items as _check_items
    shared.run_renamed(out, lambda o: _check_items(ctx, o), "C11", "C06")
    from rules.shared import check_detect_cases
    check_detect_cases(ctx, out, ["keep-sorted"], rule="C06.detectcase")
    from rules.C10 import check_line_base
    check_line_base(ctx, out, "keep-sorted", "C06.line")
    shared.sh_flags(ctx, out, "keep-sorted", "C06.flags")
    return meta()


def meta():
    return {
        "explanation": "Decides the control skeleton of keep-sorted on every path of the validator's MIR: direction table (exhaustive over the three predicates), comparator per format and its argument order, (previous,current) at the call site, violation iff cmp == violating ordering, previous key always replaced by the current key, first violation leaves the loop, key provenance (trim / value group else whole match), no state across blocks, no swallowed Result. It decides these structural parts and not the verdict for a concrete key sequence.",
        "undecided": "string / f64 comparison results and regex matching on runtime values.",
        "assumptions": ["strum's EnumString accepts exactly the variant names (ascii case-insensitively)"],
    }
