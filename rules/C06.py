"""C06 — keep-sorted reports a block iff its keys are out of order.

Decided: the direction table (empty -> asc, lower-cased otherwise, Err unless asc/desc; violating
ordering Greater for asc and Less otherwise; Equal never violates), comparator identity and
argument order per sort format (str Ord / f64::total_cmp, (previous, current)), adjacency (the
previous key is replaced by the current key on every non-violating path), first-violation-wins, key
extraction provenance, no carried state between blocks, no swallowed error.
Not decided: the verdict on a concrete sequence (string / number comparison, regex matching).
"""
import re

from engine.cfg import cfg_of, dag_of
from engine.expr import render, walk, find_calls
from engine.facts import callee_name, callee_matches
from engine import prov as P
from rules import shared, util, linelevel

NAME = "keep-sorted"


def work_view(ctx):
    """`validate` with its own helpers looked through (a per-block `validate_block`, methods of a
    direction enum, …) - except the comparator and the key extractors, which stay calls: the rules
    about them anchor on the call sites."""
    def keep(cb):
        r = cb.local_ty(0)
        return ctx.domain_api(cb) or r.startswith("std::result::Result<std::cmp::Ordering") \
            or re.match(r"std::option::Option<\(&'?\w* ?str, std::ops::RangeInclusive<usize>\)>", r) is not None
    return ctx.validate_body(NAME, inline=True, skip=keep, tag="c06", sugar=True)


def comparator_fn(ctx, vb):
    """Crate-local callee returning Result<Ordering, _>."""
    for bi, t in vb.calls():
        cb = ctx.facts.body(t.get("res") or "")
        if cb is not None and cb.local_ty(0).startswith("std::result::Result<std::cmp::Ordering"):
            # read in its normalised view: local closures / helpers inlined, combinators expanded
            return ctx.inl(cb, skip=ctx.domain_api, tag="domain", sugar=True), bi, t
    return None, None, None


def key_fns(ctx, vb):
    out = []
    for bi, t in vb.calls():
        cb = ctx.facts.body(t.get("res") or "")
        if cb is not None and re.match(r"std::option::Option<\(&'?\w* ?str, std::ops::RangeInclusive<usize>\)>", cb.local_ty(0)):
            out.append((ctx.inl(cb, skip=ctx.domain_api, tag="domain", sugar=True), bi, t))
    return out


def check_key_fn(ctx, out, cb, rule="C06.key"):
    """Key = trimmed line (no regex parameter) or value-group / whole match (regex parameter)."""
    n = 0
    labs = ctx.prov.read_local(cb, 0, ("0", "0"))
    has_regex = any("regex::Regex" in cb.local_ty(i) for i in range(1, cb.argc + 1))
    where = ctx.where(cb)
    linelevel.key_calls_allowed(ctx, out, rule, cb, labs, where, "the sort key", linelevel.KEY_ALLOWED)
    if not has_regex:
        if P.has_call(labs, r"<impl str>::trim$") and any(l[0] == "param" and l[1] == 1 for l in labs):
            n += 1
        else:
            out.viol(rule, "%s|%s|not-trim" % (rule, cb.id), where,
                     "the key returned by %s derives from [%s]; expected `line.trim()` of the line" % (cb.id, util.origins_text(labs, 5)))
        # None exactly when the trimmed line is empty
        ok = False
        for bi, j, s in cb.assigns():
            rv = s["rv"]
            if s["lhs"]["l"] == 0 and rv["k"] == "agg" and rv.get("variant") == "None":
                gs = util.guards(ctx, cb, bi)
                for br, vals, e in gs:
                    txt = render(e, 300)
                    if re.search(r"str::is_empty\(str::trim\(", txt) and 0 not in vals:
                        ok = True
        if ok:
            n += 1
        else:
            out.viol(rule, "%s|%s|blank" % (rule, cb.id), where, "a line is skipped (None) on a condition other than `line.trim().is_empty()`")
    else:
        n += check_regex_key(ctx, out, cb, rule, labs)
    return n


def check_regex_key(ctx, out, body, rule, labs, scope_blocks=None):
    """value group preferred, else whole match, else skip."""
    n = 0
    where = ctx.where(body)
    if not P.has_call(labs, r"regex::Match(::<'h>)?::as_str$"):
        out.viol(rule, "%s|%s|regex-key" % (rule, body.id), where,
                 "with a pattern the key derives from [%s]; expected the text of a regex match (`Match::as_str`)" % util.origins_text(labs, 5))
        return 0
    names = [(bi, t) for bi, t in body.calls() if callee_matches(t, r"regex::Captures(::<'h>)?::name$")]
    gets = [(bi, t) for bi, t in body.calls() if callee_matches(t, r"regex::Captures(::<'h>)?::get$")]
    caps = [(bi, t) for bi, t in body.calls() if callee_matches(t, r"regex::Regex::captures$")]
    if scope_blocks is not None:
        names = [x for x in names if x[0] in scope_blocks]
        gets = [x for x in gets if x[0] in scope_blocks]
        caps = [x for x in caps if x[0] in scope_blocks]
    if len(caps) != 1 or len(names) != 1 or len(gets) != 1:
        out.viol(rule, "%s|%s|regex-shape" % (rule, body.id), where,
                 "expected one `captures`, one `name(\"value\")` and one `get(0)` in the regex key extraction, found %d/%d/%d" % (len(caps), len(names), len(gets)))
        return 0
    nbi, nt = names[0]
    gbi, gt = gets[0]
    gname = util.const_val(ctx, body, nt["args"][1]) if len(nt["args"]) > 1 else None
    gidx = util.const_val(ctx, body, gt["args"][1]) if len(gt["args"]) > 1 else None
    if gname != "value":
        out.viol(rule, "%s|%s|group-name" % (rule, body.id), ctx.where(body, nt["span"]), "the named group used as key is %r, documented is `value`" % gname)
    else:
        n += 1
    if gidx != 0:
        out.viol(rule, "%s|%s|group-index" % (rule, body.id), ctx.where(body, gt["span"]), "the fallback key is capture group %r, documented is the whole match (group 0)" % gidx)
    else:
        n += 1
    # get(0) only when name("value") is None
    cfg = cfg_of(body)
    if not cfg.dominates(nbi, gbi):
        out.viol(rule, "%s|%s|group-order" % (rule, body.id), ctx.where(body, gt["span"]),
                 "the whole match is taken without first looking for the `value` group")
    else:
        gs = util.guards(ctx, body, gbi)
        ok = False
        for br, vals, e in gs:
            txt = render(e, 400)
            if re.search(r"discr\(.*Captures(::<'h>)?::name\(", txt) and 1 not in vals:
                ok = True
        if ok:
            n += 1
        else:
            out.viol(rule, "%s|%s|group-precedence" % (rule, body.id), ctx.where(body, gt["span"]),
                     "the whole match is used on a path where the `value` group exists (it must only be the fallback)")
    # the regex is applied to the raw line of the loop / the parameter, not to something else
    ct = caps[0][1]
    clabs = ctx.prov.read_operand(body, ct["args"][1])
    bad = [l for l in clabs if l[0] == "call" and re.search(r"trim|to_lowercase|to_uppercase|replace", l[1])]
    if bad:
        out.viol(rule, "%s|%s|regex-input" % (rule, body.id), ctx.where(body, ct["span"]),
                 "the pattern is matched against a transformed line (%s), so match offsets no longer index the source line" % P.label_str(bad[0]))
    else:
        n += 1
    return n


def check_cmp_results(ctx, out, rule, vb=None):
    """Every ordering returned by the sort comparator is produced by the format's own comparison
    (str Ord::cmp for lexicographic, f64::total_cmp of the parsed numbers for numeric)."""
    vb = vb or work_view(ctx)
    n = 0
    if vb is None:
        return 0
    cmpf, cbi, ct = comparator_fn(ctx, vb)
    if cmpf is None:
        out.viol(rule, "%s|no-comparator" % rule, ctx.where(vb), "comparator function not found")
        return 0
    ccfg = cfg_of(cmpf)
    arms = {}
    enum = None
    for bi, j, s in cmpf.assigns():
        if s["rv"]["k"] == "discr" and (s["rv"].get("adt") or "").startswith("blockwatch::"):
            enum = s["rv"]["adt"]
            dl = s["lhs"]["l"]
            for bj, t in cmpf.terms():
                if t["k"] == "switch" and (util.op_place(t["op"]) or {}).get("l") == dl:
                    for v, tg in util.switch_arms(cmpf, bj).items():
                        if v != "otherwise":
                            arms[v] = tg
    vnames = {v["vi"]: v["name"] for v in ctx.facts.adts.get(enum, {"variants": []})["variants"]} if enum else {}
    for bi, j, s in cmpf.assigns():
        rv = s["rv"]
        if s["lhs"]["l"] == 0 and rv["k"] == "agg" and rv.get("variant") == "Ok":
            arm = None
            for v, tg in arms.items():
                if ccfg.dominates(tg, bi):
                    arm = vnames.get(v)
            labs = ctx.prov.read_operand(cmpf, rv["ops"][0])
            cmps = sorted({l[1] for l in labs if l[0] == "call" and re.search(r"::(cmp|total_cmp|partial_cmp|then|then_with|reverse|max|min)$|PartialOrd|::(lt|le|gt|ge)$", l[1])})
            if arm is None:
                out.viol(rule, "%s|unconditional-result" % rule, ctx.where(cmpf, s["span"]),
                         "the comparator returns a result (derived from [%s]) on a path that does not depend on the sort format: this ordering is not produced by the format's comparison (and skips e.g. numeric parsing, so non-numeric keys under numeric sort are not rejected)" % util.origins_text(labs, 4))
                continue
            want = r"impl std::cmp::Ord for str>::cmp$|impl std::cmp::Ord for \[.*\]>::cmp$" if arm == "Lexicographic" else r"f64>::total_cmp$"
            if len(cmps) == 1 and re.search(want, cmps[0]):
                n += 1
            else:
                out.viol(rule, "%s|%s|comparison" % (rule, arm), ctx.where(cmpf, s["span"]),
                         "under the %s format the ordering derives from %s; expected exactly %s" % (arm, cmps or util.origins_text(labs, 4), "str's Ord::cmp (code-point order)" if arm == "Lexicographic" else "f64::total_cmp of the two parsed numbers"))
    return n


def run(ctx, out, tier):
    vb = work_view(ctx)
    if vb is None:
        out.inst("C06.anchor", 0, 1)
        return meta()
    out.inst("C06.anchor", 1, 1, [vb.id])
    cfg = cfg_of(vb)
    E = ctx.expr(vb)

    # ------------------------------------------------------------------ C06.dir
    n_dir = 0
    samples = []
    # (1) the normalised direction: const "asc" iff trimmed attribute empty, else lower-cased attribute
    norm_locals = []
    for l, ds in vb.defs().items():
        kinds = []
        for d in ds:
            if d[0] == "call" and callee_matches(d[3], r"<impl str>::to_lowercase$"):
                kinds.append(("lower", d))
            elif d[0] == "call" and callee_matches(d[3], r"ToString>?::to_string$|String::from$|ToOwned>?::to_owned$"):
                c = util.const_of(ctx, d[3]["args"][0]) if d[3]["args"] else None
                ce = E.operand(d[3]["args"][0]) if d[3]["args"] else None
                if c is None and ce is not None and ce[0] == "const":
                    c = ce[1]
                kinds.append(("const:%s" % c, d))
        if any(k == "lower" for k, _ in kinds) and len(kinds) == len(ds):
            norm_locals.append((l, kinds))
    if len(norm_locals) != 1:
        out.viol("C06.dir", "C06.dir|normalised-direction", ctx.where(vb),
                 "could not identify the normalised sort direction (a String that is either the constant default or the lower-cased attribute); found %d candidates" % len(norm_locals))
    else:
        nl, kinds = norm_locals[0]
        for k, d in kinds:
            gs = util.guards(ctx, vb, d[1])
            emp = [(vals, render(e, 300)) for br, vals, e in gs if re.search(r"str::is_empty\(str::trim\(", render(e, 300))]
            if k.startswith("const:"):
                if k != "const:asc":
                    out.viol("C06.dir", "C06.dir|default", ctx.where(vb, d[3]["span"]), "an empty keep-sorted value defaults to %r, documented default is ascending" % k[6:])
                elif not emp or 0 in emp[0][0]:
                    out.viol("C06.dir", "C06.dir|default-guard", ctx.where(vb, d[3]["span"]), "the default direction is chosen on a condition other than `value.trim().is_empty()`")
                else:
                    n_dir += 1
            else:
                if not emp or emp[0][0] != {0}:
                    out.viol("C06.dir", "C06.dir|lower-guard", ctx.where(vb, d[3]["span"]), "the attribute is lower-cased on a condition other than `!value.trim().is_empty()`")
                else:
                    n_dir += 1
        samples.append("normalised := 'asc' if value.trim().is_empty() else value.to_lowercase()")
        # (2) Err iff normalised not in {asc, desc}
        err_found = False
        for bi, j, s in vb.assigns():
            rv = s["rv"]
            if s["lhs"]["l"] == 0 and rv["k"] == "agg" and rv.get("variant") == "Err":
                atoms = [linelevel.streq_atom(ctx, e, vals) for br, vals, e in util.guards(ctx, vb, bi)]
                atoms = [a for a in atoms if a]
                consts = {a[2]: a[3] for a in atoms if "normalized" in a[1] or True}
                if set(consts) >= {"asc", "desc"} and len(atoms) >= 2 and not any(a[0] != "streq" for a in atoms):
                    # this is the direction error exit
                    if consts["asc"] is False and consts["desc"] is False:
                        err_found = True
                        n_dir += 1
                    else:
                        out.viol("C06.dir", "C06.dir|err-polarity", ctx.where(vb, s["span"]),
                                 "the 'expected asc or desc' error is raised when the direction EQUALS one of them")
                        err_found = True
        if not err_found:
            out.viol("C06.dir", "C06.dir|err-missing", ctx.where(vb),
                     "no error exit guarded by `direction != \"asc\" && direction != \"desc\"` was found: an unknown direction would be accepted")
        samples.append("Err iff normalised ∉ {asc, desc}")
    # (3) the violating ordering
    ord_locals = []
    for l, ds in vb.defs().items():
        vs = []
        for d in ds:
            if d[0] == "stmt" and d[3]["rv"]["k"] == "agg" and d[3]["rv"].get("path") == "std::cmp::Ordering":
                vs.append((d[3]["rv"]["variant"], d))
        if vs and len(vs) == len(ds):
            ord_locals.append((l, vs))
    viol_ord = None
    if len(ord_locals) != 1:
        out.viol("C06.dir", "C06.dir|violating-ordering", ctx.where(vb),
                 "could not identify the violating ordering (a local assigned only Ordering constants); found %d candidates" % len(ord_locals))
    else:
        viol_ord, vs = ord_locals[0]
        table = {}
        for variant, d in vs:
            atoms = [linelevel.streq_atom(ctx, e, vals) for br, vals, e in util.guards(ctx, vb, d[1])]
            atoms = [a for a in atoms if a and a[2] in ("asc", "desc")]
            # the innermost guard decides
            table[variant] = atoms
        want = {"Greater": ("asc", True), "Less": ("asc", False)}
        for variant, atoms in table.items():
            if variant == "Equal":
                out.viol("C06.dir", "C06.dir|equal-violates", ctx.where(vb), "equal neighbours are treated as a violation (violating ordering = Equal)")
                continue
            ok = False
            for a in atoms:
                if variant == "Greater" and ((a[2] == "asc" and a[3]) or (a[2] == "desc" and not a[3])):
                    ok = True
                if variant == "Less" and ((a[2] == "asc" and not a[3]) or (a[2] == "desc" and a[3])):
                    ok = True
            if ok:
                n_dir += 1
            else:
                out.viol("C06.dir", "C06.dir|ordering|%s" % variant, ctx.where(vb),
                         "the violating ordering is %s under the condition %s; expected Greater for asc and Less for desc" % (variant, [(a[2], a[3]) for a in atoms]))
        if set(table) != {"Greater", "Less"}:
            out.viol("C06.dir", "C06.dir|ordering-set", ctx.where(vb), "the violating ordering takes the values %s; expected {Greater, Less}" % sorted(table))
        samples.append("violating := Greater if normalised == 'asc' else Less")
    out.inst("C06.dir", n_dir, 5, samples, exhaustive=True, note="direction table over {value empty, ==asc, ==desc}")

    # ------------------------------------------------------------------ line loop
    loops = linelevel.line_loops(ctx, vb)
    if len(loops) != 1:
        out.inst("C06.loop", len(loops), 1, note="exactly one loop over content.lines() expected")
        return meta()
    header, blocks, next_bb = loops[0]
    region = util.iter_region(vb, next_bb) | set(blocks)
    out.inst("C06.loop", 1, 1, ["line loop header bb%d, %d blocks" % (header, len(region))])
    pushes = util.violation_push_sites(vb)

    # ------------------------------------------------------------------ C06.cmp
    n_cmp = 0
    cmpf, cbi, ct = comparator_fn(ctx, vb)
    if cmpf is None:
        out.inst("C06.cmp", 0, 4, note="comparator function not found")
    else:
        ccfg = cfg_of(cmpf)
        # arms of the switch on the format
        arms = {}
        enum = None
        for bi, j, s in cmpf.assigns():
            if s["rv"]["k"] == "discr" and (s["rv"].get("adt") or "").startswith("blockwatch::"):
                enum = s["rv"]["adt"]
                dl = s["lhs"]["l"]
                for bj, t in cmpf.terms():
                    if t["k"] == "switch" and (util.op_place(t["op"]) or {}).get("l") == dl:
                        for v, tg in util.switch_arms(cmpf, bj).items():
                            if v != "otherwise":
                                arms[v] = tg
        vnames = {v["vi"]: v["name"] for v in ctx.facts.adts.get(enum, {"variants": []})["variants"]} if enum else {}
        if set(vnames.values()) != {"Lexicographic", "Numeric"}:
            out.viol("C06.cmp", "C06.cmp|formats", ctx.where(cmpf),
                     "the sort format enum has variants %s; the documented formats are lexicographic (default) and numeric (variant names are the accepted attribute values)" % sorted(vnames.values()))
        # every Ok(..) written to the return place
        for bi, j, s in cmpf.assigns():
            rv = s["rv"]
            if s["lhs"]["l"] == 0 and rv["k"] == "agg" and rv.get("variant") == "Ok":
                arm = None
                for v, tg in arms.items():
                    if ccfg.dominates(tg, bi):
                        arm = vnames.get(v)
                labs = ctx.prov.read_operand(cmpf, rv["ops"][0])
                cmps = sorted({l[1] for l in labs if l[0] == "call" and re.search(r"::(cmp|total_cmp|partial_cmp|then|then_with|reverse|max|min)$|PartialOrd|::(lt|le|gt|ge)$", l[1])})
                if arm is None:
                    out.viol("C06.cmp", "C06.cmp|unconditional-result", ctx.where(cmpf, s["span"]),
                             "the comparator returns a result (derived from [%s]) on a path that does not depend on the sort format: this ordering is not produced by the format's comparison (and skips e.g. numeric parsing)" % util.origins_text(labs, 4))
                    continue
                want = r"impl std::cmp::Ord for str>::cmp$|impl std::cmp::Ord for \[.*\]>::cmp$" if arm == "Lexicographic" else r"f64>::total_cmp$"
                if len(cmps) == 1 and re.search(want, cmps[0]):
                    n_cmp += 1
                else:
                    out.viol("C06.cmp", "C06.cmp|%s|comparison" % arm, ctx.where(cmpf, s["span"]),
                             "under the %s format the ordering derives from %s; expected exactly %s" % (arm, cmps or util.origins_text(labs, 4), "str's Ord::cmp (code-point order)" if arm == "Lexicographic" else "f64::total_cmp of the two parsed numbers"))
        # argument order of the comparison calls: (a, b) = (param 2, param 3)
        for bi, t in cmpf.calls():
            if callee_matches(t, r"Ord for str>::cmp$|f64>::total_cmp$"):
                la = ctx.prov.read_operand(cmpf, t["args"][0])
                lb = ctx.prov.read_operand(cmpf, t["args"][1])
                pa = {l[1] for l in la if l[0] == "param"}
                pb = {l[1] for l in lb if l[0] == "param"}
                if pa == {2} and pb == {3}:
                    n_cmp += 1
                else:
                    out.viol("C06.cmp", "C06.cmp|arg-order|%s" % callee_name(t).split("::")[-1], ctx.where(cmpf, t["span"]),
                             "`%s` compares (param %s, param %s); expected (a, b) = (first key, second key)" % (callee_name(t), sorted(pa), sorted(pb)))
        # numeric: both keys parsed as f64, parse failure -> Err (SH.err covers the propagation)
        parses = [t for bi, t in cmpf.calls() if callee_matches(t, r"<impl str>::parse$") and "f64" in (t.get("path") or "")]
        if len(parses) == 2:
            n_cmp += 1
        else:
            out.viol("C06.cmp", "C06.cmp|numeric-parse", ctx.where(cmpf), "expected both keys to be parsed as f64 under the numeric format, found %d parse call(s)" % len(parses))
        # call site: (previous key, current key)
        ea = E.operand(ct["args"][1])
        eb = E.operand(ct["args"][2])

        def root_local(e):
            while e[0] in ("proj",):
                e = e[1]
            return e

        ra, rb = root_local(ea), root_local(eb)

        def carried(r):
            if r[0] != "var":
                return False
            ds = vb.defs().get(r[1], [])
            return any(d[1] not in blocks for d in ds) and any(d[1] in blocks for d in ds)

        def fresh(r):
            if r[0] == "var":
                ds = vb.defs().get(r[1], [])
                return ds and all(d[1] in blocks for d in ds)
            return r[0] == "call"

        if carried(ra) and fresh(rb):
            n_cmp += 1
            prev_local = ra[1]
        else:
            prev_local = ra[1] if ra[0] == "var" else None
            out.viol("C06.cmp", "C06.cmp|call-order", ctx.where(vb, ct["span"]),
                     "the comparator is called with (%s, %s); expected (previous key, current key): the first argument must be the value carried over from the previous line, the second the key of the current line" % (render(ea, 80), render(eb, 80)))
        out.inst("C06.cmp", n_cmp, 6, ["%s: Lexicographic -> str::cmp(a,b); Numeric -> total_cmp(parse(a)?, parse(b)?)" % cmpf.id, "call: cmp(prev, curr)"])

        # -------------------------------------------------------------- C06.violates
        n_v = 0
        for bi, t in pushes:
            if bi not in region:
                continue
            ok = False
            for br, vals, e in util.guards(ctx, vb, bi):
                txt = render(e, 600)
                if re.search(r"Ordering as std::cmp::PartialEq>::eq\(", txt) or re.search(r"PartialEq>::eq\(", txt) and "Ordering" in txt:
                    # operands: comparison result and the violating ordering
                    if e[0] == "call":
                        roots = [root_local(a) for a in e[2]]
                        uses_viol = any(r[0] == "var" and r[1] == viol_ord for r in roots)
                        uses_cmp = any(find_calls(a, re.escape(cmpf.id) + "$") for a in e[2])
                        if uses_viol and uses_cmp and 0 not in vals:
                            ok = True
                        elif uses_viol and uses_cmp:
                            out.viol("C06.violates", "C06.violates|polarity", ctx.where(vb, t["span"]),
                                     "the violation is pushed when the comparison result DIFFERS from the violating ordering")
                            ok = True
            if ok:
                n_v += 1
            else:
                out.viol("C06.violates", "C06.violates|guard", ctx.where(vb, t["span"]),
                         "the keep-sorted violation push is not guarded by `cmp(prev, curr) == violating ordering`")
        out.inst("C06.violates", n_v, 1, ["push iff cmp(prev,curr) == violating"])

        # -------------------------------------------------------------- C06.adjacent
        n_adj = 0
        if prev_local is not None:
            assigns_in_loop = [d for d in vb.defs().get(prev_local, []) if d[1] in blocks]
            assign_blocks = {d[1] for d in assigns_in_loop}
            # the arm on which a key exists: Some-arm of the switch on the key extraction result
            key_arm = None
            for bi, j, s in vb.assigns():
                if bi in blocks and s["rv"]["k"] == "discr":
                    e = E.place(s["rv"]["place"])
                    r = root_local(e)
                    if r[0] == "var" and any(d[0] == "call" and (d[3].get("res") or "") in [k[0].id for k in key_fns(ctx, vb)] for d in vb.defs().get(r[1], [])):
                        dl = s["lhs"]["l"]
                        for bj, t in vb.terms():
                            if t["k"] == "switch" and (util.op_place(t["op"]) or {}).get("l") == dl:
                                key_arm = util.switch_arms(vb, bj).get(1)
            latches = [x for x in blocks if header in cfg.succ[x]]
            if key_arm is None or not assign_blocks:
                out.viol("C06.adjacent", "C06.adjacent|shape", ctx.where(vb), "could not find the branch on the extracted key or the update of the previous key inside the line loop")
            else:
                inside_avoid = (set(range(cfg.n)) - set(blocks)) | assign_blocks
                r = cfg.reach(key_arm, avoid=inside_avoid)
                if any(l in r for l in latches):
                    out.viol("C06.adjacent", "C06.adjacent|stale-previous", ctx.where(vb),
                             "there is a path through the line loop on which a key was extracted but the previous key is not replaced by it: later keys would be compared with an older key instead of their neighbour")
                else:
                    n_adj += 1
                # the new previous value is the current key
                for d in assigns_in_loop:
                    if d[0] == "stmt":
                        labs = ctx.prov.read_operand(vb, d[3]["rv"]["op"]) if d[3]["rv"]["k"] == "use" else set()
                        keyfn_ids = [k[0].id for k in key_fns(ctx, vb)]
                        if any(P.has_call(labs, re.escape(k) + "$") for k in keyfn_ids):
                            n_adj += 1
                        else:
                            out.viol("C06.adjacent", "C06.adjacent|value", ctx.where(vb, d[3]["span"]),
                                     "the previous key is updated from [%s], not from the key extracted from the current line" % util.origins_text(labs, 4))
        out.inst("C06.adjacent", n_adj, 2, ["prev := Some(curr) on every non-violating path with a key"])

    # ------------------------------------------------------------------ C06.first
    n_first = linelevel.first_wins(ctx, out, "C06.first", vb, region, header, pushes, "keep-sorted")
    out.inst("C06.first", n_first, 1, ["push -> leaves the line loop"])

    # ------------------------------------------------------------------ C06.key
    n_key = 0
    kfs = key_fns(ctx, vb)
    for cb, bi, t in kfs:
        n_key += check_key_fn(ctx, out, cb)
        # the line handed to the extractor is the loop's line
        la = ctx.prov.read_operand(vb, t["args"][0])
        if not P.has_call(la, r"<impl str>::lines$"):
            out.viol("C06.key", "C06.key|input|%s" % cb.id, ctx.where(vb, t["span"]), "the key extractor is not applied to a line of the block content")
        else:
            n_key += 1
        extra = sorted({l[1] for l in la if l[0] == "call" and re.search(r"trim|to_lowercase|replace|skip|take|rev|filter", l[1])})
        if extra:
            out.viol("C06.key", "C06.key|input-transformed|%s" % cb.id, ctx.where(vb, t["span"]), "the line is transformed (%s) before key extraction" % extra)
    out.inst("C06.key", n_key, 8, [k[0].id for k in kfs])

    shared.sh_err(ctx, out, ctx.validator_bodies(NAME), floor=10)
    shared.sh_state(ctx, out, NAME)
    shared.sh_visit(ctx, out, NAME)
    # the validator's diagnostics survive the merge with other validators' (append-only), and the
    # attribute text reaches it unmodified (comment delimiters are blanked exactly once)
    shared.sh_merge(ctx, out, ctx.reachable_bodies())
    from rules.C03 import check_blank
    check_blank(ctx, out)
    # the validator only runs if the lazy detection loop creates it: every pending detector is asked
    # about every block (shared with C11/C13/C14)
    from rules.C14 import check_once as _detect_once, detect_fn as _detect_fn
    _dv = _detect_fn(ctx)
    if _dv is not None:
        _detect_once(ctx, out, _dv, rule="C06.detect")
    else:
        out.inst("C06.detect", 0, 4)
    from rules.C10 import check_line_base
    check_line_base(ctx, out, "keep-sorted", "C06.line")
    shared.sh_flags(ctx, out, "keep-sorted", "C06.flags")
    return meta()


def meta():
    return {
        "explanation": "Decides the control skeleton of keep-sorted on every path of the validator's MIR: direction table (exhaustive over the three predicates), comparator per format and its argument order, (previous,current) at the call site, violation iff cmp == violating ordering, previous key always replaced by the current key, first violation leaves the loop, key provenance (trim / value group else whole match), no state across blocks, no swallowed Result. It decides these structural parts and not the verdict for a concrete key sequence.",
        "undecided": "string / f64 comparison results and regex matching on runtime values.",
        "assumptions": ["strum's EnumString accepts exactly the variant names (ascii case-insensitively)"],
    }
