"""C20 — Same input, same verdict: runs are deterministic and location-independent.

Decided: absence of order-, time- and location-sensitive constructs on the way from the inputs to
the exit status and the diagnostic multiset: every loop over an unordered source (hash-map / hash-set
iteration, JoinSet::join_next) is left only on exhaustion or with Err (one tabled exception), no
selection (`next`/`find`/`first`/…) is made on an unordered source, maps written inside such loops
are keyed by the loop's own (unique) key, no outer variable is overwritten with a loop-dependent
value; diagnostics are merged by appending; the stateful tree-sitter parsers are always called
without a previous tree; one Lua interpreter per script run; no clock / random / thread-id /
CPU-count source; only the five documented environment variables; current_dir only seeds the
repository-root search; no state carried between blocks; block lists are sorted by position.
Not decided: internals of tokio and of the file-system walk.
"""
import re

from engine.cfg import cfg_of
from engine.expr import render, walk, find_calls
from engine.facts import callee_name, callee_matches
from engine import prov as P
from rules import shared, util
from rules.C12 import only_err_from

UNORDERED_NEXT = re.compile(r"<std::collections::hash_map::(Iter|IterMut|IntoIter|Keys|Values|ValuesMut|IntoKeys|IntoValues|Drain)<.*Iterator>::next$|<std::collections::hash_set::(Iter|IntoIter|Drain|Difference|Intersection|Union)<.*Iterator>::next$")
UNORDERED_SRC = re.compile(r"HashMap::<K, V, S, A>::(iter|iter_mut|keys|values|values_mut|into_keys|into_values|drain)$|HashSet::<T, S, A>::(iter|drain|difference|intersection|union)$|<&'a std::collections::Hash(Map|Set)<.*IntoIterator>::into_iter$|<std::collections::Hash(Map|Set)<.*IntoIterator>::into_iter$")
SELECT = re.compile(r"Iterator::(next|find|find_map|position|last|nth|min|max|min_by|max_by|min_by_key|max_by_key|reduce|fold|take|skip|step_by|peekable|zip|enumerate|rev)$|<impl \[T\]>::(first|last)$")
ENV_ALLOWED = {"BLOCKWATCH_TERMINAL_MODE", "BLOCKWATCH_LUA_MODE", "BLOCKWATCH_AI_API_KEY", "BLOCKWATCH_AI_API_URL", "BLOCKWATCH_AI_MODEL"}
AMBIENT = re.compile(r"^std::time::|^tokio::time::|SystemTime::now$|Instant::now$|^rand::|^getrandom::|^fastrand::|^std::thread::current$|available_parallelism$|^num_cpus::|hostname|^std::process::id$|^std::env::(vars|vars_os|args|args_os|temp_dir|home_dir|current_exe)$|RandomState::new$|^uuid::")

EXCEPTIONS = {
    "C20.first|blockwatch::validators::detect_validators|early-exit": "`break 'outer` in validator detection is taken only when no detector is left undetected (guard checked by C14.once/C11.once): stopping early then cannot change which validators exist",
}


def unordered_loops(ctx, body):
    cfg = cfg_of(body)
    res = []
    E = ctx.expr(body)
    for bi, t in body.calls():
        nm = callee_name(t)
        is_un = bool(UNORDERED_NEXT.search(nm))
        is_join = bool(re.search(r"JoinSet::<T>::join_next", nm))
        if not (is_un or is_join):
            # generic `<I as Iterator>::next` over an unordered source
            if re.search(r"Iterator>?::next$", nm) and t["args"]:
                src = render(E.operand(t["args"][0]), 3000)
                if re.search(r"HashMap::(values|keys|iter|into_values|into_keys|drain)\(|HashSet::(iter|drain)\(", src) and not re.search(r"sort|BTree", src):
                    is_un = True
        if not (is_un or is_join):
            continue
        h = cfg.innermost_loop(bi)
        res.append((bi, t, h, "join" if is_join else "hash"))
    return res


def run(ctx, out, tier):
    n_loops = 0
    samples = []
    for b in ctx.reachable_bodies():
        cfg = cfg_of(b)
        for bi, t, h, kind in unordered_loops(ctx, b):
            if h is None:
                if kind == "hash":
                    out.viol("C20.first", "C20.first|%s|single-next" % b.id, ctx.where(b, t["span"]),
                             "`next()` is taken once from an unordered (hash-based) iterator: which element comes first depends on the per-process hash seed")
                continue
            n_loops += 1
            if len(samples) < 5:
                samples.append("%s loop@%s" % (kind, ctx.where(b, t["span"])))
            blocks = cfg.loops()[h]
            region = util.iter_region(b, bi) | set(blocks)
            normal = util.normal_loop_exit(b, cfg, h, blocks, bi)
            # (1) exits
            for x, y in util.loop_exits(b, cfg, blocks):
                if util.skip_trivial(b, y) == normal or y == normal:
                    continue
                tt = b.blocks[x]["term"]
                # the None arm of the driving next() (possibly through the await loop)
                if tt["k"] == "switch":
                    e = util.switch_operand_expr(ctx, b, x)
                    txt = render(e, 4000)
                    if e[0] == "discr" and re.search(r"(Iterator>?::next|join_next)", txt) and not re.search(r"as:Some", txt.split("next")[-1]):
                        arms = util.switch_arms(b, x)
                        if arms.get(0, arms["otherwise"]) == y:
                            continue
                okerr, rr = only_err_from(ctx, b, y)
                if okerr:
                    continue
                # await machinery: yield/resume edges inside a poll loop are not exits of the user loop
                if b.coroutine and any(b.blocks[z]["term"] and b.blocks[z]["term"]["k"] == "yield" for z in blocks if cfg.innermost_loop(z) != h):
                    inner_poll = [hh for hh in cfg.loops() if hh in blocks and hh != h]
                    if any(x in cfg.loops()[hh] for hh in inner_poll):
                        continue
                key = "C20.first|%s|early-exit" % b.id
                if key in EXCEPTIONS:
                    out.exception(key, EXCEPTIONS[key])
                    continue
                out.viol("C20.first", key, ctx.where(b, b.blocks[x]["term"].get("span")),
                         "a loop over an unordered source (%s) can be left early with success: which elements were visited before then depends on hash seeds / completion order" % ("task completion order" if kind == "join" else "hash-map iteration"))
            # (2) writes inside the loop
            loop_key = None
            for x in region:
                for s in b.blocks[x]["stmts"]:
                    pass
            for x in sorted(region):
                tt = b.blocks[x]["term"]
                if tt and tt["k"] == "call" and callee_matches(tt, r"HashMap::<K, V, S, A>::insert$|BTreeMap::<K, V, A>::insert$"):
                    if kind != "hash":
                        continue
                    kl = ctx.prov.read_operand(b, tt["args"][1])
                    dl = t["dest"]["l"]
                    loopkey = {l for l in ctx.prov.read_local(b, dl, ("0", "0")) if l[0] != "const"}
                    kln = {l for l in kl if l[0] != "const"}
                    from_loop_key = bool(kln) and kln <= loopkey
                    if not from_loop_key:
                        out.viol("C20.lastwins", "C20.lastwins|%s|insert" % b.id, ctx.where(b, tt["span"]),
                                 "inside a loop over a hash map, `insert` is keyed by [%s], not by the loop's own key: when two iterations produce the same key the survivor depends on the iteration order" % util.origins_text(kl, 4))
                for s in b.blocks[x]["stmts"]:
                    if s["k"] != "assign" or s["lhs"]["p"]:
                        continue
                    l = s["lhs"]["l"]
                    loc = b.locals[l]
                    if not loc.get("user") or not loc.get("name"):
                        continue
                    if not any(d[1] not in region for d in b.defs().get(l, [])):
                        continue
                    rv = s["rv"]
                    if rv["k"] == "use" and "k" in rv["op"]:
                        continue   # constant
                    if rv["k"] == "agg" and not rv["ops"]:
                        continue   # unit variant
                    if re.search(r"::Iter<|::IntoIter<|JoinSet|std::task::Context|ResumeTy|^\(\)$", loc["ty"]) or loc["name"] in ("iter", "_task_context"):
                        continue
                    # the work list of pending detectors: it only ever shrinks to the detectors that
                    # have not fired yet (C14.once decides that discipline); which validators get
                    # created does not depend on the order, only when
                    if "dyn blockwatch::validators::ValidatorDetector" in loc["ty"]:
                        continue
                    labs = ctx.prov.read_place(b, s["lhs"])
                    out.viol("C20.lastwins", "C20.lastwins|%s|%s" % (b.id, loc["name"]), ctx.where(b, s["span"]),
                             "variable `%s` is declared outside a loop over an unordered source and overwritten inside it with a loop-dependent value: the last writer depends on the iteration order" % loc["name"])
            # (3) a container that one iteration writes and another reads: whether the reader sees the write
            # depends on which of the two came first
            if kind == "hash":
                WR = r"(HashMap::<K, V, S, A>|BTreeMap::<K, V, A>)::(insert|remove|entry|retain|clear)$|(HashSet::<T, S, A>|BTreeSet::<T, A>)::(insert|remove|retain|clear)$"
                RD = r"(HashMap::<K, V, S, A>|BTreeMap::<K, V, A>)::(get|get_mut|contains_key|get_key_value)$|(HashSet::<T, S, A>|BTreeSet::<T, A>)::(contains|get)$|ops::Index<.*>>?::index$"
                dl = t["dest"]["l"]
                loopkey = {l for l in ctx.prov.read_local(b, dl, ("0", "0")) if l[0] != "const"}
                written = {}
                for x in sorted(region):
                    tt = b.blocks[x]["term"]
                    if tt and tt["k"] == "call" and tt["args"] and callee_matches(tt, WR):
                        written.setdefault(util.base_path(b, tt["args"][0]), tt)
                for x in sorted(region):
                    tt = b.blocks[x]["term"]
                    if not (tt and tt["k"] == "call" and len(tt["args"]) > 1 and callee_matches(tt, RD)):
                        continue
                    if not re.search(r"Hash(Map|Set)<|BTree(Map|Set)<", (tt.get("arg_tys") or [""])[0]):
                        continue
                    base = util.base_path(b, tt["args"][0])
                    if base not in written or base[0] is None:
                        continue
                    kln = {l for l in ctx.prov.read_operand(b, tt["args"][1]) if l[0] != "const"}
                    if kln and kln <= loopkey:
                        continue        # the iteration's own entry
                    out.viol("C20.lastwins", "C20.lastwins|%s|read-after-write" % b.id, ctx.where(b, tt["span"]),
                             "inside a loop over a hash map, a map that the loop also writes (`%s`) is read with a key that is not the iteration's own: whether the entry written by another iteration is already there depends on the iteration order (the per-process hash seed)" % callee_name(written[base]).split("::")[-1])
    out.inst("C20.first", n_loops, 15, samples, note="loops over hash-based iteration / join_next examined (exits, keyed inserts, overwritten outer variables, reads of what other iterations write)")

    # ------------------------------------------------------------------ selection on unordered chains
    n_sel = 0
    for b in ctx.reachable_bodies():
        E = ctx.expr(b)
        for bi, t in b.calls():
            if SELECT.search(callee_name(t)) and t["args"]:
                src = render(E.operand(t["args"][0]), 3000)
                if re.search(r"HashMap::(values|keys|iter|into_values|into_keys|drain)\(|HashSet::(iter|drain)\(|IntoIterator>::into_iter\((HashMap|HashSet)", src) and not re.search(r"sort", src):
                    if re.search(r"Iterator::next$", callee_name(t)) and cfg_of(b).innermost_loop(bi) is not None:
                        continue
                    out.viol("C20.select", "C20.select|%s|%s" % (b.id, callee_name(t).split("::")[-1]), ctx.where(b, t["span"]),
                             "`%s` selects from an unordered (hash-based) iterator `%s`" % (callee_name(t).split("::")[-1], src[:100]))
            n_sel += 1
    out.inst("C20.select", 1, 1, note="%d call sites scanned for order-sensitive selection on hash-based iterators" % n_sel)

    # ------------------------------------------------------------------ SH.merge
    bodies = ctx.reachable_bodies()
    shared.sh_merge(ctx, out, bodies)

    # ------------------------------------------------------------------ C20.parser
    p = 0
    for b in bodies:
        for bi, t in b.calls():
            if callee_matches(t, r"^tree_sitter::Parser::(parse|parse_with|parse_with_options|parse_utf16)$"):
                e = ctx.expr(b).operand(t["args"][2]) if len(t["args"]) > 2 else None
                if e is not None and e[0] == "agg" and e[1].endswith("Option::None"):
                    p += 1
                else:
                    out.viol("C20.parser", "C20.parser|%s|old-tree" % b.id, ctx.where(b, t["span"]),
                             "the shared tree-sitter parser is called with a previous tree (`%s`): a file's parse would depend on which file was parsed before it" % (render(e, 80) if e else "?"))
            if callee_matches(t, r"^tree_sitter::Parser::(set_included_ranges|set_timeout_micros|reset)$"):
                out.viol("C20.parser", "C20.parser|%s|%s" % (b.id, callee_name(t).split("::")[-1]), ctx.where(b, t["span"]), "parser state is changed with `%s`" % callee_name(t).split("::")[-1])
    out.inst("C20.parser", p, 2, note="tree_sitter::Parser::parse call sites, all with old_tree = None")

    # ------------------------------------------------------------------ C20.ambient
    a = 0
    for b in bodies:
        for bi, t in b.calls():
            nm = callee_name(t)
            d = t.get("def") or ""
            if AMBIENT.search(nm) or AMBIENT.search(d):
                out.viol("C20.ambient", "C20.ambient|%s|%s" % (b.id, nm.split("::")[-1]), ctx.where(b, t["span"]), "`%s` brings a clock / random / process-dependent value into the run" % nm)
            if callee_matches(t, r"^std::env::(var|var_os)$"):
                v = util.const_val(ctx, b, t["args"][0]) if t["args"] else None
                if v is None:
                    # the name is an argument of a helper: the names are those of its (inlined) uses
                    names = shared.env_names_of(ctx, b)
                    if names and names <= set(ENV_ALLOWED):
                        a += len(names)
                        continue
                if v in ENV_ALLOWED:
                    a += 1
                else:
                    out.viol("C20.ambient", "C20.ambient|%s|env|%s" % (b.id, v), ctx.where(b, t["span"]), "environment variable %r is read; only the five documented BLOCKWATCH_* variables may influence a run" % (v,))
            if callee_matches(t, r"^std::env::current_dir$"):
                if b.id.startswith("bwbin::"):
                    a += 1
                else:
                    out.viol("C20.ambient", "C20.ambient|%s|current_dir" % b.id, ctx.where(b, t["span"]), "the current directory is used outside repository-root discovery: results would depend on where blockwatch is started")
            if callee_matches(t, r"^std::env::set_current_dir$|^std::env::set_var$"):
                out.viol("C20.ambient", "C20.ambient|%s|%s" % (b.id, nm.split("::")[-1]), ctx.where(b, t["span"]), "`%s` changes process-global state" % nm)
    out.inst("C20.ambient", a, 6, note="5 env::var sites with documented names + current_dir in main")

    # ------------------------------------------------------------------ sorted outputs
    s = 0
    rep = [b for b in bodies if re.search(r"FileBlocks::to_serializable_report$", b.id)]
    for b in rep:
        cfg = cfg_of(b)
        sorts = [bi for bi, t in b.calls() if callee_matches(t, r"<impl \[T\]>::(sort|sort_by|sort_by_key|sort_unstable|sort_unstable_by|sort_unstable_by_key|sort_by_cached_key)$")]
        if sorts and all(cfg.dominates(x, ex) for x in sorts[:1] for ex in cfg.exits):
            s += 1
        else:
            out.viol("C20.sorted", "C20.sorted|list-report", ctx.where(b), "the per-file block listing is not sorted before it is returned")
    s += check_block_sort(ctx, out, "C20.sorted")
    out.inst("C20.sorted", s, 3, ["list report sorted by line; parsed blocks sorted by start position"])

    # ------------------------------------------------------------------ per-block isolation and fresh interpreters
    for name in ("keep-sorted", "keep-unique", "line-pattern", "line-count", "check-lua", "check-ai"):
        shared.sh_state(ctx, out, name)
    # one interpreter per script run (shared with C13 / C17 / C18)
    from rules.C18 import check_fresh
    check_fresh(ctx, out, "C20.interp")
    shared.sh_traverse(ctx, out)
    # which validators get created must not depend on the (hash-seeded) order in which files and blocks
    # are met: the lazy detection loop asks every pending detector about every block (shared with C14)
    from rules.C14 import check_once as _detect_once, detect_fn as _detect_fn
    _dv = _detect_fn(ctx)
    if _dv is not None:
        _detect_once(ctx, out, _dv, rule="C20.detect")
    else:
        out.inst("C20.detect", 0, 4)
    # the set of files the walk yields does not depend on the start directory (shared with C12 / C15)
    from rules.C12 import check_walkfiles
    check_walkfiles(ctx, out, rule="C20.walkfiles")
    shared.check_scan_state(ctx, out, "C20.scanstate")
    # which task finishes first must not decide what is reported: every joined result reaches the diagnostics and
    # the join loop ends only on exhaustion or Err (shared with C18 / C19)
    from rules import asyncval
    asyncval.check_collector(ctx, out, "C20lua", "check-lua")
    asyncval.check_collector(ctx, out, "C20ai", "check-ai")
    return meta()


def check_block_sort(ctx, out, rule):
    """Parsed blocks are sorted by their full start position before they are returned."""
    s = 0
    from rules.C12 import pairing_fn
    pf = pairing_fn(ctx)
    if pf is None:
        out.viol(rule, "%s|pairing-fn" % rule, "-", "pairing function not found")
        return 0
    cfg = cfg_of(pf)
    sorts = [(bi, t) for bi, t in pf.calls() if callee_matches(t, r"<impl \[T\]>::(sort|sort_by|sort_by_key|sort_unstable_by|sort_unstable_by_key)$")]
    oks = [bi for bi, j, st in pf.assigns() if st["lhs"]["l"] == 0 and st["rv"]["k"] == "agg" and st["rv"].get("variant") == "Ok"]
    if sorts and all(cfg.dominates(sorts[0][0], o) for o in oks):
        s += 1
        st = sorts[0][1]
        cb = None
        pl = (st["args"][1].get("m") or st["args"][1].get("c")) if len(st["args"]) > 1 else None
        if pl:
            adt = pf.locals[pl["l"]].get("adt")
            cb = ctx.facts.body(adt) if adt else None
        if cb is not None:
            keyl = set()
            for x in ctx.facts.with_descendants(cb):
                for bi2, t2 in x.calls():
                    for a2 in t2["args"]:
                        keyl |= ctx.prov.read_operand(x, a2)
                keyl |= ctx.prov.read_local(x, 0, ())
            only_line = P.has_path(keyl, "line") and not P.has_call(keyl, r"Position as std::cmp::Ord>::cmp$|Position as std::cmp::PartialOrd>::partial_cmp$") and not P.has_path(keyl, "character")
            if only_line:
                out.viol(rule, "%s|block-order-key" % rule, ctx.where(cb),
                         "blocks are sorted by line only: blocks whose start tags share a line are reported in collection (innermost-first) order instead of source order")
            else:
                s += 1
        else:
            s += 1
    else:
        out.viol(rule, "%s|blocks" % rule, ctx.where(pf), "parsed blocks are not sorted by start position before they are returned")
    return s


def meta():
    return {
        "explanation": "A census (A8/A12) over every body reachable from main: loops over hash-based iteration and join_next are checked for early successful exits, order-dependent map writes and overwritten outer variables; call sites are scanned for order-sensitive selection on hash-based iterators and for clock / random / process-dependent sources; environment and current-directory uses are enumerated against the documented list; parser calls must pass no previous tree; outputs are sorted by position; validators carry no state between blocks and each script run gets its own interpreter; merging is append-only. The check decides the absence of these constructs, which is what makes the verdict independent of hash seeds, scheduling and start directory.",
        "undecided": "ordering inside tokio and the `ignore` walker (irrelevant given the above); OS-level nondeterminism.",
        "assumptions": ["std's HashMap/HashSet and tokio's JoinSet are the only unordered sources used"],
    }
