"""C14 — --enable/--disable select validators without side effects.

Decided: the registered name of each of the seven validators equals the attribute key its detector
and validator look at and the `code` of every diagnostic it produces (so removing a name removes
exactly that code); names pairwise distinct; the detector filter's complete truth table over
{enabled set empty, name in enabled, name in disabled}; the two sets reach the filter from the right
flags (disabled <- Args::disabled_validators, enabled <- Args::enabled_validators, both collected
into sets); flag values are accepted only if they are exactly a registered name; both-flags rejected
in Args::validate, which dominates everything else in main; the lazy detection loop neither loses
nor duplicates a detector for any block order.
Not decided: clap's own parsing.
"""
import os
import re

from engine.cfg import cfg_of
from engine.expr import render, walk, find_calls
from engine.facts import callee_name, callee_matches
from engine import prov as P
from engine import tables
from rules import shared, util

EXPECTED = ["affects", "keep-sorted", "keep-unique", "line-pattern", "line-count", "check-ai", "check-lua"]
COMMON_KEYS = {"severity", "name"}


def attr_keys(ctx, bodies):
    """String constants used as keys of `attributes` lookups (get / contains_key / index)."""
    keys = {}
    for b in bodies:
        E = ctx.expr(b)
        for bi, t in b.calls():
            if not callee_matches(t, r"HashMap::<K, V, S, A>::(get|contains_key|remove)$|Index<&Q>>::index$|HashMap<K, V, S> as std::ops::Index<&Q>>::index$"):
                continue
            if not t["args"]:
                continue
            a0 = render(E.operand(t["args"][0]), 400)
            if "attributes" not in a0:
                continue
            if len(t["args"]) > 1:
                v = util.const_val(ctx, b, t["args"][1])
                if isinstance(v, str):
                    keys.setdefault(v, []).append(ctx.where(b, t["span"]))
    return keys


def violation_codes(ctx, bodies):
    codes = {}
    for b in bodies:
        E = ctx.expr(b)
        for bi, t in b.calls():
            if callee_matches(t, r"^blockwatch::validators::Violation::new$"):
                e = E.operand(t["args"][1])
                cs = [x[1] for x in walk(e) if x[0] == "const" and isinstance(x[1], str)]
                codes.setdefault(cs[0] if len(cs) == 1 else "<%s>" % render(e, 80), []).append(ctx.where(b, t["span"]))
    return codes


def check_names(ctx, out):
    roles = ctx.roles()
    vals = roles.get("validators", {})
    n = 0
    samples = []
    names = list(vals.keys())
    if sorted(names) != sorted(EXPECTED):
        out.viol("C14.names", "C14.names|registered-set", "-", "registered validators are %s; documented are %s" % (names, EXPECTED))
    if len(set(names)) != len(names):
        out.viol("C14.names", "C14.names|duplicate-name", "-", "a validator name is registered twice: %s" % names)
    seen_validate = {}
    for name, info in vals.items():
        if not info.get("detect") or not info.get("validate"):
            out.viol("C14.names", "C14.names|%s|unresolved" % name, "-", "could not resolve detector/validator of `%s` from the factory table (%s)" % (name, info.get("problems")))
            continue
        det = ctx.facts.bodies[info["detect"]]
        dkeys = attr_keys(ctx, ctx.facts.with_descendants(det))
        if info.get("by_model"):
            # a detector resolved by walking the code (data-driven / generic): the keys it asked for on that walk
            dkeys = list(info.get("detect_keys") or [])
        if set(dkeys) == {name}:
            n += 1
        else:
            out.viol("C14.names", "C14.names|%s|detect-key" % name, ctx.where(det),
                     "the detector registered as `%s` looks at attribute(s) %s; disabling `%s` would then switch off a validator that is triggered by another attribute" % (name, sorted(dkeys), name))
        region = [b for b in ctx.validator_bodies(name) if "validators::" in b.id]
        vkeys = attr_keys(ctx, region)
        extra = [k for k in vkeys if k != name and not k.startswith(name + "-") and k not in COMMON_KEYS]
        if name in vkeys and not extra:
            n += 1
        else:
            out.viol("C14.names", "C14.names|%s|validate-key" % name, ctx.where(ctx.facts.bodies[info["validate"]]),
                     "the validator registered as `%s` reads attribute(s) %s; expected `%s` (and `%s-*` options)" % (name, sorted(vkeys), name, name))
        codes = violation_codes(ctx, region)
        if set(codes) == {name}:
            n += 1
        else:
            out.viol("C14.names", "C14.names|%s|code" % name, ctx.where(ctx.facts.bodies[info["validate"]]),
                     "diagnostics of the validator registered as `%s` carry code(s) %s: --disable %s would not remove exactly these diagnostics" % (name, sorted(codes), name))
        if info["validate"] in seen_validate:
            out.viol("C14.names", "C14.names|%s|shared-validator" % name, "-", "validators `%s` and `%s` share one validate body" % (name, seen_validate[info["validate"]]))
        seen_validate[info["validate"]] = name
        samples.append("%s -> %s -> %s" % (name, info["detector_adt"].split("::")[-1], info["validator_adts"][0].split("::")[-1]))
    out.inst("C14.names", n, 21, samples, exhaustive=True, note="7 names x {detector key, validator key, diagnostic code}")
    return n


def detect_fn(ctx):
    """The function that filters the factory table and runs the lazy detection loop."""
    cands = []
    for b in ctx.facts.bodies.values():
        if b.promoted is not None or b.kind != "Fn":
            continue
        if any(callee_matches(t, r"validators::ValidatorDetector::detect$") for bi, t in b.calls()):
            cands.append(b)
    if len(cands) == 1:
        return cands[0]
    # the detect call sits in a helper / a method of a collector: the function that hands out both lists of
    # validators is the one that runs the detection
    outs = [b for b in ctx.reachable_bodies() if b.promoted is None and b.kind == "Fn"
            and "dyn blockwatch::validators::ValidatorSync" in b.local_ty(0) and "dyn blockwatch::validators::ValidatorAsync" in b.local_ty(0)
            and any(callee_matches(t, r"validators::ValidatorDetector::detect$") for x in ctx.region(b) for bi, t in x.calls())]
    return outs[0] if len(outs) == 1 else None


def _check_filter_cases(ctx, out, dv, rule="C14.filter"):
    """The same table when the selection is not a closure handed to `filter` (an explicit loop over the
    factory table, a helper function): by case analysis over the normalised function - for each of the
    8 valuations of (enabled set empty, name in enabled, name in disabled), is a factory called?"""
    from engine import casewalk as CW
    import itertools
    v = ctx.inl(dv, skip=ctx.domain_api, tag="domain", sugar=True)
    cfg = cfg_of(v)
    main = ctx.main_view()
    role_of_param = {}
    if main is not None:
        for bi, t in main.calls():
            if (t.get("res") or "") == dv.id:
                for idx, a in enumerate(t["args"]):
                    labs = ctx.prov.read_operand(main, a)
                    if P.has_call(labs, r"flags::Args::disabled_validators$"):
                        role_of_param[idx + 1] = "DISABLED"
                    if P.has_call(labs, r"flags::Args::enabled_validators$"):
                        role_of_param[idx + 1] = "ENABLED" if role_of_param.get(idx + 1) is None else "BOTH"
    if sorted(role_of_param.values()) != ["DISABLED", "ENABLED"]:
        out.viol(rule, "%s|roles" % rule, ctx.where(dv), "the -d / -e sets do not reach the detection function as two separate parameters (%s)" % role_of_param)
        out.inst(rule, 0, 2)
        return
    factory_calls = {bi for bi, t in v.calls() if not t.get("def") and not t.get("res") and bi in cfg.reachable}
    factory_calls |= {bi for bi, t in v.calls() if re.search(r"ops::(Fn|FnMut|FnOnce)<.*>>?::call(_mut|_once)?$", callee_name(t)) and "ValidatorDetector" in (t.get("dest_ty") or "")}

    def _is_factory_value(op):
        pl = util.op_place(op)
        return pl is not None and "ValidatorDetector" in (v.local_ty(pl["l"]) or "") and "fn(" in (v.local_ty(pl["l"]) or "")
    # (`selected.then(factory)`: the combinator's expansion calls the function value it was handed)
    factory_calls |= {bi for bi, t in v.calls() if t.get("synthetic") and re.search(r"ops::FnOnce::call_once$", t.get("def") or "") and t["args"] and _is_factory_value(t["args"][0]) and bi in cfg.reachable}
    stop_blocks = {bi for bi, t in v.calls() if callee_matches(t, r"validators::ValidatorDetector::detect$")}
    if not factory_calls:
        out.viol(rule, "%s|factory" % rule, ctx.where(dv), "no call of a detector factory found in the detection function")
        out.inst(rule, 0, 2)
        return
    std = CW.std_hooks()
    n = 0
    rows = []
    for en_empty, in_en, in_dis in itertools.product((True, False), repeat=3):
        hit = [False]

        def hook(w, bb, t, argv, env):
            nm = callee_name(t)
            a0 = w.deref_val(env, argv[0]) if argv else CW.TOP
            if re.search(r"HashSet::<T, S, A>::is_empty$|HashSet::<T, S, A>::len$", nm) and a0[0] == "sym":
                if a0[1] == "ENABLED":
                    return CW.const((1 if en_empty else 0) if nm.endswith("is_empty") else (0 if en_empty else 1))
                return None
            if re.search(r"HashSet::<T, S, A>::contains$", nm) and a0[0] == "sym":
                if a0[1] == "ENABLED":
                    return CW.const(1 if (in_en and not en_empty) else 0)
                if a0[1] == "DISABLED":
                    return CW.const(1 if in_dis else 0)
                return None
            return std(w, bb, t, argv, env)
        w = CW.Walk(ctx, v, [hook], max_states=20000)

        def on_visit(bb, env):
            if bb in factory_calls:
                hit[0] = True
        w.on_visit = on_visit
        env = {p: CW.sym(r) for p, r in role_of_param.items()}
        try:
            w.explore(0, env, lambda bb, e: bb in stop_blocks)
        except CW.Limit as e:
            out.viol(rule, "%s|limit" % rule, ctx.where(dv), "case analysis of the detector selection did not finish (%s)" % e)
            out.inst(rule, 0, 2)
            return
        want = (in_en if not en_empty else (not in_dis))
        if en_empty and in_en:
            continue        # impossible valuation: a name cannot be in an empty set
        rows.append(((en_empty, in_en, in_dis), hit[0]))
        if hit[0] != want:
            out.viol(rule, "%s|table|%d%d%d" % (rule, en_empty, in_en, in_dis), ctx.where(dv),
                     "detector selection: with the enabled set %s, the name %s the enabled set and %s the disabled set, the detector is %s; expected %s (keep = name in enabled when that set is non-empty, else name not in disabled)"
                     % ("empty" if en_empty else "non-empty", "in" if in_en else "not in", "in" if in_dis else "not in", "created" if hit[0] else "not created", "created" if want else "not created"))
        else:
            n += 1
    out.inst(rule, 2 if n == len(rows) else 0, 2, ["%s => %s" % r for r in rows], exhaustive=True,
             note="case analysis over the normalised detection function; 6 consistent valuations of (enabled empty, name in enabled, name in disabled)")


def check_filter(ctx, out, dv):
    n = 0
    # the closure handed to `filter` over the factory table
    fclos = None
    E = ctx.expr(dv)
    for bi, t in dv.calls():
        if callee_matches(t, r"Iterator::filter$"):
            e = E.operand(t["args"][1])
            if e[0] == "agg" and e[1].startswith("closure:"):
                fclos = ctx.facts.body(e[1][8:])
                fsite = (bi, t)
    if fclos is None:
        _check_filter_cases(ctx, out, dv)
        return
    # resolve upvars to parameters of detect_validators (a captured closure contributes what it
    # captured itself: `let is_selected = |n| ..; .filter(|(n, _)| is_selected(n))`)
    up2param = {}

    def captures_of(path, depth=0):
        for i, j, s in dv.assigns():
            rv = s["rv"]
            if rv["k"] == "agg" and rv.get("agg") == "closure" and rv.get("path") == path:
                for nm, op in zip(rv.get("fields", []), rv["ops"]):
                    labs = ctx.prov.read_operand(dv, op)
                    ps = {l[1] for l in labs if l[0] == "param"}
                    if len(ps) == 1:
                        up2param[nm] = ps.pop()
                    elif depth < 3:
                        from engine.desugar import resolve_closure
                        tgt, cap = resolve_closure(ctx.facts, dv.blocks, op)
                        if tgt is not None and not isinstance(tgt, tuple):
                            captures_of(tgt.defpath, depth + 1)
    captures_of(fclos.defpath)
    # the closure in its normalised view (closures it calls are inlined)
    fclos_raw = fclos
    fclos = ctx.inl(fclos, skip=ctx.domain_api, tag="domain", sugar=True)
    # which parameter is which: from the call in main
    main = ctx.main_view()
    role_of_param = {}
    if main is not None:
        for bi, t in main.calls():
            if (t.get("res") or "") == dv.id:
                for idx, a in enumerate(t["args"]):
                    labs = ctx.prov.read_operand(main, a)
                    if P.has_call(labs, r"flags::Args::disabled_validators$"):
                        role_of_param[idx + 1] = "disabled"
                    if P.has_call(labs, r"flags::Args::enabled_validators$"):
                        role_of_param[idx + 1] = "enabled" if role_of_param.get(idx + 1) is None else "both"
    def role(upname):
        return role_of_param.get(up2param.get(upname), "?")
    try:
        rows, complete = tables.decision_table(ctx.facts, fclos)
    except ValueError as e:
        out.viol("C14.filter", "C14.filter|loop", ctx.where(fclos), "the detector filter contains a loop (%s); its truth table cannot be enumerated" % e)
        return
    # normalise rows: predicate texts with upvars replaced by roles
    def norm(txt):
        return re.sub(r"\^(\w+)", lambda m: "<%s>" % role(m.group(1)), txt)
    got = []
    for r in rows:
        preds = tuple((norm(p), v) for p, v in r["preds"])
        ret = norm(render(r["ret"], 300)) if r["ret"] else "?"
        ret = re.sub(r"_\d+\.0|\w+\.0", "NAME", ret)
        got.append((preds, ret))
    want = {
        ((("HashSet::is_empty(<enabled>)", "false"),), "HashSet::contains(<enabled>, NAME)"),
        ((("HashSet::is_empty(<enabled>)", "true"),), "Not(HashSet::contains(<disabled>, NAME))"),
    }
    if set(got) == want:
        n = 2
    else:
        # semantic comparison on the 8 valuations, for filters written differently
        ok = semantic_filter_check(got)
        if ok is True:
            n = 2
        else:
            out.viol("C14.filter", "C14.filter|table", ctx.where(fclos),
                     "the detector filter's decision table is %s; expected: keep = (name ∈ enabled) when the enabled set is non-empty, else (name ∉ disabled)%s"
                     % ([(list(p), r) for p, r in got], "" if ok is None else " — differs on valuation %s" % (ok,)))
    out.inst("C14.filter", n, 2, ["%s => %s" % (list(p), r) for p, r in got], exhaustive=True,
             note="all paths of the filter closure, predicates uninterpreted; 8 valuations of (enabled empty, name∈enabled, name∈disabled)")
    # the name tested is the table entry's name (tuple field 0)
    for bi, t in fclos.calls():
        if callee_matches(t, r"HashSet::<T, S, A>::contains$"):
            labs = ctx.prov.read_operand(fclos, t["args"][1])
            if not any(l[0] == "param" and l[1] == 2 and "0" in l[2] for l in labs):
                out.viol("C14.filter", "C14.filter|name-operand", ctx.where(fclos, t["span"]), "the set membership test is not applied to the table entry's name")


def semantic_filter_check(got):
    """Evaluate a table whose predicates are is_empty/contains over <enabled>/<disabled> on the 8
    valuations; returns True if equal to the specification, a counterexample valuation if not, None
    if the table uses predicates that cannot be interpreted."""
    import itertools

    def ev(txt, val):
        txt = txt.strip()
        m = re.match(r"^Not\((.*)\)$", txt)
        if m:
            r = ev(m.group(1), val)
            return None if r is None else (not r)
        m = re.match(r"^HashSet::is_empty\(<(\w+)>\)$", txt)
        if m:
            if m.group(1) == "enabled":
                return val["e_empty"]
            if m.group(1) == "disabled":
                return val["d_empty"]
            return None
        m = re.match(r"^HashSet::contains\(<(\w+)>, NAME\)$", txt)
        if m:
            if m.group(1) == "enabled":
                return val["in_e"]
            if m.group(1) == "disabled":
                return val["in_d"]
            return None
        if txt in ("true", "1"):
            return True
        if txt in ("false", "0"):
            return False
        return None

    for e_empty, in_e, d_empty, in_d in itertools.product([True, False], repeat=4):
        if e_empty and in_e:
            continue
        if d_empty and in_d:
            continue
        val = {"e_empty": e_empty, "in_e": in_e, "d_empty": d_empty, "in_d": in_d}
        spec = in_e if not e_empty else (not in_d)
        res = None
        matched = 0
        for preds, ret in got:
            sat = True
            for p, v in preds:
                r = ev(re.sub(r"_\d+\.0|\b\w+\.0\b", "NAME", p), val)
                if r is None:
                    return None
                want = {"true": True, "false": False, "1": True, "0": False}.get(v)
                if want is None:
                    return None
                if r != want:
                    sat = False
                    break
            if sat:
                matched += 1
                res = ev(ret, val)
                if res is None:
                    return None
        if matched != 1:
            return None
        if res != spec:
            return val
    return True


def check_args(ctx, out, dv):
    n = 0
    main = ctx.main_view()
    sites = [(bi, t) for bi, t in main.calls() if (t.get("res") or "") == dv.id] if main else []
    if len(sites) != 1:
        out.inst("C14.args", 0, 4, note="call of the detection function in main not found")
        return
    bi, t = sites[0]
    # parameter names of the callee give the role; the callee's own use is checked by C14.filter
    for idx, a in enumerate(t["args"]):
        labs = ctx.prov.read_operand(main, a)
        d = P.has_call(labs, r"flags::Args::disabled_validators$")
        e = P.has_call(labs, r"flags::Args::enabled_validators$")
        if d and e:
            out.viol("C14.args", "C14.args|mixed|%d" % idx, ctx.where(main, t["span"]), "argument %d of the detection call mixes the disabled and the enabled set" % idx)
        elif d or e:
            n += 1
    # the accessor functions read the right field and build a set
    for acc, field in (("disabled_validators", "disabled_validators"), ("enabled_validators", "enabled_validators")):
        b = ctx.facts.body("blockwatch::flags::Args::%s" % acc)
        if b is None:
            out.viol("C14.args", "C14.args|accessor|%s" % acc, "-", "accessor Args::%s not found" % acc)
            continue
        labs = ctx.prov.read_local(b, 0, ())
        fields = {l[2][0] for l in labs if l[0] == "param" and l[2]}
        if fields == {field} and b.local_ty(0).startswith("std::collections::HashSet<"):
            n += 1
        else:
            out.viol("C14.args", "C14.args|accessor|%s" % acc, ctx.where(b),
                     "Args::%s returns %s built from field(s) %s; expected a HashSet built from `%s` (repetition = set union)" % (acc, b.local_ty(0), sorted(fields), field))
    out.inst("C14.args", n, 4, ["detect(.., &args.disabled_validators(), &args.enabled_validators())"])


def check_reject(ctx, out):
    n = 0
    pv = None
    # the value parser: a crate-local fn(&str) -> Result<String> that mentions the factory table
    fconst = ctx.roles().get("factory_const")
    for b in ctx.facts.bodies.values():
        if b.promoted is None and b.kind == "Fn" and b.local_ty(0).startswith("std::result::Result<std::string::String"):
            region = ctx.region(b)          # the function, its closures and its crate-local helpers
            mentions = False
            for rb in region:
                for i, j, s in rb.assigns():
                    rv = s["rv"]
                    op = rv.get("op") if isinstance(rv.get("op"), dict) else None
                    if op and "k" in op and op["k"].get("uneval") == fconst:
                        mentions = True
            if mentions:
                pv = b
    if pv is None:
        out.inst("C14.reject", 0, 4, note="validator-name value parser not found")
        return
    region = ctx.facts.with_descendants(pv)
    pvs = ctx.inl(pv, skip=ctx.domain_api, tag="domain", sugar=True)
    calls = [callee_name(t) for rb in region for bi, t in rb.calls()] + [callee_name(t) for bi, t in pvs.calls()]
    # exact membership: `names.contains(&value)` or a scan with `name == value`
    EXACT = r"<impl \[T\]>::contains$|<impl std::cmp::PartialEq for str>::eq$|<impl std::cmp::PartialEq<&B> for &A>::eq$|<&A as std::cmp::PartialEq<&B>>::eq$|<str as std::cmp::PartialEq>::eq$"
    if any(re.search(EXACT, c) for c in calls):
        n += 1
    else:
        out.viol("C14.reject", "C14.reject|membership", ctx.where(pv), "the flag value is not tested with an exact membership test (`contains`) against the registered names")
    fold = [c for c in calls if re.search(r"eq_ignore_ascii_case|to_lowercase|to_uppercase|to_ascii_lowercase|to_ascii_uppercase|starts_with|ends_with|<impl str>::contains$|find$", c)]
    if fold:
        out.viol("C14.reject", "C14.reject|inexact", ctx.where(pv),
                 "the flag value is compared inexactly (%s): a value that is not exactly a registered name can be accepted, and then matches no validator" % sorted(set(c.split("::")[-1] for c in fold)))
    else:
        n += 1
    # the Err path: None -> with_context -> Err
    # decided on the normalised view: (i) an `Err(..)` returned exactly when `contains` is false, or
    # (ii) an Option that is None exactly when `contains` is false, converted with context / ok_or
    is_contains = lambda e: e[0] == "call" and re.search(EXACT, e[1]) is not None
    err_ok = False
    slots = util.return_slots(pvs)
    for bi, j, s in pvs.assigns():
        rv = s["rv"]
        if s["lhs"]["l"] in slots and rv["k"] == "agg" and rv.get("variant") == "Err" and rv.get("path") == "std::result::Result":
            for br, vals, e in util.guards(ctx, pvs, bi):
                if is_contains(e) and vals == {0} and util.arm_only_err(ctx, pvs, br, vals):
                    err_ok = True
    for bi, t in pvs.calls():
        if callee_matches(t, r"anyhow::Context.*::(with_context|context)$|Option::<T>::ok_or(_else)?$") and "Option<" in (t.get("arg_tys") or [""])[0]:
            pl = util.op_place(t["args"][0])
            src = util.copy_root(pvs, pl["l"]) if pl else None
            none_g = some_g = False
            for bj, j, s in pvs.assigns():
                if src is not None and s["lhs"]["l"] == src and not s["lhs"]["p"] and s["rv"]["k"] == "agg":
                    for br, vals, e in util.guards(ctx, pvs, bj):
                        if is_contains(e):
                            if s["rv"].get("variant") == "None" and vals == {0}:
                                none_g = True
                            if s["rv"].get("variant") == "Some" and 0 not in vals:
                                some_g = True
            if none_g and some_g:
                err_ok = True
    if not err_ok:
        # (iii) membership by a scan: `if names().any(|n| n == value) { return Ok(..) } Err(..)`: the Err is built
        # when the scan of the registered names is exhausted, and the scan is left early only on a hit, to Ok
        pcfg = cfg_of(pvs)
        from rules.C12 import only_err_from, err_blocks
        for bi, j, s in pvs.assigns():
            rv = s["rv"]
            if not (s["lhs"]["l"] in slots and rv["k"] == "agg" and rv.get("variant") == "Err" and rv.get("path") == "std::result::Result"):
                continue
            for br, vals, e in util.guards(ctx, pvs, bi):
                if e[0] == "discr" and e[1][0] == "call" and re.search(r"Iterator>?::next$", e[1][1]) and vals == {0} and len(e[1]) > 3:
                    h = pcfg.innermost_loop(e[1][3])
                    if h is None:
                        continue
                    blocks = pcfg.loops()[h]
                    hit_exits_ok = True
                    n_hit = 0
                    for x, y in util.loop_exits(pvs, pcfg, blocks):
                        if x == br:
                            continue
                        gsx = [(vv, ee) for bb2, vv, ee in util.guards(ctx, pvs, y) if bb2 in blocks]
                        is_hit = any(is_contains(ee) and 0 not in vv for vv, ee in gsx)
                        reaches_err = bool(pcfg.reach(y) & err_blocks(ctx, pvs))
                        if is_hit and not reaches_err:
                            n_hit += 1
                        else:
                            hit_exits_ok = False
                    if n_hit and hit_exits_ok and util.arm_only_err(ctx, pvs, br, vals):
                        err_ok = True
    if err_ok:
        n += 1
    else:
        out.viol("C14.reject", "C14.reject|err", ctx.where(pv), "the value parser does not turn a non-member into an Err")
    # both clap args use it: referenced from the derive-generated argument builder (2 sites)
    refs = 0
    for b in ctx.facts.bodies.values():
        if b.promoted is not None:
            continue
        for bi, t in b.calls():
            for a in t["args"]:
                if "k" in a and a["k"].get("fn") == pv.defpath:
                    refs += 1
    if refs >= 2:
        n += 1
    else:
        out.viol("C14.reject", "C14.reject|uses", ctx.where(pv), "the value parser is referenced %d time(s) by the argument definitions; both -d and -e must use it" % refs)
    # mutual exclusion in Args::validate
    av = ctx.facts.body("blockwatch::flags::Args::validate")
    if av is None:
        out.viol("C14.reject", "C14.reject|validate", "-", "Args::validate not found")
    else:
        found = False
        for bi, j, s in av.assigns():
            rv = s["rv"]
            if s["lhs"]["l"] == 0 and rv["k"] == "agg" and rv.get("variant") == "Err":
                gs = util.guard_texts(ctx, av, bi)
                txt = " ".join(g[2] for g in gs)
                if "disabled_validators" in txt and "enabled_validators" in txt and all(("is_empty" in g[2]) for g in gs if "validators" in g[2]):
                    pol = [g[1] for g in gs if "validators" in g[2]]
                    if all(p == ["0"] for p in pol):
                        # the innermost of the two tests alone must decide: no further conjunct
                        inner = [(br, vals) for br, vals, e in util.guards(ctx, av, bi) if "validators" in render(e, 300)]
                        cfgv = cfg_of(av)
                        last = [x for x in inner if all(cfgv.dominates(y[0], x[0]) for y in inner)]
                        if last and util.arm_only_err(ctx, av, last[0][0], last[0][1]):
                            found = True
                        else:
                            out.viol("C14.reject", "C14.reject|both-flags-weakened", ctx.where(av, s["span"]),
                                     "using --enable and --disable together is rejected only under a further condition")
                            found = True
        if not found:
            # written through flags / `ensure!(!(a && b))`: decide the condition of every Err exit as a boolean
            # function of the two emptiness tests (engine/boolcond.py) - some Err must be returned exactly
            # when both lists are non-empty (other tests, e.g. the -E mapping scan, having passed)
            from engine.boolcond import BoolCond, truth_table
            avs = ctx.inl(av, skip=ctx.domain_api, tag="domain", sugar=True)
            bc = BoolCond(ctx, avs)

            def classify(a):
                txt = render(a["expr"], 500) if a.get("expr") is not None else a["name"]
                if a["kind"] == "call" and re.search(r"is_empty$", a["name"]):
                    if "disabled_validators" in txt:
                        return "d_empty"
                    if "enabled_validators" in txt:
                        return "e_empty"
                if a["kind"] == "discr" and re.search(r"Iterator>?::next", txt):
                    return 0 in a.get("vals", ())       # the scan of the -E mappings ran to its end
                if a["kind"] == "discr" and re.search(r"Try>::branch", txt):
                    return 0 in a.get("vals", ())
                return None
            slots = util.return_slots(avs)
            reach = cfg_of(avs).reachable
            for bi, j, s in avs.assigns():
                rv = s["rv"]
                if bi in reach and s["lhs"]["l"] in slots and not s["lhs"]["p"] and rv["k"] == "agg" and rv.get("variant") == "Err":
                    f = bc.site(bi)
                    try:
                        table, names, free = truth_table(bc, f, classify)
                    except ValueError:
                        continue
                    if set(names) != {"d_empty", "e_empty"}:
                        continue
                    good = all(res == {(not dict(val)["d_empty"]) and (not dict(val)["e_empty"])} or (len(res) == 2 and not ((not dict(val)["d_empty"]) and (not dict(val)["e_empty"])) and False)
                               for val, res in table.items())
                    # unknowns (the mapping test itself) may only make the Err *less* likely on the other rows, never hide it on the both-set row
                    both = table.get((("d_empty", False), ("e_empty", False)))
                    others_never = all(True not in res for val, res in table.items() if dict(val)["d_empty"] or dict(val)["e_empty"])
                    if good or (both == {True} and others_never):
                        found = True
                    elif both is not None and True in both and others_never:
                        out.viol("C14.reject", "C14.reject|both-flags-weakened", ctx.where(av, s["span"]),
                                 "using --enable and --disable together is rejected only under a further condition (%s)" % [a["name"][:50] for a in free][:3])
                        found = True
        if found:
            n += 1
        else:
            out.viol("C14.reject", "C14.reject|both-flags", ctx.where(av), "no Err exit guarded by `!disabled.is_empty() && !enabled.is_empty()` in Args::validate")
    out.inst("C14.reject", n, 5, [pv.id])


def check_worklist(ctx, out, dv, rule):
    """The lazy detection loop, decided on a small model (engine.casewalk + engine.listmodel): the list of
    pending detectors is the concrete three-element list [D1, D2, D3]; for each of the 8 ways the three
    can answer one block (a validator / nothing), the per-block iteration is walked and what happened is
    compared with the specification: every pending detector is asked about the block exactly once, and
    afterwards exactly those that answered `nothing` are still pending (none lost, none duplicated, none
    that produced a validator kept). Returns True/False if decided, None if the model could not follow
    the code (the caller then falls back to the structural rule)."""
    from engine import casewalk as CW
    from engine import listmodel as LM
    import itertools
    v = ctx.inl(dv, skip=ctx.domain_api, tag="domain", sugar=True)
    cfg = cfg_of(v)
    E = ctx.expr(v)
    dets = [(bi, t) for bi, t in v.calls() if callee_matches(t, r"validators::ValidatorDetector::detect$") and bi in cfg.reachable]
    if not dets:
        if os.environ.get("BW_DEBUG_MODEL"):
            print("worklist: undecided at exit 1")
        return None
    # the per-block loop: the loop whose driving next() yields the block handed to detect
    hb = None
    e = E.operand(dets[0][1]["args"][1])
    for x in walk(e):
        if x[0] == "call" and re.search(r"Iterator>?::next$", x[1]) and len(x) > 3 and isinstance(x[3], int):
            hb = cfg.innermost_loop(x[3])
            break
    loops = cfg.loops()
    if hb is None:
        # the block is a merged local (expanded pipeline): the per-block loop is the innermost loop around
        # the detect call that is driven by an iterator over something other than the detectors
        def drives_blocks(H):
            for y in loops[H]:
                tt = v.blocks[y]["term"]
                if tt and tt["k"] == "call" and callee_matches(tt, r"Iterator>?::next$") and cfg.innermost_loop(y) == H:
                    ty = (tt.get("arg_tys") or [""])[0] + " " + v.local_ty((util.op_place(tt["args"][0]) or {"l": 0})["l"])
                    if "ValidatorDetector" not in ty:
                        return True
            return False
        around = sorted((len(HB), H) for H, HB in loops.items() if dets[0][0] in HB)
        for _, H in around:
            if drives_blocks(H):
                hb = H
                break
    if hb is None:
        if os.environ.get("BW_DEBUG_MODEL"):
            print("worklist: undecided at exit 2")
        return None
    hb_chain = {hb}
    for H, HB in loops.items():
        if H == hb or not (set(loops[hb]) < set(HB)):
            continue
        own = [y for y in HB if v.blocks[y]["term"] and v.blocks[y]["term"]["k"] == "call" and callee_matches(v.blocks[y]["term"], r"Iterator>?::next$") and cfg.innermost_loop(y) == H]
        between = [H2 for H2, HB2 in loops.items() if H2 not in (hb, H) and set(loops[hb]) < set(HB2) and set(HB2) < set(HB)]
        if not own and not between:
            hb = H
            hb_chain.add(hb)
            break
    if v.blocks[hb].get("lazy_inner"):
        # the block comes out of a lazily pulled flat_map: the iteration is the enclosing loop
        enc = sorted((len(HB), H) for H, HB in loops.items() if H != hb and set(loops[hb]) < set(HB))
        if enc:
            hb = enc[0][1]
            hb_chain.add(hb)
    lblocks = set(loops[hb])
    if not all(bi in lblocks for bi, t in dets):
        if os.environ.get("BW_DEBUG_MODEL"):
            print("worklist: undecided at exit 3")
        return None
    # the next() calls that advance the block iteration itself (not an inner loop over something else that
    # happens to sit in the iteration - collecting a block's attribute names, say)
    drivers = {y for y in lblocks if v.blocks[y]["term"] and v.blocks[y]["term"]["k"] == "call" and callee_matches(v.blocks[y]["term"], r"Iterator>?::next$")
               and (cfg.innermost_loop(y) in hb_chain or v.blocks[cfg.innermost_loop(y)].get("lazy_inner") if cfg.innermost_loop(y) is not None else True)
               and not re.search(r"ValidatorDetector", (v.blocks[y]["term"].get("arg_tys") or [""])[0] + v.local_ty((util.op_place(v.blocks[y]["term"]["args"][0]) or {"l": 0})["l"]))}
    DET_VEC = r"std::vec::Vec<std::boxed::Box<dyn blockwatch::validators::ValidatorDetector"
    pend = []
    for l, loc in enumerate(v.locals):
        if re.match(DET_VEC, loc.get("ty") or ""):
            ds = v.defs().get(l, [])
            if ds and any(d[1] not in lblocks for d in ds) and not all(d[1] in lblocks for d in ds):
                pend.append(l)
            elif ds and all(d[1] not in lblocks for d in ds):
                pend.append(l)
    used_in_loop = {pl0["l"] for bi, sp, pl0 in util.all_places(v) if bi in lblocks}
    pend = sorted(set(pend) & used_in_loop)
    if len(pend) != 1:
        if os.environ.get("BW_DEBUG_MODEL"):
            print("worklist: undecided at exit 4")
        return None
    pl = pend[0]
    vt = ctx.facts.adts.get("blockwatch::validators::ValidatorType")
    sync_vi = next((x["vi"] for x in (vt or {}).get("variants", []) if x["name"] == "Sync"), 0)
    std = CW.std_hooks()
    lm = LM.hooks()
    D = ["D1", "D2", "D3"]
    ok = True
    decided = True
    for case in itertools.product((True, False), repeat=3):
        answers = dict(zip(D, case))
        records = []

        def hook(w, bb, t, argv, env, answers=answers):
            nm = callee_name(t)
            if bb in drivers:
                seen_d = env.get(-4, ("tuple", ()))[1]
                if CW.const(bb) in seen_d:
                    return "diverge"        # one block is analysed: the iteration is not advanced a second time
                env[-4] = ("tuple", seen_d + (CW.const(bb),))
                return CW.adt("std::option::Option", "Some", 1, [("0", CW.sym("BLOCK"))])
            if callee_matches(t, r"validators::ValidatorDetector::detect$"):
                d0 = w.deref_val(env, argv[0]) if argv else CW.TOP
                if d0[0] != "sym" or d0[1] not in answers:
                    env[-3] = ("tuple", (CW.sym("?"),) + env.get(-3, ("tuple", ()))[1])
                    if os.environ.get("BW_DEBUG_MODEL"):
                        print("worklist: undecided at exit 5")
                    return None
                env[-3] = ("tuple", env.get(-3, ("tuple", ()))[1] + (d0,))
                if answers[d0[1]]:
                    val = CW.adt("std::option::Option", "Some", 1, [("0", CW.adt("blockwatch::validators::ValidatorType", "Sync", sync_vi, [("0", CW.sym("V" + d0[1][1:]))]))])
                else:
                    val = CW.adt("std::option::Option", "None", 0, [])
                return CW.adt("std::result::Result", "Ok", 0, [("0", val)])
            r = lm(w, bb, t, argv, env)
            if r is not None:
                return r
            return std(w, bb, t, argv, env)
        w = CW.Walk(ctx, v, [hook], max_states=20000)
        first = [True]

        def stop(bb, env, records=records, first=first):
            if bb == hb:
                if first[0]:
                    first[0] = False
                    return False
                records.append(("next-block", env.get(pl, CW.TOP), env.get(-3, ("tuple", ()))))
                return True
            if bb not in lblocks:
                records.append(("left", env.get(pl, CW.TOP), env.get(-3, ("tuple", ()))))
                return True
            return False
        try:
            w.explore(hb, {pl: LM.lst([CW.sym(x) for x in D])}, stop)
        except CW.Limit:
            if os.environ.get("BW_DEBUG_MODEL"):
                print("worklist: undecided at exit 6")
            return None
        want_left = sorted(x for x in D if not answers[x])
        desc = ", ".join("%s: %s" % (x, "validator" if answers[x] else "nothing") for x in D)
        if not records:
            if os.environ.get("BW_DEBUG_MODEL"):
                print("worklist: no records for", answers)
            decided = False
            continue
        for kind, pv, asked in records:
            if pv[0] != "list" or any(i[0] != "sym" for i in pv[1]) or any(a[0] != "sym" or a[1] == "?" for a in asked[1]):
                if os.environ.get("BW_DEBUG_MODEL"):
                    print("worklist: undecided record", kind, pv, asked)
                decided = False
                continue
            got_left = sorted(i[1] for i in pv[1])
            got_asked = sorted(a[1] for a in asked[1])
            if got_asked != sorted(D):
                ok = False
                missing = sorted(set(D) - set(got_asked))
                twice = sorted({a for a in got_asked if got_asked.count(a) > 1})
                out.viol(rule, "%s|%s" % (rule, "skip-after-remove" if missing else "asked-twice"), ctx.where(dv),
                         "detection loop on pending detectors [D1, D2, D3] (answers for one block - %s): %s; every pending detector must be asked about every block exactly once, otherwise its validator may never be created (or is created twice)" % (
                             desc, ("%s never asked about the block" % missing) if missing else ("%s asked more than once" % twice)))
            elif got_left != want_left:
                ok = False
                lost = sorted(set(want_left) - set(got_left))
                kept = sorted(set(got_left) - set(want_left))
                dup = sorted({a for a in got_left if got_left.count(a) > 1})
                what = []
                if lost:
                    what.append("%s lost (not kept for the following blocks although it produced nothing yet)" % lost)
                if kept:
                    what.append("%s kept although its validator was created (it would be created again)" % kept)
                if dup:
                    what.append("%s pending twice" % dup)
                out.viol(rule, "%s|%s" % (rule, "not-restored" if lost else ("requeued-detected" if kept else "duplicated")), ctx.where(dv),
                         "detection loop on pending detectors [D1, D2, D3] (answers for one block - %s): afterwards the pending list is %s; %s" % (desc, got_left, "; ".join(what)))
    if not decided:
        if os.environ.get("BW_DEBUG_MODEL"):
            print("worklist: undecided at exit 7")
        return None
    return ok


def check_once(ctx, out, dv, rule="C11.once"):
    """The lazy detection loop neither loses nor duplicates a detector."""
    tr = out.trial()
    res = None
    try:
        res = check_worklist(ctx, tr, dv, rule)
    except Exception as e:      # noqa: BLE001 - the structural rule below decides instead
        ctx.view_fallbacks.append("%s: small-model detection analysis failed (%s: %s)" % (rule, type(e).__name__, e))
        res = None
    if res is not None:
        out.adopt(tr)
        out.inst(rule, 8 if res else 0, 4, ["small model [D1,D2,D3] x 8 answer patterns: each asked once; pending afterwards = those that produced nothing"], exhaustive=True)
        return
    _check_once_structural(ctx, out, dv, rule)


def _check_once_structural(ctx, out, dv, rule="C11.once"):
    """The lazy detection loop neither loses nor duplicates a detector."""
    cfg = cfg_of(dv)
    E = ctx.expr(dv)
    n = 0
    pops = [(bi, t) for bi, t in dv.calls() if callee_matches(t, r"Vec::<T, A>::pop$")]
    dets = [(bi, t) for bi, t in dv.calls() if callee_matches(t, r"validators::ValidatorDetector::detect$")]
    drained = None
    if not pops:
        # the other complete way of taking every pending detector: `for d in pending.drain(..)[.rev()]`
        # (or `into_iter()` of the list by value), the list being re-assigned afterwards
        from rules.shared import TRUNCATING
        for bi, t in dv.calls():
            if callee_matches(t, r"Iterator>?::next$") and "ValidatorDetector" in (t.get("arg_tys") or [""])[0]:
                e = E.operand(t["args"][0])
                cs = [c for c in walk(e) if c[0] == "call"]
                src = [c for c in cs if re.search(r"Vec::<T, A>::drain$|IntoIterator>?::into_iter$", c[1])]
                trunc = [c[1].split("::")[-1] for c in cs if TRUNCATING.search(c[1])]
                full = all(any(a[0] == "agg" and a[1].endswith("RangeFull") for a in c[2][1:]) for c in src if c[1].endswith("::drain"))
                if src and not trunc and full:
                    pops = [(bi, t)]
                    inner = src[-1]
                    drained = inner
                elif src:
                    out.viol(rule, "%s|partial-scan" % rule, ctx.where(dv, t["span"]),
                             "the pending detectors are taken through %s: not every pending detector is asked about the current block" % (trunc or ["a partial drain range"]))
    if len(pops) != 1 or len(dets) != 1:
        # an index scan that removes in place: after `remove(i)` / `swap_remove(i)` another element sits
        # at i; advancing i on that path skips it (it is never asked about the current block)
        for rbi, rt in dv.calls():
            if not callee_matches(rt, r"Vec::<T, A>::(swap_remove|remove)$") or len(rt["args"]) < 2:
                continue
            il = util.op_place(rt["args"][1])
            h = cfg.innermost_loop(rbi)
            if il is None or h is None:
                continue
            il0 = il["l"]
            src = dv.single_def(il0)
            if src and src[0] == "stmt" and src[3]["rv"]["k"] == "use" and util.op_place(src[3]["rv"]["op"]):
                il0 = util.op_place(src[3]["rv"]["op"])["l"]
            r = cfg.reach(rbi, avoid={h})
            for bi, j, s in dv.assigns():
                if bi in r and s["lhs"]["l"] == il0 and not s["lhs"]["p"]:
                    ee = E.rvalue(s["rv"]) if hasattr(E, "rvalue") else None
                    out.viol(rule, "%s|skip-after-remove" % rule, ctx.where(dv, rt["span"]),
                             "the pending detectors are scanned by index and removed in place with `%s`; on the path from the removal the index is advanced, so the detector moved into that slot is never asked about the current block: its validator may never be created" % callee_name(rt).split("::")[-1])
                    break
        out.inst(rule, 0, 4, note="pop / detect sites not found (%d/%d)" % (len(pops), len(dets)))
        return
    pbi, pt = pops[0]
    dbi, dt = dets[0]
    if drained is None:
        wl_local = util.base_local(dv, pt["args"][0])
    else:
        # the Vec the drain / into_iter call was made on
        dct = dv.blocks[drained[3]]["term"] if len(drained) > 3 and isinstance(drained[3], int) else None
        wl_local = util.base_local(dv, dct["args"][0]) if dct else None
        # `std::mem::take(&mut pending).into_iter()`: the list that is emptied (and refilled) is `pending`
        for c in walk(drained):
            if c[0] == "call" and re.search(r"^std::mem::(take|replace)$", c[1]) and len(c) > 3 and isinstance(c[3], int):
                mt = dv.blocks[c[3]]["term"]
                wl_local = util.base_local(dv, mt["args"][0])
    # detector local = payload of the pop
    det_labs_fn = lambda op: ctx.prov.read_operand(dv, op)
    ploop = cfg.innermost_loop(pbi)
    if ploop is None:
        out.viol(rule, "%s|no-loop" % rule, ctx.where(dv), "the detector pop is not inside a loop")
        return
    pregion = util.iter_region(dv, pbi) | cfg.loops()[ploop]
    # the switch on detect's result (Option discriminant of the Ok payload)
    none_arm = None
    some_arms = []
    for bi, j, s in dv.assigns():
        if s["rv"]["k"] == "discr" and bi in pregion:
            e = E.place(s["rv"]["place"])
            if find_calls(e, r"ValidatorDetector::detect$") and "Continue" in render(e, 9000) and s["rv"].get("adt") == "std::option::Option":
                dl = s["lhs"]["l"]
                for bj, t in dv.terms():
                    if t["k"] == "switch" and (util.op_place(t["op"]) or {}).get("l") == dl:
                        arms = util.switch_arms(dv, bj)
                        none_arm = arms.get(0)
                        some_arms = [arms.get(1)]
    if none_arm is None:
        out.viol(rule, "%s|result-switch" % rule, ctx.where(dv), "could not find the branch on the detector's result (Some/None)")
        return
    pushes = [(bi, t) for bi, t in dv.calls() if callee_matches(t, r"Vec::<T, A>::push$") and bi in pregion]
    def pushes_detector(t):
        e = E.operand(t["args"][1])
        while e[0] == "proj":
            e = e[1]
        return e[0] == "call" and (re.search(r"Vec::<T, A>::pop$", e[1]) is not None or (len(e) > 3 and e[3] == pbi))
    requeue = [(bi, t) for bi, t in pushes if pushes_detector(t)]
    header = ploop
    # (1) None arm: every path back to the pop loop header passes a re-queue push
    outside = (set(range(cfg.n)) - set(pregion)) | {bi for bi, t in requeue}
    r = cfg.reach(none_arm, avoid=outside | {header})
    lost = any(header in cfg.succ[x] for x in r) or any(y not in pregion and y != header for x in r for y in cfg.succ[x])
    if lost or not requeue:
        out.viol(rule, "%s|lost-detector" % rule, ctx.where(dv),
                 "when a detector does not match a block there is a path on which it is not kept for the following blocks: that validator would never run even if a later block needs it")
    else:
        n += 1
    # (2) Some arms: the detector is not re-queued
    dup = False
    for sa in some_arms:
        r = cfg.reach(sa, avoid=(set(range(cfg.n)) - set(pregion)) | {header})
        for bi, t in requeue:
            if bi in r and not cfg.dominates(none_arm, bi):
                dup = True
    if dup:
        out.viol(rule, "%s|requeued-detected" % rule, ctx.where(dv),
                 "a detector that matched (its validator was created) is queued again: the same validator would be created and run more than once, duplicating its diagnostics")
    else:
        n += 1
    # (3) after the pop loop: extend(worklist, undetected) on every path that continues the scan
    requeue_targets = set()
    for bi, t in requeue:
        requeue_targets.add(util.base_local(dv, t["args"][0]))
    extends = [(bi, t) for bi, t in dv.calls() if callee_matches(t, r"Extend<T>>::extend$|Vec::<T, A>::append$|Vec::<T, A>::extend_from_slice$")]
    ext_ok = []
    for bi, t in extends:
        if util.base_local(dv, t["args"][0]) == wl_local and util.base_local(dv, t["args"][1]) in requeue_targets:
            ext_ok.append(bi)
    # ... or the (emptied) work list is replaced by the undetected ones: `pending = undetected`
    for bi, j, s in dv.assigns():
        if s["lhs"]["l"] == wl_local and not s["lhs"]["p"] and s["rv"]["k"] == "use" and bi not in pregion:
            pl = util.op_place(s["rv"]["op"])
            if pl and not pl["p"] and (pl["l"] in requeue_targets or util.copy_root(dv, pl["l"]) in requeue_targets):
                ext_ok.append(bi)
    pop_none = util.normal_loop_exit(dv, cfg, ploop, cfg.loops()[ploop], pbi)
    # outer loop header(s): loops containing the pop loop
    outer = [h for h in cfg.loops_containing(pbi) if h != ploop]
    if pop_none is None or not outer:
        out.viol(rule, "%s|outer-loop" % rule, ctx.where(dv), "could not find the per-block loop around the detector loop")
    else:
        inner_outer = min(outer, key=lambda h: len(cfg.loops()[h]))
        r = cfg.reach(pop_none, avoid=set(ext_ok) | {inner_outer})
        cont = any(inner_outer in cfg.succ[x] for x in r)
        if cont or not ext_ok:
            out.viol(rule, "%s|not-restored" % rule, ctx.where(dv),
                     "after a block has been examined there is a path to the next block on which the undetected detectors are not put back into the work list: they would be lost for all following blocks")
        else:
            n += 1
        # (4) leaving the block loops early only when nothing is left to detect
        exits_ok = True
        all_outer = set()
        for h in outer:
            all_outer |= cfg.loops()[h]
        all_outer |= set(pregion)
        r2 = cfg.reach(pop_none, avoid=set(ext_ok) | set(outer))
        for x in r2:
            for y in cfg.succ[x]:
                if y not in all_outer and y not in r2:
                    # an early exit edge: must be guarded by is_empty(undetected) == true
                    gs = util.guards(ctx, dv, x) + ([(x, None, None)] if False else [])
                    guarded = False
                    for br, vals, e in util.guards(ctx, dv, y) + util.guards(ctx, dv, x):
                        if e is not None and e[0] == "call" and re.search(r"Vec::<T, A>::is_empty$", e[1]) and 0 not in vals:
                            tt = dv.blocks[br]["term"]
                            sd = dv.single_def((util.op_place(tt["op"]) or {}).get("l", -1)) if util.op_place(tt["op"]) else None
                            if sd and sd[0] == "call" and util.base_local(dv, sd[3]["args"][0]) in requeue_targets:
                                guarded = True
                    if not guarded and dv.blocks[x]["term"]["k"] != "return":
                        exits_ok = False
        if exits_ok:
            n += 1
        else:
            out.viol(rule, "%s|early-exit" % rule, ctx.where(dv),
                     "the scan over the blocks is left early on a condition other than 'no detector is left undetected': with another block order a needed validator would not be created")
    out.inst(rule, n, 4, ["pop -> detect -> Some: consume | None: undetected.push; after block: worklist.extend(undetected); break only if undetected.is_empty()"])


FLAGS = {
    "disabled_validators": {"long": "disable", "short": "d", "parser": "parse_validator"},
    "enabled_validators": {"long": "enable", "short": "e", "parser": "parse_validator"},
    "extensions": {"long": "extension", "short": "E", "parser": "parse_extensions"},
    "ignore": {"long": "ignore", "short": None, "parser": None},
}


SHAPING = {"num_args", "value_delimiter", "value_terminator", "trailing_var_arg", "last", "index", "required", "default_value", "default_values",
           "default_missing_value", "default_missing_values", "default_value_if", "default_value_ifs", "allow_hyphen_values", "allow_negative_numbers",
           "require_equals", "conflicts_with", "conflicts_with_all", "requires", "requires_if", "requires_ifs", "required_unless_present", "exclusive",
           "env", "overrides_with", "overrides_with_all", "raw", "group", "groups", "ignore_case", "hide"}


def cli_args(ctx):
    """{argument id: {"methods": [(builder method, [const args])], "where": str, "cmd": body}} read from the
    clap derive output (augment_args / augment_subcommands MIR)."""
    got = {}
    for b in ctx.facts.bodies.values():
        if b.promoted is not None or not re.search(r"flags::\w+ as clap::(Args>::augment_args|Subcommand>::augment_subcommands)$", b.id):
            continue
        E = ctx.expr(b)
        sub = "list:" if "Subcommand" in b.id else ""
        for bi, t in b.calls():
            if not callee_matches(t, r"clap::Command::arg$"):
                continue
            e = E.operand(t["args"][1])
            ms = []
            aid = None
            for x in walk(e):
                if x[0] == "call" and "clap::Arg::" in x[1]:
                    m = x[1].split("::")[-1]
                    args = [a[1] if a[0] == "const" else render(a, 80) for a in x[2][1:]]
                    ms.append((m, args))
                    if m == "new":
                        ids = [y[2][0][1] for y in walk(x) if y[0] == "call" and y[1].endswith("clap::Arg::new") and y[2] and y[2][0][0] == "const"]
                        if not ids:
                            ids = [z[1] for y in walk(x) for z in (y[2] if y[0] == "call" else []) if isinstance(z, tuple) and z[0] == "const" and isinstance(z[1], str)]
                        aid = ids[0] if ids else None
            if aid is None:
                # Arg::new(Id::from("name"))
                cs = [z[1] for y in walk(e) if y[0] == "call" and y[1].endswith("::from") for z in y[2] if z[0] == "const" and isinstance(z[1], str)]
                aid = cs[0] if cs else "?"
            got[sub + aid] = {"methods": ms, "where": ctx.where(b, t["span"]), "body": b.id}
    return got


def check_cli_shape(ctx, out, rule, want):
    """want: {arg id: "option" | "positional"}. An option takes exactly one value per use and accumulates
    (Append); a positional list takes one-or-more values; neither has any other clap setting that changes
    which command-line words it consumes."""
    got = cli_args(ctx)
    n = 0
    for aid, kind in want.items():
        g = got.get(aid)
        if g is None:
            out.viol(rule, "%s|%s|missing" % (rule, aid), "-", "command-line argument `%s` is not defined" % aid)
            continue
        ms = dict((m, a) for m, a in g["methods"])
        is_opt = "long" in ms or "short" in ms
        if is_opt != (kind == "option"):
            out.viol(rule, "%s|%s|kind" % (rule, aid), g["where"], "argument `%s` is %s; documented as %s" % (aid, "an option" if is_opt else "a positional", kind))
            continue
        shaping = sorted(set(ms) & SHAPING)
        if kind == "positional" and ms.get("num_args") and "RangeFrom{1}" in str(ms["num_args"][0]):
            shaping.remove("num_args")
        if shaping:
            out.viol(rule, "%s|%s|%s" % (rule, aid, "+".join(shaping)), g["where"],
                     "argument `%s` is configured with %s: this changes which command-line words it consumes (e.g. an option taking several values swallows the positional globs that follow it)" % (aid, ", ".join("%s(%s)" % (m, ",".join(map(str, ms[m]))) for m in shaping)))
            continue
        if "Append" not in str(ms.get("action")):
            out.viol(rule, "%s|%s|action" % (rule, aid), g["where"], "argument `%s` does not accumulate repeated uses (action %s)" % (aid, ms.get("action")))
            continue
        n += 1
    out.inst(rule, n, len(want), ["%s:%s" % kv for kv in want.items()], exhaustive=True)


def check_parse_entry(ctx, out, rule="C14.parse"):
    """The command line is parsed with `clap::Parser::parse` (clap prints the error and exits with
    status 2 itself) - or with a fallible variant whose Err is returned from main."""
    main = ctx.main_view()
    if main is None:
        out.inst(rule, 0, 1)
        return
    n = 0
    for bi, t in main.calls():
        if callee_matches(t, r"clap::Parser::(parse|parse_from)$"):
            n += 1
        elif callee_matches(t, r"clap::Parser::(try_parse|try_parse_from|try_update_from)$"):
            bad = []
            for p, recs in ctx.rf.classify(main, bi, t, ctx.rf.result_paths(main, t) if hasattr(ctx.rf, "result_paths") else [()]):
                bad += [r for r in recs if shared.is_bad(r["class"])]
            # a usage error must end in a non-zero status: the Err arm leads only to `return Err` or process::exit(non-zero)
            sw = cfg_of(main).succ[bi]
            from rules.C12 import only_err_from
            ok = False
            if sw and main.blocks[sw[0]]["term"] and main.blocks[sw[0]]["term"]["k"] == "switch":
                arms = util.switch_arms(main, sw[0])
                ea = arms.get(1)
                if ea is not None:
                    ok, _ = only_err_from(ctx, main, ea)
            if ok and not bad:
                n += 1
            else:
                out.viol(rule, "%s|usage-error-exit" % rule, ctx.where(main, t["span"]),
                         "the command line is parsed with `%s` and a usage error (e.g. an unknown validator name) does not end in `return Err`: the rejection is printed but the exit status is 0" % callee_name(t).split("::")[-1])
    out.inst(rule, n, 1, ["main: Args::parse()"])


def check_flags(ctx, out):
    """The clap wiring (derive output, read from the expanded MIR): flag name -> argument id -> struct
    field, value parser and Append action (repetition accumulates)."""
    n = 0
    aug = [b for b in ctx.facts.bodies.values() if b.promoted is None and re.search(r"flags::Args as clap::Args>::augment_args$", b.id)]
    fam = [b for b in ctx.facts.bodies.values() if b.promoted is None and re.search(r"flags::Args as clap::FromArgMatches>::from_arg_matches_mut$", b.id)]
    if len(aug) != 1 or len(fam) != 1:
        out.inst("C14.flags", 0, 12, note="clap derive output for Args not found")
        return
    a = aug[0]
    E = ctx.expr(a)
    got = {}
    for bi, t in a.calls():
        if callee_matches(t, r"^clap::Arg::long$"):
            e = E.operand(t["args"][0])
            ids = [x[2][0][1] for x in walk(e) if x[0] == "call" and x[1].endswith("clap::Arg::new") and x[2] and x[2][0][0] == "const"]
            shorts = [x[2][1][1] for x in walk(e) if x[0] == "call" and x[1].endswith("clap::Arg::short") and len(x[2]) > 1 and x[2][1][0] == "const"]
            parsers = [y[1][3:].split("::")[-1] for x in walk(e) if x[0] == "call" and x[1].endswith("ValueParser::new") for y in x[2] if y[0] == "const" and isinstance(y[1], str) and y[1].startswith("fn:")]
            actions = [x[1].split("::")[-1] for x in walk(e) if x[0] == "agg" and "ArgAction" in x[1]]
            long_name = util.const_val(ctx, a, t["args"][1])
            if len(ids) == 1:
                got[ids[0]] = {"long": long_name, "short": chr(shorts[0]) if shorts and isinstance(shorts[0], int) else None, "parser": parsers[0] if parsers else None, "action": actions[0] if actions else None}
    for fid, want in FLAGS.items():
        g = got.get(fid)
        if g is None:
            out.viol("C14.flags", "C14.flags|%s|missing" % fid, ctx.where(a), "no long flag is defined for argument `%s`" % fid)
            continue
        for k in ("long", "short", "parser"):
            if g.get(k) == want[k]:
                n += 1
            else:
                out.viol("C14.flags", "C14.flags|%s|%s" % (fid, k), ctx.where(a), "argument `%s` has %s=%r; documented %r" % (fid, k, g.get(k), want[k]))
        if g.get("action") != "Append":
            out.viol("C14.flags", "C14.flags|%s|action" % fid, ctx.where(a), "argument `%s` does not accumulate repeated uses (action %s)" % (fid, g.get("action")))
    # struct field <- argument id of the same name
    f = fam[0]
    for bi, j, s in f.assigns():
        rv = s["rv"]
        if rv["k"] == "agg" and rv.get("path") == "blockwatch::flags::Args":
            for fname, op in zip(rv["fields"], rv["ops"]):
                if fname == "command":
                    continue
                fe = ctx.expr(f).operand(op)
                ids = {a[1] for x in walk(fe) if x[0] == "call" and re.search(r"clap::ArgMatches::(remove_many|remove_one|get_many|get_one)$", x[1]) for a in x[2] if a[0] == "const" and isinstance(a[1], str)}
                if ids == {fname}:
                    n += 1
                else:
                    out.viol("C14.flags", "C14.flags|field|%s" % fname, ctx.where(f, s["span"]), "field `%s` of Args is filled from argument id(s) %s" % (fname, sorted(ids)))
    out.inst("C14.flags", n, 16, ["-d/--disable->disabled_validators, -e/--enable->enabled_validators, -E/--extension->extensions, --ignore->ignore (Append, value parsers)"], exhaustive=True)


def _rv_places(rv):
    """places read by an rvalue"""
    out = []
    for key in ("op", "a", "b"):
        o = rv.get(key)
        if isinstance(o, dict):
            p = o.get("c") or o.get("m")
            if p:
                out.append(p)
    if isinstance(rv.get("place"), dict):
        out.append(rv["place"])
    for o in rv.get("ops", []) or []:
        p = o.get("c") or o.get("m")
        if p:
            out.append(p)
    return out


def check_selection_readers(ctx, out, rule="C14.readers"):
    """Non-interference of the selection: `-d` / `-e` decide which validators are created and nothing
    else. (1) The two fields of `Args` are read only by `Args::validate` and by their two accessors;
    (2) what the accessors return flows, in `main`, only into the detection call. A further reader - a
    helper that answers "is validator X selected?" for main's use, say - lets the selection steer which
    input is read or which files are parsed, so that `-d V` removes more than V's diagnostics."""
    n = 0
    FIELDS = ("disabled_validators", "enabled_validators")
    allowed = re.compile(r"^blockwatch::flags::Args::(validate|disabled_validators|enabled_validators)(::\{closure#\d+\})*$")
    for b in ctx.reachable_bodies():
        if b.promoted is not None:
            continue
        fields = set()
        for bi, j, s in b.assigns():
            for pl in _rv_places(s["rv"]):
                for e in pl["p"]:
                    if isinstance(e, dict) and e.get("f") in FIELDS and "flags::Args" in (e.get("adt") or ""):
                        fields.add(e["f"])
        for bi, t in b.calls():
            for a in t["args"]:
                pl = util.op_place(a)
                for e in (pl["p"] if pl else []):
                    if isinstance(e, dict) and e.get("f") in FIELDS and "flags::Args" in (e.get("adt") or ""):
                        fields.add(e["f"])
        if not fields:
            continue
        if allowed.search(b.id):
            n += 1
        else:
            out.viol(rule, "%s|field-reader|%s" % (rule, b.id), ctx.where(b),
                     "`%s` reads the selection flag(s) %s: besides their validation and the two accessors nothing may look at them (the selection must not steer anything but which validators are created)" % (b.id, sorted(fields)))
    main = ctx.main_view()
    if main is not None:
        S = {}
        for bi, t in main.calls():
            if callee_matches(t, r"flags::Args::(disabled_validators|enabled_validators)$") and not t["dest"]["p"]:
                S[t["dest"]["l"]] = callee_name(t).split("::")[-1]
        changed = True
        while changed:
            changed = False
            for bi, j, s in main.assigns():
                rv = s["rv"]
                srcs = [pl["l"] for pl in _rv_places(rv)]
                hit = [x for x in srcs if x in S]
                if hit and not s["lhs"]["p"] and rv["k"] in ("ref", "rawptr", "use", "cast") and s["lhs"]["l"] not in S:
                    S[s["lhs"]["l"]] = S[hit[0]]
                    changed = True
        for bi, j, s in main.assigns():
            rv = s["rv"]
            if rv["k"] in ("ref", "rawptr", "use", "cast"):
                continue
            if any(pl["l"] in S for pl in _rv_places(rv)):
                out.viol(rule, "%s|used-in-main" % rule, ctx.where(main, s["span"]), "the selected-validator set is used in main for something other than the detection call")
        for bi, t in main.calls():
            used = [S[util.op_place(a)["l"]] for a in t["args"] if util.op_place(a) and util.op_place(a)["l"] in S]
            if not used:
                continue
            if callee_matches(t, r"validators::detect_validators$"):
                n += 1
            elif callee_matches(t, r"ops::Deref>?::deref$|Borrow<.*>>?::borrow$|AsRef<.*>>?::as_ref$") and not t["dest"]["p"]:
                S[t["dest"]["l"]] = used[0]
            else:
                out.viol(rule, "%s|passed-to|%s" % (rule, callee_name(t).split("::")[-1]), ctx.where(main, t["span"]),
                         "the set returned by Args::%s is handed to `%s`: the selection may only reach the detection call" % (used[0], callee_name(t)))
        for bi, t in main.terms():
            if t["k"] == "switch" and util.op_place(t["op"]) and util.op_place(t["op"])["l"] in S:
                out.viol(rule, "%s|branch-in-main" % rule, ctx.where(main, t.get("span")), "main branches on the selected-validator set")
    out.inst(rule, n, 4, ["Args::validate + two accessors read the fields; main hands the sets to detect_validators only"])


def run(ctx, out, tier):
    check_names(ctx, out)
    dv = detect_fn(ctx)
    if dv is None:
        out.inst("C14.filter", 0, 2, note="detection function not found")
    else:
        check_filter(ctx, out, dv)
        check_args(ctx, out, dv)
        check_once(ctx, out, dv, rule="C14.once")
    check_reject(ctx, out)
    check_flags(ctx, out)
    check_cli_shape(ctx, out, "C14.cli", {"disabled_validators": "option", "enabled_validators": "option"})
    check_selection_readers(ctx, out)
    from rules.shared import check_detect_cases
    check_detect_cases(ctx, out, ["affects", "keep-sorted", "keep-unique", "line-pattern", "line-count", "check-lua", "check-ai"], rule="C14.detectcase")
    # the rejection of an unknown / conflicting selection reaches the exit status (no Result dropped
    # in main, the flag accessors and the validator driver), and each validator's diagnostics survive
    # the merge whichever other validators are selected
    bodies = [b for b in ctx.reachable_bodies() if b.id.startswith("bwbin::") or b.id.startswith("blockwatch::flags::") or re.match(r"blockwatch::validators::[a-z_]+(::\{closure#\d+\})*$", b.id)]
    shared.sh_err(ctx, out, bodies, floor=60)
    shared.sh_merge(ctx, out, ctx.reachable_bodies())
    check_parse_entry(ctx, out)
    shared.sh_main(ctx, out)
    # `the exit status agrees with what remains`: the exit / report skeleton and main's paths (shared with C11)
    from rules.C11 import check_exit, check_paths
    shared.run_renamed(out, lambda o: check_exit(ctx, o), "C11", "C14")
    check_paths(ctx, out, rule="C14.paths")
    # "every other diagnostic is identical to an unrestricted run": the report keeps every violation (shared with C11)
    from rules.C11 import check_items
    shared.run_renamed(out, lambda o: check_items(ctx, o), "C11", "C14")
    return meta()


def meta():
    return {
        "explanation": "Decides: name = attribute key = diagnostic code for all seven registered validators (21 table cells, read from the factory table, the detectors and the validators); the detector filter's complete decision table (all paths of the closure, checked against the specification on every valuation); the flow of the -d / -e sets from the accessors through main into the filter; exact-membership validation of flag values; the both-flags rejection and its dominance over parsing/validation; and the lose-nothing / duplicate-nothing discipline of the lazy detection loop as path properties. It decides these structural parts, not clap's behaviour.",
        "undecided": "clap's argument parsing; the diagnostics themselves (other properties).",
        "assumptions": ["clap calls the value_parser for every -d/-e value"],
    }
