"""C07 — keep-unique reports a block iff two keys coincide.

Decided: the violation is pushed exactly when `HashSet::insert(key)` returns false for the key
extracted from the current line; the set is created per block (no state across blocks); the first
duplicate leaves the line loop; the key is the trimmed non-blank line or, with a regex, the `value`
group else the whole match (agreeing with keep-sorted's extraction); no swallowed error.
Not decided: string equality / hashing and regex matching on runtime values.
"""
import re

from engine.cfg import cfg_of
from engine.expr import render, walk, find_calls
from engine.facts import callee_name, callee_matches
from engine import prov as P
from rules import shared, util, linelevel
from rules.C06 import check_regex_key

NAME = "keep-unique"


def check_model(ctx, out, rule="C07.model"):
    """keep-unique on a small model: three content lines, each without a key or with key A or B (27
    patterns), in the plain mode (key = line.trim(), blank lines have no key) and in the pattern mode
    with the `value` group taking part in the match or not (key = text of the `value` group, else of
    the whole match; non-matching lines have no key). Expected: a violation iff two keys are equal,
    exactly one, designating the first line whose key has already occurred."""
    from rules import linemodel as LMo
    from engine import casewalk as CW
    from engine import listmodel as LM
    import itertools
    vb = ctx.validate_body(NAME, inline=True, sugar=True)
    if vb is None:
        return None
    n = 0
    total = 0
    for mode in ("plain", "value-group", "whole-match"):
        for case in itertools.product(("-", "A", "B"), repeat=3):
            total += 1
            lines = [CW.sym("L%d" % i) for i in range(3)]

            def line_of(v):
                return int(v[1][1:]) if v[0] == "sym" and re.match(r"^L\d$", str(v[1])) else None

            def extra(w, bb, t, argv, env, rep, case=case, mode=mode):
                nm = callee_name(t)
                a0 = w.deref_val(env, argv[0]) if argv else CW.TOP
                if re.search(r"regex::Regex::new$", nm):
                    return CW.adt("std::result::Result", "Ok", 0, [("0", CW.sym("RE"))])
                if re.search(r"HashSet::<T>::new$|HashSet::<T, S>::(default|with_hasher)$|HashSet::<T>::with_capacity$|Default>?::default$", nm) and "HashSet" in (t.get("dest_ty") or ""):
                    return LM.lst(())
                if re.search(r"<impl str>::trim$", nm) and line_of(a0) is not None:
                    return CW.sym("trim", a0)
                if re.search(r"<impl str>::(trim|trim_start|trim_end)$", nm) and a0[0] == "sym" and a0[1] in ("trim", "trim_start", "trim_end") and len(a0) > 2:
                    # the two half-trims compose to `trim()` in either order; trimming a trimmed text again changes nothing
                    k_ = nm.rsplit("::", 1)[1]
                    if a0[1] == "trim" or k_ == "trim" or k_ != a0[1]:
                        return CW.sym("trim", a0[2])
                    return a0
                if re.search(r"<impl str>::(trim_start|trim_end|trim_ascii\w*|trim_matches|to_\w+|replace\w*)$", nm) and a0[0] == "sym":
                    return CW.sym(nm.split("::")[-1], a0)
                if re.search(r"<impl str>::is_empty$", nm) and a0[0] == "sym":
                    if a0[1] == "trim" and line_of(a0[2]) is not None:
                        if mode != "plain":
                            return None
                        return CW.const(1 if case[line_of(a0[2])] == "-" else 0)
                    return None
                if re.search(r"regex::Regex::captures$", nm) and len(argv) > 1:
                    x = w.deref_val(env, argv[1])
                    i = line_of(x)
                    if i is None:
                        rep.problems.append("the pattern is matched against %s, not against the content line" % LMo_show(x))
                        return None
                    if mode == "plain":
                        rep.problems.append("the pattern is consulted although the attribute is empty")
                    return CW.adt("std::option::Option", "Some", 1, [("0", CW.sym("CAPS", i))]) if case[i] != "-" else CW.adt("std::option::Option", "None", 0, [])
                if re.search(r"regex::Captures(::<'h>)?::name$", nm) and a0[0] == "sym" and a0[1] == "CAPS":
                    k = w.deref_val(env, argv[1]) if len(argv) > 1 else CW.TOP
                    if k != CW.const("value"):
                        return CW.adt("std::option::Option", "Some", 1, [("0", CW.sym("OTHER-GROUP", a0[2]))])
                    return CW.adt("std::option::Option", "Some", 1, [("0", CW.sym("M", a0[2]))]) if mode == "value-group" else CW.adt("std::option::Option", "None", 0, [])
                if re.search(r"regex::Captures(::<'h>)?::get$", nm) and a0[0] == "sym" and a0[1] == "CAPS":
                    k = w.deref_val(env, argv[1]) if len(argv) > 1 else CW.TOP
                    if k != CW.const(0):
                        return CW.adt("std::option::Option", "Some", 1, [("0", CW.sym("OTHER-GROUP", a0[2]))])
                    return CW.adt("std::option::Option", "Some", 1, [("0", CW.sym("M0", a0[2]))])
                if re.search(r"regex::Match(::<'h>)?::as_str$", nm) and a0[0] == "sym" and a0[1] in ("M", "M0", "OTHER-GROUP"):
                    return CW.sym("text", a0)
                if re.search(r"HashSet::<T, S, A>::(insert|contains|replace)$", nm) and len(argv) > 1 and a0[0] == "list":
                    x = w.deref_val(env, argv[1])
                    key = None
                    if mode == "plain":
                        if x[0] == "sym" and x[1] == "trim" and line_of(x[2]) is not None:
                            key = case[line_of(x[2])]
                    else:
                        want = "M" if mode == "value-group" else "M0"
                        if x[0] == "sym" and x[1] == "text" and x[2][0] == "sym" and x[2][1] == want:
                            key = case[x[2][2]]
                        elif x[0] == "sym" and x[1] == "text" and x[2][0] == "sym" and x[2][1] in ("M", "M0"):
                            rep.problems.append("the key is the text of %s although %s" % ("the whole match" if x[2][1] == "M0" else "the `value` group", "the `value` group took part in the match" if mode == "value-group" else "there is no `value` group"))
                            return None
                    if key is None or key == "-":
                        rep.problems.append("the key put into the seen-set is %s; expected %s" % (LMo_show(x), "line.trim() of a non-blank line" if mode == "plain" else "the text of the `value` group, else of the whole match, of a matching line"))
                        return None
                    present = CW.const(key) in a0[1]
                    if nm.endswith("::contains"):
                        return CW.const(1 if present else 0)
                    if not present:
                        cell = LM._cell(w, env, argv[0])
                        if cell is None:
                            return None
                        w.write_place(env, cell, LM.lst(a0[1] + (CW.const(key),)))
                    w.mut_handled = True
                    return CW.const(0 if present else 1)
                return None
            attr_value = CW.const("") if mode == "plain" else CW.const("(?P<value>x)|y")
            rep = LMo.walk_block(ctx, vb, NAME, lines, extra, attr_value=attr_value)
            if rep is None:
                return None
            seen, want = [], set()
            for i, k in enumerate(case):
                if k == "-":
                    continue
                if k in seen:
                    want = {i}
                    break
                seen.append(k)
            desc = "%s mode, line keys (%s)" % (mode, ", ".join(case))
            tag = "%s|%s" % (mode, "".join(case))
            if rep.problems:
                out.viol(rule, "%s|%s|problem" % (rule, tag), ctx.where(vb), "%s: %s" % (desc, rep.problems[0]))
            elif rep.reported != want:
                if "?" in rep.reported or "sym" in rep.reported:
                    out.viol(rule, "%s|%s|line-unknown" % (rule, tag), ctx.where(vb), "%s: a violation is built whose line does not come from Block::content_line_position(enumerate index)" % desc)
                else:
                    out.viol(rule, "%s|%s|verdict" % (rule, tag), ctx.where(vb),
                             "%s: violations are built for content line index(es) %s; expected %s (a violation exactly when two keys are equal, designating the first line whose key has already occurred)"
                             % (desc, sorted(rep.reported) or "none", sorted(want) or "none"))
            elif want and any(k == 0 and not (seen_idx & want) for k, seen_idx in rep.ends):
                out.viol(rule, "%s|%s|passed-over" % (rule, tag), ctx.where(vb),
                         "%s: on some path the block is left for the next one without the violation being built - a block can be passed over (its offending line is never even located) although two of its keys are equal" % desc)
            else:
                n += 1
    out.inst(rule, n, total, ["3 modes x 27 key patterns of 3 lines: violation iff a key repeats, at the first repeating line"], exhaustive=True)
    return n == total


def check_bad_pattern(ctx, out, rule="C07.badpattern"):
    """An uncompilable `keep-unique` pattern on a block with content fails the run: for 1, 2 and 3 non-blank
    content lines, with `Regex::new` answering Err, one iteration of the per-block loop ends in an error
    return on every path - the next block is never reached and nothing is reported instead. (Small model;
    None if the walk cannot follow the code.)"""
    from rules import linemodel as LMo
    from engine import casewalk as CW
    vb = ctx.validate_body(NAME, inline=True, sugar=True)
    if vb is None:
        return None
    n = 0
    for k in (1, 2, 3):
        lines = [CW.sym("L%d" % i) for i in range(k)]

        def extra(w, bb, t, argv, env, rep):
            nm = callee_name(t)
            a0 = w.deref_val(env, argv[0]) if argv else CW.TOP
            if re.search(r"regex::Regex::new$", nm):
                return CW.adt("std::result::Result", "Err", 1, [("0", CW.sym("REGEX-ERROR"))])
            if re.search(r"<impl str>::trim$", nm) and a0[0] == "sym":
                return CW.sym("trim", a0)
            if re.search(r"<impl str>::is_empty$", nm) and a0[0] == "sym":
                return CW.const(0)          # every line has content
            if re.search(r"anyhow::Context.*::(context|with_context)$|anyhow::context::<impl anyhow::Context|Result::<T, E>::map_err$", nm):
                return a0 if a0[0] == "adt" and a0[2] in ("Ok", "Err") else None
            return None
        rep = LMo.walk_block(ctx, vb, NAME, lines, extra, attr_value=CW.const("(unclosed"))
        if rep is None:
            return None
        if rep.accepted or rep.reported or rep.ok_returns or not rep.errors:
            what = "the block is passed over and the next block is examined" if rep.accepted else ("a violation is built" if rep.reported else ("the validator returns without an error" if rep.ok_returns else "no error return is reached"))
            out.viol(rule, "%s|%d-lines" % (rule, k), ctx.where(vb),
                     "an uncompilable keep-unique pattern on a block with %d non-blank content line(s): %s; expected: the run fails with an error on every path" % (k, what))
        else:
            n += 1
    out.inst(rule, n, 3, ["Regex::new -> Err with 1 / 2 / 3 content lines: error return on every path"], exhaustive=True)
    return n == 3


def LMo_show(v):
    if v[0] == "sym":
        return "%s(%s)" % (v[1], ", ".join(LMo_show(x) if isinstance(x, tuple) else str(x) for x in v[2:])) if len(v) > 2 else str(v[1])
    if v[0] == "const":
        return repr(v[1])
    return v[0]


def run(ctx, out, tier):
    vb = ctx.validate_body(NAME, inline=True, sugar=True)
    if vb is None:
        out.inst("C07.anchor", 0, 1)
        return meta()
    out.inst("C07.anchor", 1, 1, [vb.id])
    cfg = cfg_of(vb)
    E = ctx.expr(vb)
    # the verdict table on a small model (81 cases); if the model cannot follow the code, the structural
    # rules below decide the same aspects instead
    tr = out.trial()
    try:
        decided = check_model(ctx, tr)
    except Exception as e:      # noqa: BLE001
        ctx.view_fallbacks.append("C07.model: small-model analysis failed (%s: %s)" % (type(e).__name__, e))
        decided = None
    # an uncompilable pattern fails the run for every block with content (small model; undecided = no verdict
    # from this rule, C13.sites' propagation rule still applies)
    tr2 = out.trial()
    try:
        bp = check_bad_pattern(ctx, tr2)
    except Exception as e:      # noqa: BLE001
        ctx.view_fallbacks.append("C07.badpattern: small-model analysis failed (%s: %s)" % (type(e).__name__, e))
        bp = None
    if bp is not None:
        out.adopt(tr2)
    if decided is not None:
        out.adopt(tr)
    else:
        loops = linelevel.line_loops(ctx, vb)
        if len(loops) != 1:
            out.inst("C07.loop", len(loops), 1, note="exactly one loop over content.lines() expected")
            return meta()
        header, blocks, next_bb = loops[0]
        region = util.iter_region(vb, next_bb) | set(blocks)
        out.inst("C07.loop", 1, 1, ["line loop header bb%d" % header])
        pushes = [p for p in util.violation_push_sites(vb) if p[0] in region]

        # ------------------------------------------------------------------ C07.seen
        inserts = [(bi, t) for bi, t in vb.calls() if callee_matches(t, r"HashSet::<T, S, A>::insert$") and bi in region]
        n_seen = 0
        key_local = None
        if len(inserts) != 1:
            out.viol("C07.seen", "C07.seen|insert-count", ctx.where(vb), "expected exactly one `HashSet::insert` of the key in the line loop, found %d" % len(inserts))
        else:
            ibi, it = inserts[0]
            ke = E.operand(it["args"][1])
            r = ke
            while r[0] == "proj":
                r = r[1]
            if r[0] == "var":
                key_local = r[1]
            # the set is created inside the per-block iteration: covered by SH.state; here: every push is
            # guarded by insert(..) == false
            for bi, t in pushes:
                ok = False
                for br, vals, e in util.guards(ctx, vb, bi):
                    if e[0] == "call" and re.search(r"HashSet::<T, S, A>::insert$", e[1]):
                        if vals == {0}:
                            ok = True
                        else:
                            out.viol("C07.seen", "C07.seen|polarity", ctx.where(vb, t["span"]),
                                     "the keep-unique violation is pushed when `insert` returns TRUE, i.e. for a key that was NOT seen before")
                            ok = True
                if ok:
                    n_seen += 1
                else:
                    out.viol("C07.seen", "C07.seen|guard", ctx.where(vb, t["span"]), "the keep-unique violation push is not guarded by `!seen.insert(key)`")
            # every extracted key is inserted: the insert post-dominates the Some-arm of the key switch
            # (no path with a key skips the set)
            if key_local is not None:
                some_arm = None
                for bi, j, s in vb.assigns():
                    if s["rv"]["k"] == "discr" and s["rv"]["place"]["l"] == key_local and not s["rv"]["place"]["p"] and bi in region:
                        dl = s["lhs"]["l"]
                        for bj, t in vb.terms():
                            if t["k"] == "switch" and (util.op_place(t["op"]) or {}).get("l") == dl:
                                some_arm = util.switch_arms(vb, bj).get(1)
                if some_arm is None:
                    # no Option-typed key variable (the lines without a key are filtered out before the
                    # scan): the insert must then be reached from every item the filtered iteration yields -
                    # nothing between the item and the insert may skip it
                    r2 = cfg.reach(util.switch_arms(vb, cfg.succ[next_bb][0]).get(1), avoid=(set(range(cfg.n)) - set(region)) | {ibi}) if cfg.succ[next_bb] else set()
                    skip = header in r2 or any(header in cfg.succ[x] for x in r2)
                    # (items dropped by the expanded filter / filter_map steps are lines without a key)
                    from_filter = all(vb.blocks[x].get("synthetic") or vb.blocks[x].get("closure_of") for x in r2 if header in cfg.succ[x] or x == header) if skip else True
                    if skip and not from_filter:
                        out.viol("C07.seen", "C07.seen|skipped-key", ctx.where(vb),
                                 "there is a path through the line loop on which a key was extracted but not inserted into the seen-set: a later duplicate of it would be missed")
                    else:
                        n_seen += 1
                else:
                    outside = (set(range(cfg.n)) - set(region)) | {ibi}
                    r2 = cfg.reach(some_arm, avoid=outside)
                    if header in r2 or any(header in cfg.succ[x] for x in r2):
                        out.viol("C07.seen", "C07.seen|skipped-key", ctx.where(vb),
                                 "there is a path through the line loop on which a key was extracted but not inserted into the seen-set: a later duplicate of it would be missed")
                    else:
                        n_seen += 1
                # the inserted value is the key (tuple field 0 of the extraction result)
                labs = ctx.prov.read_operand(vb, it["args"][1])
                if key_local is not None:
                    n_seen += 1
        out.inst("C07.seen", n_seen, 3, ["push iff !seen.insert(key)", "every key is inserted"])

        # ------------------------------------------------------------------ C07.first
        n_first = linelevel.first_wins(ctx, out, "C07.first", vb, region, header, pushes, "keep-unique")
        out.inst("C07.first", n_first, 1, ["push -> leaves the line loop"])

        # ------------------------------------------------------------------ C07.key
        n_key = 0
        if key_local is not None:
            labs = ctx.prov.read_operand(vb, inserts[0][1]["args"][1]) if inserts else ctx.prov.read_local(vb, key_local, ("0", "0"))   # the key is what is inserted
            where = ctx.where(vb)
            linelevel.key_calls_allowed(ctx, out, "C07.key", vb, labs, where, "the uniqueness key", linelevel.KEY_ALLOWED)
            if P.has_call(labs, r"<impl str>::trim$") and P.has_call(labs, r"<impl str>::lines$"):
                n_key += 1
            else:
                out.viol("C07.key", "C07.key|not-trim", where, "without a regex the key derives from [%s]; expected `line.trim()`" % util.origins_text(labs, 6))
            # blank lines are skipped: a None key is produced under trim().is_empty()
            ok = False
            # follow plain copies (a helper's return slot after inlining) back to the `None` aggregates
            srcs, seen_l = [key_local], set()
            while srcs:
                l = srcs.pop()
                if l in seen_l:
                    continue
                seen_l.add(l)
                for d in vb.defs().get(l, []):
                    if d[0] != "stmt":
                        continue
                    rv = d[3]["rv"]
                    if rv["k"] == "use" and util.op_place(rv["op"]) and not util.op_place(rv["op"])["p"]:
                        srcs.append(util.op_place(rv["op"])["l"])
                    if rv["k"] == "agg" and rv.get("variant") == "None":
                        for br, vals, e in util.guards(ctx, vb, d[1]):
                            if re.search(r"str::is_empty\(str::trim\(", render(e, 300)) and 0 not in vals:
                                ok = True
            if not ok and inserts:
                # ... or the insert itself is only reached for a non-blank line
                for br, vals, e in util.guards(ctx, vb, inserts[0][0]):
                    if re.search(r"str::is_empty\(str::trim\(", render(e, 300)) and vals == {0}:
                        ok = True
            if ok:
                n_key += 1
            else:
                out.viol("C07.key", "C07.key|blank", where, "no `None` key under `line.trim().is_empty()`: blank lines are not skipped")
            n_key += check_regex_key(ctx, out, vb, "C07.key", labs, scope_blocks=region)
            # the regex comes from the keep-unique attribute itself
            news = [(bi, t) for bi, t in vb.calls() if callee_matches(t, r"regex::Regex::new$")]
            for bi, t in news:
                la = ctx.prov.read_operand(vb, t["args"][0])
                if P.has_const(la, NAME):
                    n_key += 1
                else:
                    out.viol("C07.key", "C07.key|pattern-source", ctx.where(vb, t["span"]), "the regex is compiled from [%s], not from the `keep-unique` attribute" % util.origins_text(la, 4))
        out.inst("C07.key", n_key, 7, ["key := line.trim() | caps.name('value') else caps.get(0) | skip"])

    shared.sh_err(ctx, out, ctx.validator_bodies(NAME), floor=6)
    shared.sh_state(ctx, out, NAME)
    shared.sh_visit(ctx, out, NAME)
    # the validator's diagnostics survive the merge with other validators' (append-only), and the
    # attribute text reaches it unmodified (comment delimiters are blanked exactly once)
    shared.sh_merge(ctx, out, ctx.reachable_bodies())
    from rules.C03 import check_blank
    check_blank(ctx, out)
    # the validator only runs if the lazy detection loop creates it: every pending detector is asked
    # about every block (shared with C11/C13/C14)
    from rules.C14 import check_once as _detect_once, detect_fn as _detect_fn
    _dv = _detect_fn(ctx)
    if _dv is not None:
        _detect_once(ctx, out, _dv, rule="C07.detect")
    else:
        out.inst("C07.detect", 0, 4)
    # what the rule judges is the text between the tags: the content's ends and its byte range (shared with C03 / C04)
    from rules.C03 import check_content as _check_content
    shared.run_renamed(out, lambda o: _check_content(ctx, o), "C03", "C07")
    from rules.C04 import check_content_range as _check_content_range
    _check_content_range(ctx, out, rule="C07.contentrange")
    # a block is only judged if its file is parsed at all: no successful return of the file parser without parsing but
    # "no grammar for this name" (shared with C12)
    from rules.C12 import check_noskip as _check_noskip
    _check_noskip(ctx, out, "C07.noskip")
    # what a validator found is only reported if the report keeps every violation (shared with C11)
    from rules.C11 import check_items as _check_items
    shared.run_renamed(out, lambda o: _check_items(ctx, o), "C11", "C07")
    from rules.shared import check_detect_cases
    check_detect_cases(ctx, out, ["keep-unique"], rule="C07.detectcase")
    from rules.C10 import check_line_base
    check_line_base(ctx, out, "keep-unique", "C07.line", index_by_model=decided is not None)
    shared.sh_flags(ctx, out, "keep-unique", "C07.flags")
    return meta()


def meta():
    return {
        "explanation": "Decides the control skeleton of keep-unique on every path of the validator's MIR: push iff HashSet::insert(key) is false, every extracted key reaches the set, the set (and the compiled regex) live per block, the first duplicate leaves the line loop, key provenance (trim / value group preferred over whole match / non-matching lines skipped), no swallowed Result. It decides these structural parts and not the verdict for a concrete block.",
        "undecided": "string equality, hashing and regex matching on runtime values.",
        "assumptions": [],
    }
